------------------------------- MODULE PowerA -------------------------------
(***************************************************************************)
(* Companion of Power.tla for Apalache (symbolic, unbounded integers):     *)
(* Power.tla lets TLC visit boundary exponents; here the exponent is ANY   *)
(* integer and the SMT solver shows that, inside the range the property    *)
(* quantifies over (|n| <= 2^30), none of the i32 operations the repaired  *)
(* powi performs (n - 1, n - 2, n - 3) leaves the i32 range -- and that    *)
(* the only exponents anywhere in i32 for which one does are the three     *)
(* smallest ones.                                                          *)
(*   apalache-mc check --init=Init --next=Next --inv=Inv --length=0 PowerA.tla *)
(***************************************************************************)
EXTENDS Integers

VARIABLE
    \* @type: Int;
    n

MaxI32 == 2147483647
MinI32 == -MaxI32 - 1
Bound == 1073741824
InI32(x) == MinI32 <= x /\ x <= MaxI32

Init == n \in Int
Next == UNCHANGED n

Inv ==
    /\ (-Bound <= n /\ n <= Bound) => (InI32(n - 1) /\ InI32(n - 2) /\ InI32(n - 3))
    /\ (InI32(n) /\ ~(InI32(n - 1) /\ InI32(n - 2) /\ InI32(n - 3))) => n < MinI32 + 3
=============================================================================
