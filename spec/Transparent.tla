---------------------------- MODULE Transparent ----------------------------
(***************************************************************************)
(* C06: the real part is transparent.                                      *)
(*                                                                         *)
(* Operands have a CONSTANT real part (a rational q) and fully symbolic    *)
(* derivative parts: every stored derivative scalar is its own             *)
(* indeterminate "a.eps", "a.v2[1,2]", ... of the polynomial ring.  The    *)
(* implementation-shaped operations of DualB are applied and TLC checks,   *)
(* for every type, operation and presence pattern:                         *)
(*   NoPartInRe  : the real part of the result is a polynomial in which no *)
(*                 derivative indeterminate occurs (not: "did not change   *)
(*                 on the samples tried" -- it cannot occur)               *)
(*   ReIsProgram : the real part equals the plain-scalar program that the  *)
(*                 table RealProg lists for the operation -- the same      *)
(*                 operation on plain scalars, e.g. tan |-> sin(q)/cos(q)  *)
(*   PredOnRe    : the sign / zero / one predicates and the comparisons    *)
(*                 are those of the real parts                             *)
(* The table (operation, arity, domain, std function, allowed ulps) is     *)
(* exported; the harness sweeps the real crate over random and special     *)
(* floats with two different sets of derivative parts (ordinary numbers /  *)
(* NaN, infinities, absent parts): real parts must agree bit for bit with  *)
(* each other, within the listed ulps with the std function on plain       *)
(* floats, and the plain-float instances of the interface must return the  *)
(* std result exactly.                                                     *)
(***************************************************************************)
EXTENDS RingP, Sequences, Json, TLC

B == INSTANCE DualB WITH
        SAdd <- PAdd, SSub <- PSub, SMul <- PMul, SDiv <- PDiv, SNeg <- PNeg, SRecip <- PInv,
        SZero <- P0, SOne <- P1, SOfQ <- PConst,
        SMulF <- PMulQ, SDivF <- LAMBDA t, q : PMulQ(t, QInv(q)),
        SAddF <- LAMBDA t, q : PAdd(t, PConst(q)), SSubF <- LAMBDA t, q : PSub(t, PConst(q)),
        SFun <- PFun, SPowi <- PPowi, SPowf <- PPowf, SLog <- PLog, SAtan2 <- PAtan2,
        SRe <- PRe,
        SIsZero <- PIsZero, SIsOne <- LAMBDA t : t = P1,
        SIsPositive <- LAMBDA t : QSign(PConstVal(t)) >= 0,
        SIsNegative <- LAMBDA t : QSign(PConstVal(t)) < 0,
        FLt <- QLt, FEps <- <<1, 4194304>>, FAbs <- QAbs, FOfQ <- LAMBDA q : q

Types == {B!TDual, B!TDual2, B!TDual3, B!THyperDual, B!THHD, B!TDualVec(2), B!TDual2Vec(2), B!THyperDualVec(2, 2)}
PresSet(ty) == IF B!IsVec(ty) THEN [B!FieldSet(ty) -> BOOLEAN] ELSE {[f \in B!FieldSet(ty) |-> TRUE]}

SymName(nm, f, i, j) == nm \o "." \o f \o "[" \o ToString(i) \o "," \o ToString(j) \o "]"
\* operand: constant real part q, symbolic parts
Opnd(ty, nm, q, pres) ==
    [f \in {"re"} \cup B!FieldSet(ty) |->
        IF f = "re" THEN PConst(q)
        ELSE IF B!IsVec(ty)
             THEN IF pres[f]
                  THEN LET d == B!PartDims(ty, f)
                       IN  B!Some(B!Mat(d[1], d[2], LAMBDA i, j : PVar(SymName(nm, f, i, j))))
                  ELSE B!None
             ELSE PVar(nm \o "." \o f)]
\* the derivative indeterminates are exactly the symbols that start with an operand name and a dot
IsPartSym(s) == Len(s) > 2 /\ SubSeq(s, 2, 2) = "." /\ SubSeq(s, 1, 1) \in {"a", "b", "c"}
PartSyms(p) == {s \in PSymbols(p) : IsPartSym(s)}

---------------------------------------------------------------------------
(* the table: operation, arity, domain of the real part, the std function on plain floats,
   whether the crate's real part is that very std call, ulps allowed otherwise *)
Row(op, ar, dom, ulps, same) == [op |-> op, arity |-> ar, dom |-> dom, ulps |-> ulps, same_call |-> same]
Rows == <<
    Row("recip", "un", "nonzero", 4, TRUE), Row("sqrt", "un", "pos", 4, TRUE), Row("cbrt", "un", "any", 4, TRUE),
    Row("exp", "un", "exp", 4, TRUE), Row("exp2", "un", "exp", 4, TRUE), Row("exp_m1", "un", "exp", 4, TRUE),
    Row("ln", "un", "pos", 4, TRUE), Row("log2", "un", "pos", 4, TRUE), Row("log10", "un", "pos", 4, TRUE),
    Row("ln_1p", "un", "gtm1", 4, TRUE), Row("log", "scal", "pos", 4, TRUE),
    Row("sin", "un", "any", 4, TRUE), Row("cos", "un", "any", 4, TRUE), Row("tan", "un", "any", 8, FALSE),
    Row("sin_cos.0", "un", "any", 4, TRUE), Row("sin_cos.1", "un", "any", 4, TRUE),
    Row("asin", "un", "unit", 4, TRUE), Row("acos", "un", "unit", 4, TRUE), Row("atan", "un", "any", 4, TRUE),
    Row("sinh", "un", "exp", 4, TRUE), Row("cosh", "un", "exp", 4, TRUE), Row("tanh", "un", "any", 4, TRUE),
    Row("asinh", "un", "any", 4, TRUE), Row("acosh", "un", "gt1", 4, TRUE), Row("atanh", "un", "unit", 4, TRUE),
    Row("atan2", "bin", "any", 4, TRUE),
    Row("abs", "un", "any", 0, TRUE), Row("signum", "un", "any", 0, TRUE), Row("neg", "un", "any", 0, TRUE),
    Row("inv", "un", "nonzero", 4, TRUE),
    Row("add", "bin", "any", 0, TRUE), Row("sub", "bin", "any", 0, TRUE), Row("mul", "bin", "any", 0, TRUE),
    Row("div", "bin", "nonzero2", 4, FALSE),
    Row("add_f", "scal", "any", 0, TRUE), Row("sub_f", "scal", "any", 0, TRUE), Row("mul_f", "scal", "any", 0, TRUE),
    Row("div_f", "scal", "nonzeros", 4, FALSE),
    Row("powi", "powi", "nonzero", 16, FALSE), Row("powf", "powf", "pos", 8, TRUE),
    Row("mul_add", "tern", "any", 8, FALSE), Row("powd", "bin", "pos", 0, FALSE),
    Row("sph_j0", "un", "any", -1, FALSE), Row("sph_j1", "un", "any", -1, FALSE), Row("sph_j2", "un", "any", -1, FALSE) >>
Preds == <<"is_zero", "is_one", "is_positive", "is_negative">>
Cmps  == <<"eq", "ne", "lt", "le", "gt", "ge">>

\* a rational inside the domain at which no function value is rational (so that symbols stay symbols)
Q35 == <<3, 5>>
PointOf(dom) == IF dom = "gt1" THEN <<5, 3>> ELSE Q35
Q2nd == <<-1, 1>>          \* real part of the second operand
Q3rd == <<5, 2>>

\* the operation of DualB, and the same operation on the plain scalars q (r: second, t: third operand)
Apply(ty, op, a, b, c, s, n) ==
    CASE op \in {"recip", "sqrt", "cbrt", "exp", "exp2", "exp_m1", "ln", "log2", "log10", "ln_1p", "sin", "cos", "asin", "acos",
                 "atan", "sinh", "cosh", "asinh", "acosh", "atanh"} -> B!ElemB(ty, op, a)
      [] op = "sin_cos.0" -> B!SinCosB(ty, a)[1] [] op = "sin_cos.1" -> B!SinCosB(ty, a)[2]
      [] op = "tan" -> B!TanB(ty, a) [] op = "tanh" -> B!TanhB(ty, a)
      [] op = "log" -> B!LogB(ty, a, s)
      [] op = "atan2" -> B!Atan2B(ty, a, b)
      [] op = "abs" -> B!AbsB(ty, a) [] op = "signum" -> B!SignumB(ty, a) [] op = "neg" -> B!NegB(ty, a)
      [] op = "inv" -> B!InvB(ty, a)
      [] op = "add" -> B!AddB(ty, a, b) [] op = "sub" -> B!SubB(ty, a, b)
      [] op = "mul" -> B!MulB(ty, a, b) [] op = "div" -> B!DivB(ty, a, b)
      [] op = "add_f" -> B!AddFB(ty, a, s) [] op = "sub_f" -> B!SubFB(ty, a, s)
      [] op = "mul_f" -> B!MulFB(ty, a, s) [] op = "div_f" -> B!DivFB(ty, a, s)
      [] op = "powi" -> B!PowiB(ty, a, n)
      [] op = "powf" -> B!PowfB(ty, a, s, FALSE)
      [] op = "mul_add" -> B!MulAddB(ty, a, b, c)
      [] op = "sph_j0" -> B!SphJ0B(ty, a) [] op = "sph_j1" -> B!SphJ1B(ty, a) [] op = "sph_j2" -> B!SphJ2B(ty, a)
F(fn, q) == PFun(fn, PConst(q))
RealProg(op, q, r, t, s, n) ==
    CASE op \in {"sqrt", "cbrt", "exp", "exp2", "exp_m1", "ln", "log2", "log10", "ln_1p", "sin", "cos", "asin", "acos",
                 "atan", "sinh", "cosh", "asinh", "acosh", "atanh"} -> F(op, q)
      [] op = "recip" -> PConst(QInv(q))
      [] op = "sin_cos.0" -> F("sin", q) [] op = "sin_cos.1" -> F("cos", q)
      [] op = "tan" -> PDiv(F("sin", q), F("cos", q))
      [] op = "tanh" -> F("tanh", q)
      [] op = "log" -> PLog(PConst(q), s)
      [] op = "atan2" -> PAtan2(PConst(q), PConst(r))
      [] op = "abs" -> PConst(QAbs(q)) [] op = "neg" -> PConst(QNeg(q))
      [] op = "signum" -> PConst(IF QSign(q) < 0 THEN QNeg(Q1) ELSE Q1)
      [] op = "inv" -> PConst(QInv(q))
      [] op = "add" -> PConst(QAdd(q, r)) [] op = "sub" -> PConst(QSub(q, r))
      [] op = "mul" -> PConst(QMul(q, r)) [] op = "div" -> PConst(QDiv(q, r))
      [] op = "add_f" -> PConst(QAdd(q, s)) [] op = "sub_f" -> PConst(QSub(q, s))
      [] op = "mul_f" -> PConst(QMul(q, s)) [] op = "div_f" -> PConst(QDiv(q, s))
      [] op = "powi" -> PConst(QPow(q, n))
      [] op = "powf" -> PPowf(PConst(q), s)
      [] op = "mul_add" -> PConst(QAdd(QMul(q, r), t))
      [] op = "sph_j0" -> PDiv(F("sin", q), PConst(q))
      [] op = "sph_j1" -> PDiv(PSub(F("sin", q), PMulQ(F("cos", q), q)), PConst(QMul(q, q)))
      [] op = "sph_j2" -> PDiv(PSub(PMulQ(F("sin", q), QSub(<<3, 1>>, QMul(q, q))), PMulQ(F("cos", q), QMul(<<3, 1>>, q))),
                               PConst(QMul(q, QMul(q, q))))

---------------------------------------------------------------------------
VARIABLE ob
Init == ob = [k |-> "root"]
Pick == /\ ob.k = "root"
        /\ \E ty \in Types : \E i \in 1..Len(Rows), pa \in PresSet(ty), pb \in PresSet(ty), n \in {-3, -1, 0, 1, 2, 3, 5},
              s \in {<<5, 2>>, <<-3, 2>>, <<7, 3>>} :
              /\ (Rows[i].arity # "powi" => n = 3)
              /\ (Rows[i].arity \notin {"scal", "powf"} => s = <<5, 2>>)
              /\ (Rows[i].arity \in {"un", "scal", "powi", "powf"} => pb = pa)
              /\ (Rows[i].op \in {"log"} => QSign(s) > 0)
              /\ Rows[i].op # "powd"                     \* a program of exp, ln and *: covered row by row
              /\ ob' = [k |-> "ob", ty |-> ty, row |-> Rows[i], pa |-> pa, pb |-> pb, n |-> n, s |-> s]
Next == Pick
Spec == Init /\ [][Next]_ob

Res(o) == LET q == PointOf(o.row.dom)
          IN  Apply(o.ty, o.row.op, Opnd(o.ty, "a", q, o.pa), Opnd(o.ty, "b", Q2nd, o.pb), Opnd(o.ty, "c", Q3rd, o.pa), o.s, o.n)
NoPartInRe  == ob.k = "ob" => PartSyms(Res(ob).re) = {}
ReIsProgram == ob.k = "ob" => Res(ob).re = RealProg(ob.row.op, PointOf(ob.row.dom), Q2nd, Q3rd, ob.s, ob.n)
\* predicates and comparisons look at the real part only
PredOnRe == ob.k = "ob" =>
    LET q == PointOf(ob.row.dom)
        a == Opnd(ob.ty, "a", q, ob.pa)
        b == Opnd(ob.ty, "b", Q2nd, ob.pb)
        z == Opnd(ob.ty, "a", Q0, ob.pa)
        u == Opnd(ob.ty, "a", Q1, ob.pa)
    IN  /\ B!IsZeroB(z) /\ ~B!IsZeroB(a) /\ B!IsOneB(u) /\ ~B!IsOneB(a)
        /\ B!IsPositiveB(a) = (QSign(q) >= 0) /\ B!IsNegativeB(b) = (QSign(Q2nd) < 0)
        /\ B!LtB(b, a) = QLt(Q2nd, q) /\ B!LtB(a, b) = QLt(q, Q2nd) /\ B!EqB(a, Opnd(ob.ty, "b", q, ob.pb))
\* the operand symbols do reach the derivative parts (the check above is not vacuous)
PartsDoDepend == ob.k = "ob" /\ ~B!IsVec(ob.ty) /\ ob.row.op \notin {"signum"} /\ ~(ob.row.op = "powi" /\ ob.n = 0) =>
    \E f \in B!FieldSet(ob.ty) : PartSyms(Res(ob)[f]) # {}
ExportTransp == ob.k = "root" => PrintT(<<"TRANSP", ToJson([rows |-> Rows, preds |-> Preds, cmps |-> Cmps])>>)
=============================================================================
