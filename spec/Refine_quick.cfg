SPECIFICATION Spec
CONSTANTS MaxN = 2
          MaxHM = 2
          MaxHN = 2
INVARIANT Refines
CHECK_DEADLOCK FALSE
