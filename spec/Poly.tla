------------------------------- MODULE Poly -------------------------------
(***************************************************************************)
(* Laurent polynomials with rational coefficients in named symbols.        *)
(*   monomial   : function  symbol |-> non-zero integer exponent           *)
(*   polynomial : function  monomial |-> non-zero rational coefficient     *)
(* Both are canonical forms, hence TLA+ equality decides identity in       *)
(* Q[s1, 1/s1, s2, 1/s2, ...].  This is the scalar interpretation "L" of   *)
(* DESIGN.md: evaluating a formula of the implementation over symbols for  *)
(* the operand parts proves the corresponding identity for ALL operand     *)
(* values at once.  Constant polynomials embed the rationals, so the same  *)
(* ring also carries values at rational points together with opaque        *)
(* symbols for transcendental values such as "sin(3/5)".                   *)
(***************************************************************************)
EXTENDS Rat, FiniteSets, FiniteSetsExt, TLC

M1 == <<>>                                          \* the unit monomial
MExp(m, v) == IF v \in DOMAIN m THEN m[v] ELSE 0
MMul(a, b) == LET D == DOMAIN a \cup DOMAIN b
                  e(v) == MExp(a, v) + MExp(b, v)
              IN  [v \in {w \in D : e(w) # 0} |-> e(v)]
MInv(a)    == [v \in DOMAIN a |-> -a[v]]
MPow(v, k) == IF k = 0 THEN M1 ELSE [w \in {v} |-> k]
MRaise(a, k) == IF k = 0 THEN M1 ELSE [v \in DOMAIN a |-> a[v] * k]

P0 == <<>>                                          \* the zero polynomial
PTerm(c, m) == IF QIsZero(c) THEN P0 ELSE [n \in {m} |-> c]
PConst(q) == PTerm(q, M1)
PInt(i)   == PConst(QInt(i))
P1 == PInt(1)
PVar(v)   == PTerm(Q1, MPow(v, 1))
PCoef(p, m) == IF m \in DOMAIN p THEN p[m] ELSE Q0
PIsZero(p)  == DOMAIN p = {}
PIsConst(p) == DOMAIN p \subseteq {M1}
PConstVal(p) == PCoef(p, M1)                        \* meaningful when PIsConst(p)

PAdd(p, q) == LET D == DOMAIN p \cup DOMAIN q
                  c(m) == QAdd(PCoef(p, m), PCoef(q, m))
              IN  [m \in {n \in D : ~QIsZero(c(n))} |-> c(m)]
PNeg(p)    == [m \in DOMAIN p |-> QNeg(p[m])]
PSub(p, q) == PAdd(p, PNeg(q))
\* p times the single term c*mm  (monomials are invertible, so the map is injective)
PScale(p, c, mm) == IF QIsZero(c) THEN P0
                    ELSE LET mi == MInv(mm)
                         IN  [n \in {MMul(m, mm) : m \in DOMAIN p} |-> QMul(c, p[MMul(n, mi)])]
PMul(p, q) == IF Cardinality(DOMAIN q) = 1
              THEN LET m == CHOOSE m \in DOMAIN q : TRUE IN PScale(p, q[m], m)
              ELSE FoldSet(LAMBDA m, acc : PAdd(acc, PScale(p, q[m], m)), P0, DOMAIN q)
PMulQ(p, c) == PScale(p, c, M1)

PIsTerm(p) == Cardinality(DOMAIN p) = 1
\* inverse of a single-term polynomial (the only invertible elements we need)
PInv(p)    == LET m == CHOOSE m \in DOMAIN p : TRUE IN PTerm(QInv(p[m]), MInv(m))
PDiv(p, q) == PMul(p, PInv(q))

RECURSIVE PPowNat(_, _)
PPowNat(p, k) == IF k = 0 THEN P1 ELSE PMul(PPowNat(p, k - 1), p)
PPow(p, k)    == IF k >= 0 THEN PPowNat(p, k) ELSE PPowNat(PInv(p), -k)

\* substitute polynomials env[v] for the symbols v \in DOMAIN env (others stay)
PSubstMono(m, env) ==
    FoldSet(LAMBDA v, acc : PMul(acc, IF v \in DOMAIN env THEN PPow(env[v], m[v])
                                       ELSE PTerm(Q1, MPow(v, m[v]))),
            P1, DOMAIN m)
PSubst(p, env) ==
    FoldSet(LAMBDA m, acc : PAdd(acc, PMulQ(PSubstMono(m, env), p[m])), P0, DOMAIN p)

\* the set of symbols occurring in p
PSymbols(p) == UNION {DOMAIN m : m \in DOMAIN p}
PNumTerms(p) == Cardinality(DOMAIN p)
=============================================================================
