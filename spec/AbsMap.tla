------------------------------- MODULE AbsMap -------------------------------
(***************************************************************************)
(* The abstraction of a B-level value (record with optional matrix parts)  *)
(* to a jet (function from slot sequences to scalars): absent part |->     *)
(* zeros, stored part |-> its slot sequence.  Independent of the scalar    *)
(* ring except for its zero.  (Refine.tla carries its own copy for the     *)
(* polynomial ring; this module serves the other interpretations.)         *)
(***************************************************************************)
EXTENDS Integers, Sequences, FiniteSets

CONSTANT SZero

SubSeqsOf123 == {<<>>, <<1>>, <<2>>, <<3>>, <<1, 2>>, <<1, 3>>, <<2, 3>>, <<1, 2, 3>>}

Parts(ty) ==
    CASE ty.k = "Dual"      -> {<<>>, <<1>>}
      [] ty.k = "DualVec"   -> {<<>>} \cup {<<i>> : i \in 1..ty.n}
      [] ty.k = "Dual2"     -> {<<>>, <<1>>, <<1, 1>>}
      [] ty.k = "Dual2Vec"  -> {<<>>} \cup {<<i>> : i \in 1..ty.n}
                                      \cup {<<i, j>> : i \in 1..ty.n, j \in 1..ty.n}
      [] ty.k = "Dual3"     -> {<<>>, <<1>>, <<1, 1>>, <<1, 1, 1>>}
      [] ty.k = "HyperDual" -> {<<>>, <<1>>, <<2>>, <<1, 2>>}
      [] ty.k = "HyperDualVec" ->
            {<<>>} \cup {<<i>> : i \in 1..ty.m} \cup {<<ty.m + j>> : j \in 1..ty.n}
                   \cup {<<i, ty.m + j>> : i \in 1..ty.m, j \in 1..ty.n}
      [] ty.k = "HHD"       -> SubSeqsOf123

HHDField(mm) ==
    CASE mm = <<1>> -> "eps1" [] mm = <<2>> -> "eps2" [] mm = <<3>> -> "eps3"
      [] mm = <<1, 2>> -> "eps1eps2" [] mm = <<1, 3>> -> "eps1eps3" [] mm = <<2, 3>> -> "eps2eps3"
      [] mm = <<1, 2, 3>> -> "eps1eps2eps3"

Entry(d, i, j) == IF d.p THEN d.m[i][j] ELSE SZero

PartOf(ty, v, mm) ==
    IF mm = <<>> THEN v.re
    ELSE CASE ty.k = "Dual"  -> v.eps
      [] ty.k = "DualVec"    -> Entry(v.eps, mm[1], 1)
      [] ty.k = "Dual2"      -> IF Len(mm) = 1 THEN v.v1 ELSE v.v2
      [] ty.k = "Dual2Vec"   -> IF Len(mm) = 1 THEN Entry(v.v1, 1, mm[1]) ELSE Entry(v.v2, mm[1], mm[2])
      [] ty.k = "Dual3"      -> IF Len(mm) = 1 THEN v.v1 ELSE IF Len(mm) = 2 THEN v.v2 ELSE v.v3
      [] ty.k = "HyperDual"  -> IF mm = <<1>> THEN v.eps1 ELSE IF mm = <<2>> THEN v.eps2 ELSE v.eps1eps2
      [] ty.k = "HyperDualVec" ->
            IF Len(mm) = 2 THEN Entry(v.eps1eps2, mm[1], mm[2] - ty.m)
            ELSE IF mm[1] <= ty.m THEN Entry(v.eps1, mm[1], 1)
            ELSE Entry(v.eps2, 1, mm[1] - ty.m)
      [] ty.k = "HHD"        -> v[HHDField(mm)]

AbsJet(ty, v) == [mm \in Parts(ty) |-> PartOf(ty, v, mm)]
=============================================================================
