------------------------------- MODULE Drivers -------------------------------
(***************************************************************************)
(* C05: the twenty derivative drivers (first/second/third_derivative,      *)
(* gradient, jacobian, hessian, partial_hessian, second_partial_derivative,*)
(* third_partial_derivative(_vec) and their try_ variants) as B-programs:  *)
(* seed the inputs (from_re, derivative(), derivative_generic(r, c, i)),   *)
(* run the closure in dual arithmetic, unpack (unwrap_generic, transpose,  *)
(* from_rows).  The closure is the GENERIC CUBIC POLYNOMIAL MAP            *)
(* f : R^n -> R^m (any smooth function has the jets of its Taylor          *)
(* polynomial); its coefficients and the evaluation point are symbols      *)
(* (mode "sym": the identity holds for all functions and points) or small  *)
(* pairwise distinct integers (mode "num": cases exported for the replay   *)
(* on the real drivers).  Expected values: FORMAL partial differentiation  *)
(* of the polynomials (PD below), i.e. independent of dual arithmetic.     *)
(***************************************************************************)
EXTENDS RingP, Json, SequencesExt

CONSTANTS Mode,      \* "sym" | "num"
          MaxN, MaxM,
          CaseSet    \* "all": every driver case up to MaxN / MaxM;  "py": the lengths 1..12 used for the Python layer

B == INSTANCE DualB WITH
        SAdd <- PAdd, SSub <- PSub, SMul <- PMul, SDiv <- PDiv, SNeg <- PNeg, SRecip <- PInv,
        SZero <- P0, SOne <- P1, SOfQ <- PConst,
        SMulF <- PMulQ, SDivF <- LAMBDA t, q : PMulQ(t, QInv(q)),
        SAddF <- LAMBDA t, q : PAdd(t, PConst(q)), SSubF <- LAMBDA t, q : PSub(t, PConst(q)),
        SFun <- PFun, SPowi <- PPowi, SPowf <- PPowf, SLog <- PLog, SAtan2 <- PAtan2,
        SRe <- PRe,
        SIsZero <- PIsZero, SIsOne <- LAMBDA t : t = P1,
        SIsPositive <- LAMBDA t : QSign(PConstVal(t)) > 0,
        SIsNegative <- LAMBDA t : QSign(PConstVal(t)) < 0,
        FLt <- QLt, FEps <- <<1, 4194304>>, FAbs <- QAbs, FOfQ <- LAMBDA q : q

---------------------------------------------------------------------------
(* the generic cubic map: exponent vectors of total degree <= 3 in nv variables *)
RECURSIVE ExpVecs(_, _)
ExpVecs(nv, deg) ==
    IF nv = 0 THEN {<<>>}
    ELSE UNION {{<<e>> \o r : r \in ExpVecs(nv - 1, deg - e)} : e \in 0..deg}
Vn(i) == "x" \o ToString(i)
MonoOf(ev) ==   \* Poly monomial x1^e1 ... xn^en
    LET S == {i \in 1..Len(ev) : ev[i] > 0} IN [v \in {Vn(i) : i \in S} |-> ev[CHOOSE i \in S : Vn(i) = v]]
EvSum(ev) == LET F[i \in 0..Len(ev)] == IF i = 0 THEN 0 ELSE F[i - 1] + ev[i] IN F[Len(ev)]
EvCode(ev) == LET F[i \in 0..Len(ev)] == IF i = 0 THEN 0 ELSE 4 * F[i - 1] + ev[i] IN F[Len(ev)]
\* coefficient of monomial ev in output k: a symbol, or a small integer that differs for every (k, ev)
CoefNum(k, ev) == ((7 * EvCode(ev) + 13 * k + 3) % 11) - 5 + (IF (EvCode(ev) + k) % 3 = 0 THEN 6 ELSE 0)
Coef(k, ev) ==
    IF Mode = "sym" THEN PVar("c" \o ToString(k) \o "_" \o ToString(EvCode(ev)))
    ELSE PInt(IF CoefNum(k, ev) = 0 THEN 4 ELSE CoefNum(k, ev))
\* sparse in "num" mode for more than 3 variables (keeps the programs small)
Terms(nv) == IF nv <= 3 THEN ExpVecs(nv, 3) ELSE {ev \in ExpVecs(nv, 3) : EvSum(ev) <= 2 \/ EvCode(ev) % 5 = 0}
\* the case under consideration; its sparsity variant decides which terms output k has.  A closure that never
\* touches an input returns a number whose derivative parts are ABSENT (Derivative::none), not zero matrices:
\*   "full"                 the generic cubic map
\*   jacobian, cst = S      the outputs in S are constants (their rows must be zero rows IN PLACE)
\*   "const"                the (single) output is a constant: every derivative part is unwrapped from absent
\*   "linear"               degree <= 1: the second-order part of hessian is absent
\*   "xonly"                partial_hessian of a function of x alone: eps2 and eps1eps2 are absent
VARIABLE c
Sp == IF "sp" \in DOMAIN c THEN c.sp ELSE "full"
TermsK(k, nv) ==
    LET full == Terms(nv) IN
    CASE "cst" \in DOMAIN c /\ k \in c.cst -> {ev \in full : EvSum(ev) = 0}
      [] Sp = "const"  -> {ev \in full : EvSum(ev) = 0}
      [] Sp = "linear" -> {ev \in full : EvSum(ev) <= 1}
      [] Sp = "xonly"  -> {ev \in full : \A j \in 1..nv : j > c.m => ev[j] = 0}
      [] OTHER -> full

\* the polynomial of output k as an element of the ring (for formal differentiation)
FPoly(k, nv) ==
    FoldSet(LAMBDA ev, acc : PAdd(acc, PMul(Coef(k, ev), PTerm(Q1, MonoOf(ev)))), P0, TermsK(k, nv))
\* formal partial derivative with respect to the symbol v
PD(pp, v) ==
    FoldSet(LAMBDA mm, acc :
                IF v \in DOMAIN mm
                THEN PAdd(acc, PTerm(QMul(pp[mm], QInt(mm[v])), MMul(mm, MPow(v, -1))))
                ELSE acc,
            P0, DOMAIN pp)
\* the point: symbols x1.. stay symbols in "sym" mode, become small integers in "num" mode
PointVal(i) == IF i % 3 = 0 THEN 2 ELSE IF i % 3 = 1 THEN -1 ELSE 3
AtPoint(pp, nv) ==
    IF Mode = "sym" THEN pp ELSE PSubst(pp, [v \in {Vn(i) : i \in 1..nv} |-> PInt(PointVal(CHOOSE i \in 1..nv : Vn(i) = v))])
XVal(i) == IF Mode = "sym" THEN PVar(Vn(i)) ELSE PInt(PointVal(i))

---------------------------------------------------------------------------
(* the closure evaluated in dual arithmetic: sum of coef * x^ev, only generic operations *)
RECURSIVE PowB(_, _, _)
PowB(ty, x, e) == IF e = 0 THEN B!OneB(ty) ELSE B!MulB(ty, PowB(ty, x, e - 1), x)
TermB(ty, k, ev, xs) ==
    LET F[i \in 0..Len(ev)] ==
            IF i = 0 THEN B!FromRe(ty, Coef(k, ev)) ELSE B!MulB(ty, F[i - 1], PowB(ty, xs[i], ev[i]))
    IN  F[Len(ev)]
EvalB(ty, k, nv, xs) ==
    FoldSet(LAMBDA ev, acc : B!AddB(ty, acc, TermB(ty, k, ev, xs)), B!ZeroB(ty), TermsK(k, nv))

---------------------------------------------------------------------------
(* the drivers, transcribed *)
\* first/second/third_derivative:  x = T::from_re(x).derivative();  g(x).map(|r| (r.re, r.v1, ...))
FirstDerivB ==
    LET x == [re |-> XVal(1), eps |-> P1]
        r == EvalB(B!TDual, 1, 1, <<x>>)
    IN  <<r.re, r.eps>>
SecondDerivB ==
    LET x == [re |-> XVal(1), v1 |-> P1, v2 |-> P0]
        r == EvalB(B!TDual2, 1, 1, <<x>>)
    IN  <<r.re, r.v1, r.v2>>
ThirdDerivB ==
    LET x == [re |-> XVal(1), v1 |-> P1, v2 |-> P0, v3 |-> P0]
        r == EvalB(B!TDual3, 1, 1, <<x>>)
    IN  <<r.re, r.v1, r.v2, r.v3>>
\* gradient / jacobian:  x.map(DualVec::from_re); xi.eps = derivative_generic(r, c, i)   with (r, c) = (n, 1)
SeedsDualVec(n) == [i \in 1..n |-> [re |-> XVal(i), eps |-> B!DDerivGeneric(n, 1, i - 1)]]
GradientB(n) ==
    LET r == EvalB(B!TDualVec(n), 1, n, SeedsDualVec(n))
    IN  <<r.re, B!DUnwrap(r.eps, n, 1)>>                               \* (f, n x 1 column)
JacobianB(n, m) ==
    LET xs == SeedsDualVec(n)
        rs == [k \in 1..m |-> EvalB(B!TDualVec(n), k, n, xs)]
        \* from_rows(res.map(|r| r.eps.unwrap_generic(r, c).transpose()))
        rows == [k \in 1..m |-> B!MatTranspose(B!DUnwrap(rs[k].eps, n, 1), n, 1)[1]]
    IN  <<[k \in 1..m |-> rs[k].re], rows>>                            \* (f, m x n matrix by rows)
\* hessian:  xi.v1 = derivative_generic(c, r, i) with (r, c) = (n, 1), i.e. a 1 x n row
HessianB(n) ==
    LET xs == [i \in 1..n |-> [re |-> XVal(i), v1 |-> B!DDerivGeneric(1, n, i - 1), v2 |-> B!None]]
        r == EvalB(B!TDual2Vec(n), 1, n, xs)
    IN  <<r.re, B!MatTranspose(B!DUnwrap(r.v1, 1, n), 1, n), B!DUnwrap(r.v2, n, n)>>
\* partial_hessian: variables x (m of them: eps1 seeds) and y (n of them: eps2 seeds)
PartialHessianB(m, n) ==
    LET ty == B!THyperDualVec(m, n)
        xs == [i \in 1..m |-> [re |-> XVal(i), eps1 |-> B!DDerivGeneric(m, 1, i - 1), eps2 |-> B!None, eps1eps2 |-> B!None]]
        ys == [j \in 1..n |-> [re |-> XVal(m + j), eps1 |-> B!None, eps2 |-> B!DDerivGeneric(1, n, j - 1), eps1eps2 |-> B!None]]
        r == EvalB(ty, 1, m + n, xs \o ys)
    IN  <<r.re, B!DUnwrap(r.eps1, m, 1), B!MatTranspose(B!DUnwrap(r.eps2, 1, n), 1, n), B!DUnwrap(r.eps1eps2, m, n)>>
\* second_partial_derivative(g, x, y)
HD(re, e1, e2) == [re |-> re, eps1 |-> e1, eps2 |-> e2, eps1eps2 |-> P0]
SecondPartialB ==
    LET r == EvalB(B!THyperDual, 1, 2, <<HD(XVal(1), P1, P0), HD(XVal(2), P0, P1)>>)
    IN  <<r.re, r.eps1, r.eps2, r.eps1eps2>>
\* third_partial_derivative_vec(g, x, i, j, k):  x[i].eps1 = 1; x[j].eps2 = 1; x[k].eps3 = 1  (in this order)
HHDRe(re) == [f \in {"re"} \cup B!FieldSet(B!THHD) |-> IF f = "re" THEN re ELSE P0]
ThirdPartialVecB(n, i, j, k) ==
    LET x0 == [q \in 1..n |-> HHDRe(XVal(q))]
        x1 == [x0 EXCEPT ![i].eps1 = P1]
        x2 == [x1 EXCEPT ![j].eps2 = P1]
        x3 == [x2 EXCEPT ![k].eps3 = P1]
        r == EvalB(B!THHD, 1, n, x3)
    IN  <<r.re, r.eps1, r.eps2, r.eps3, r.eps1eps2, r.eps1eps3, r.eps2eps3, r.eps1eps2eps3>>

---------------------------------------------------------------------------
(* what calculus says *)
F(k, nv) == FPoly(k, nv)
D1(pp, i) == PD(pp, Vn(i))
ExpFirst  == LET f == F(1, 1) IN <<AtPoint(f, 1), AtPoint(D1(f, 1), 1)>>
ExpSecond == LET f == F(1, 1) IN <<AtPoint(f, 1), AtPoint(D1(f, 1), 1), AtPoint(D1(D1(f, 1), 1), 1)>>
ExpThird  == LET f == F(1, 1) IN <<AtPoint(f, 1), AtPoint(D1(f, 1), 1), AtPoint(D1(D1(f, 1), 1), 1),
                                   AtPoint(D1(D1(D1(f, 1), 1), 1), 1)>>
ExpGradient(n) == LET f == F(1, n) IN <<AtPoint(f, n), [i \in 1..n |-> <<AtPoint(D1(f, i), n)>>]>>
ExpJacobian(n, m) == <<[k \in 1..m |-> AtPoint(F(k, n), n)], [k \in 1..m |-> [j \in 1..n |-> AtPoint(D1(F(k, n), j), n)]]>>
ExpHessian(n) == LET f == F(1, n) IN
    <<AtPoint(f, n), [i \in 1..n |-> <<AtPoint(D1(f, i), n)>>], [i \in 1..n |-> [j \in 1..n |-> AtPoint(D1(D1(f, i), j), n)]]>>
ExpPartialHessian(m, n) == LET f == F(1, m + n)  nv == m + n IN
    <<AtPoint(f, nv), [i \in 1..m |-> <<AtPoint(D1(f, i), nv)>>], [j \in 1..n |-> <<AtPoint(D1(f, m + j), nv)>>],
      [i \in 1..m |-> [j \in 1..n |-> AtPoint(D1(D1(f, i), m + j), nv)]]>>
ExpSecondPartial == LET f == F(1, 2) IN
    <<AtPoint(f, 2), AtPoint(D1(f, 1), 2), AtPoint(D1(f, 2), 2), AtPoint(D1(D1(f, 1), 2), 2)>>
ExpThirdPartialVec(n, i, j, k) == LET f == F(1, n) IN
    <<AtPoint(f, n), AtPoint(D1(f, i), n), AtPoint(D1(f, j), n), AtPoint(D1(f, k), n),
      AtPoint(D1(D1(f, i), j), n), AtPoint(D1(D1(f, i), k), n), AtPoint(D1(D1(f, j), k), n),
      AtPoint(D1(D1(D1(f, i), j), k), n)>>

---------------------------------------------------------------------------
Cases ==
    {[d |-> "first_derivative"], [d |-> "second_derivative"], [d |-> "third_derivative"], [d |-> "second_partial_derivative"]}
    \cup {[d |-> "gradient", n |-> n] : n \in 0..MaxN}
    \cup {[d |-> "jacobian", n |-> n, m |-> m] : n \in 0..MaxN, m \in 1..MaxM}
    \cup {[d |-> "hessian", n |-> n] : n \in 0..MaxN}
    \cup {[d |-> "partial_hessian", m |-> m, n |-> n] : m \in 0..IF MaxN > 3 THEN 3 ELSE MaxN, n \in 0..IF MaxN > 3 THEN 3 ELSE MaxN}
    \cup {[d |-> "third_partial_derivative_vec", n |-> n, i |-> i, j |-> j, k |-> k] :
             n \in 1..MaxN, i \in 1..MaxN, j \in 1..MaxN, k \in 1..MaxN}
    \* sparsity variants: absent derivative parts in the closure's results
    \cup UNION {{[d |-> "jacobian", n |-> n, m |-> m, cst |-> S] : n \in 1..MaxN, S \in {{1}, {2}, {1, 2}, {m}, {1, m}, 1..m}} :
                   m \in 2..MaxM}
    \cup {[d |-> "gradient", n |-> n, sp |-> "const"] : n \in 1..MaxN}
    \cup {[d |-> "hessian", n |-> n, sp |-> sp] : n \in 1..MaxN, sp \in {"const", "linear"}}
    \cup {[d |-> "partial_hessian", m |-> m, n |-> n, sp |-> sp] :
             m \in 1..IF MaxN > 3 THEN 3 ELSE MaxN, n \in 1..IF MaxN > 3 THEN 3 ELSE MaxN, sp \in {"const", "xonly"}}
\* the Python drivers dispatch on the input length (fixed-size classes up to 10 variables, dynamic beyond)
CasesPy ==
    {[d |-> "first_derivative"], [d |-> "second_derivative"], [d |-> "third_derivative"], [d |-> "second_partial_derivative"]}
    \cup {[d |-> "gradient", n |-> n] : n \in 1..12}
    \cup {[d |-> "jacobian", n |-> n, m |-> m] : n \in {1, 2, 3, 7, 10, 11}, m \in 1..2}
    \cup {[d |-> "hessian", n |-> n] : n \in {1, 2, 3, 9, 10, 11, 12}}
    \cup {[d |-> "partial_hessian", m |-> mn[1], n |-> mn[2]] : mn \in {<<1, 1>>, <<2, 3>>, <<5, 5>>, <<6, 2>>, <<3, 7>>}}
    \cup {[d |-> "third_partial_derivative_vec", n |-> 3, i |-> i, j |-> j, k |-> k] : i \in 1..3, j \in 1..3, k \in 1..3}
Init == IF CaseSet = "py" THEN c \in CasesPy ELSE c \in {cc \in Cases : cc.d = "third_partial_derivative_vec" => (cc.i <= cc.n /\ cc.j <= cc.n /\ cc.k <= cc.n)}
Next == UNCHANGED c
Spec == Init /\ [][Next]_c

Got(cc) ==
    CASE cc.d = "first_derivative" -> FirstDerivB
      [] cc.d = "second_derivative" -> SecondDerivB
      [] cc.d = "third_derivative" -> ThirdDerivB
      [] cc.d = "second_partial_derivative" -> SecondPartialB
      [] cc.d = "gradient" -> GradientB(cc.n)
      [] cc.d = "jacobian" -> JacobianB(cc.n, cc.m)
      [] cc.d = "hessian" -> HessianB(cc.n)
      [] cc.d = "partial_hessian" -> PartialHessianB(cc.m, cc.n)
      [] cc.d = "third_partial_derivative_vec" -> ThirdPartialVecB(cc.n, cc.i, cc.j, cc.k)
Want(cc) ==
    CASE cc.d = "first_derivative" -> ExpFirst
      [] cc.d = "second_derivative" -> ExpSecond
      [] cc.d = "third_derivative" -> ExpThird
      [] cc.d = "second_partial_derivative" -> ExpSecondPartial
      [] cc.d = "gradient" -> ExpGradient(cc.n)
      [] cc.d = "jacobian" -> ExpJacobian(cc.n, cc.m)
      [] cc.d = "hessian" -> ExpHessian(cc.n)
      [] cc.d = "partial_hessian" -> ExpPartialHessian(cc.m, cc.n)
      [] cc.d = "third_partial_derivative_vec" -> ExpThirdPartialVec(cc.n, cc.i, cc.j, cc.k)

DriversCorrect == CaseSet = "all" => Got(c) = Want(c)

---------------------------------------------------------------------------
(* The drivers are generic in the scalar type T: called with a T that is itself a dual number (seeded in x) every   *)
(* output carries, in its outer parts, the derivative of one order more.  Layer B instantiated over layer B:       *)
NB == INSTANCE DualB WITH
        SAdd <- LAMBDA a, b : B!AddB(B!TDual, a, b), SSub <- LAMBDA a, b : B!SubB(B!TDual, a, b),
        SMul <- LAMBDA a, b : B!MulB(B!TDual, a, b), SDiv <- LAMBDA a, b : B!DivB(B!TDual, a, b),
        SNeg <- LAMBDA a : B!NegB(B!TDual, a), SRecip <- LAMBDA a : B!RecipB(B!TDual, a),
        SZero <- B!ZeroB(B!TDual), SOne <- B!OneB(B!TDual), SOfQ <- LAMBDA q : B!FromFB(B!TDual, q),
        SMulF <- LAMBDA t, q : B!MulFB(B!TDual, t, q), SDivF <- LAMBDA t, q : B!DivFB(B!TDual, t, q),
        SAddF <- LAMBDA t, q : B!AddFB(B!TDual, t, q), SSubF <- LAMBDA t, q : B!SubFB(B!TDual, t, q),
        SFun <- LAMBDA fn, t : B!ElemB(B!TDual, fn, t), SPowi <- LAMBDA t, n : B!PowiB(B!TDual, t, n),
        SPowf <- LAMBDA t, q : B!PowfB(B!TDual, t, q, q = QInt(2)),
        SLog <- LAMBDA t, b : B!LogB(B!TDual, t, b), SAtan2 <- LAMBDA t, u : B!Atan2B(B!TDual, t, u),
        SRe <- LAMBDA t : B!ReB(t), SIsZero <- LAMBDA t : B!IsZeroB(t), SIsOne <- LAMBDA t : B!IsOneB(t),
        SIsPositive <- LAMBDA t : B!IsPositiveB(t), SIsNegative <- LAMBDA t : B!IsNegativeB(t),
        FLt <- QLt, FEps <- <<1, 4194304>>, FAbs <- QAbs, FOfQ <- LAMBDA q : q
DD(re, eps) == [re |-> re, eps |-> eps]                 \* a scalar of type T = Dual
DConst(p) == DD(p, P0)
RECURSIVE PowNB(_, _, _)
PowNB(ty, x, e) == IF e = 0 THEN NB!OneB(ty) ELSE NB!MulB(ty, PowNB(ty, x, e - 1), x)
TermNB(ty, k, ev, xs) ==
    LET Acc[i \in 0..Len(ev)] ==
            IF i = 0 THEN NB!FromRe(ty, DConst(Coef(k, ev))) ELSE NB!MulB(ty, Acc[i - 1], PowNB(ty, xs[i], ev[i]))
    IN  Acc[Len(ev)]
EvalNB(ty, k, nv, xs) ==
    FoldSet(LAMBDA ev, acc : NB!AddB(ty, acc, TermNB(ty, k, ev, xs)), NB!ZeroB(ty), TermsK(k, nv))
\* second_derivative(g, x) with x : Dual seeded  ->  the value and the first two derivatives as Dual numbers whose eps parts are the derivatives of one order more
NestedSecondDeriv ==
    LET x == [re |-> DD(XVal(1), P1), v1 |-> DConst(P1), v2 |-> DConst(P0)]
        r == EvalNB(B!TDual2, 1, 1, <<x>>)
        w == ExpThird
    IN  /\ r.re = DD(w[1], w[2]) /\ r.v1 = DD(w[2], w[3]) /\ r.v2 = DD(w[3], w[4])
\* second_partial_derivative(g, x, y) with (x, y) : Dual, variable q seeded in the outer direction
NestedSecondPartial(q) ==
    LET hd(re, e1, e2) == [re |-> re, eps1 |-> DConst(e1), eps2 |-> DConst(e2), eps1eps2 |-> DConst(P0)]
        sd(i) == IF i = q THEN P1 ELSE P0
        r == EvalNB(B!THyperDual, 1, 2, <<hd(DD(XVal(1), sd(1)), P1, P0), hd(DD(XVal(2), sd(2)), P0, P1)>>)
        f == F(1, 2)
        at(pp) == AtPoint(pp, 2)
    IN  /\ r.re = DD(at(f), at(D1(f, q))) /\ r.eps1 = DD(at(D1(f, 1)), at(D1(D1(f, 1), q)))
        /\ r.eps2 = DD(at(D1(f, 2)), at(D1(D1(f, 2), q))) /\ r.eps1eps2 = DD(at(D1(D1(f, 1), 2)), at(D1(D1(D1(f, 1), 2), q)))
NestedDriversCorrect ==
    (CaseSet = "all" /\ c.d = "third_derivative" => NestedSecondDeriv)
    /\ (CaseSet = "all" /\ c.d = "second_partial_derivative" => NestedSecondPartial(1) /\ NestedSecondPartial(2))

---------------------------------------------------------------------------
(* the public seeding helpers of the scalar types: from_re(x).derivative() / derivative1() / ... set ONE first-order part *)
(* to one and leave every other part as from_re left it.  The drivers above seed through exactly these parts.            *)
SeedHelpers ==
    << [ty |-> "Dual", helper |-> "derivative", field |-> "eps"], [ty |-> "Dual2", helper |-> "derivative", field |-> "v1"],
       [ty |-> "Dual3", helper |-> "derivative", field |-> "v1"],
       [ty |-> "HyperDual", helper |-> "derivative1", field |-> "eps1"], [ty |-> "HyperDual", helper |-> "derivative2", field |-> "eps2"],
       [ty |-> "HHD", helper |-> "derivative1", field |-> "eps1"], [ty |-> "HHD", helper |-> "derivative2", field |-> "eps2"],
       [ty |-> "HHD", helper |-> "derivative3", field |-> "eps3"] >>
TyOf(name) == CASE name = "Dual" -> B!TDual [] name = "Dual2" -> B!TDual2 [] name = "Dual3" -> B!TDual3
                [] name = "HyperDual" -> B!THyperDual [] name = "HHD" -> B!THHD
Seeded(name, field) == [B!FromRe(TyOf(name), XVal(1)) EXCEPT ![field] = P1]
SeedHelpersOK ==
    /\ \A i \in 1..Len(SeedHelpers) : SeedHelpers[i].field \in B!FieldSet(TyOf(SeedHelpers[i].ty))
    \* the seedings the drivers use are those of the helpers
    /\ Seeded("Dual", "eps") = [re |-> XVal(1), eps |-> P1]
    /\ Seeded("Dual2", "v1") = [re |-> XVal(1), v1 |-> P1, v2 |-> P0]
    /\ Seeded("Dual3", "v1") = [re |-> XVal(1), v1 |-> P1, v2 |-> P0, v3 |-> P0]
    /\ Seeded("HyperDual", "eps1") = HD(XVal(1), P1, P0)
    /\ [Seeded("HyperDual", "eps2") EXCEPT !.re = XVal(2)] = HD(XVal(2), P0, P1)
    /\ \A f \in {"eps1", "eps2", "eps3"} : Seeded("HHD", f) = [HHDRe(XVal(1)) EXCEPT ![f] = P1]
SeedHelpersInv == (CaseSet = "all" /\ c.d = "first_derivative") => SeedHelpersOK
ExportSeeds == (Mode = "num" /\ c.d = "first_derivative") => PrintT(<<"SEEDS", ToJson(SeedHelpers)>>)

---------------------------------------------------------------------------
(* export ("num" mode): the closure (terms with integer coefficients), the point, the expected output *)
NV(cc) == CASE cc.d \in {"first_derivative", "second_derivative", "third_derivative"} -> 1
            [] cc.d = "second_partial_derivative" -> 2
            [] cc.d = "partial_hessian" -> cc.m + cc.n
            [] OTHER -> cc.n
NOut(cc) == IF cc.d = "jacobian" THEN cc.m ELSE 1
TermsJson(k, nv) ==
    LET q == SetToSeq(TermsK(k, nv)) IN [t \in 1..Len(q) |-> [e |-> q[t], c |-> PConstVal(Coef(k, q[t]))[1]]]
CV(pp) == PConstVal(pp)                     \* constant polynomial -> rational
VecJ(v) == [i \in 1..Len(v) |-> CV(v[i])]
ColJ(m) == [i \in 1..Len(m) |-> CV(m[i][1])]      \* n x 1 column -> list
MatJ(m) == [i \in 1..Len(m) |-> [j \in 1..Len(m[i]) |-> CV(m[i][j])]]
WantJson(cc) ==
    LET w == Want(cc) IN
    CASE cc.d \in {"first_derivative", "second_derivative", "third_derivative", "second_partial_derivative",
                   "third_partial_derivative_vec"} -> [scalars |-> VecJ(w)]
      [] cc.d = "gradient" -> [f |-> CV(w[1]), grad |-> ColJ(w[2])]
      [] cc.d = "jacobian" -> [f |-> VecJ(w[1]), jac |-> MatJ(w[2])]
      [] cc.d = "hessian" -> [f |-> CV(w[1]), grad |-> ColJ(w[2]), hess |-> MatJ(w[3])]
      [] cc.d = "partial_hessian" -> [f |-> CV(w[1]), gx |-> ColJ(w[2]), gy |-> ColJ(w[3]), hxy |-> MatJ(w[4])]
Export ==
    Mode = "num" =>
        PrintT(<<"DRIVER", ToJson([case |-> c, nv |-> NV(c), f |-> [k \in 1..NOut(c) |-> TermsJson(k, NV(c))],
                                   x |-> [i \in 1..NV(c) |-> PointVal(i)], want |-> WantJson(c)])>>)
=============================================================================
