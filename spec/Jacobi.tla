------------------------------- MODULE Jacobi -------------------------------
(***************************************************************************)
(* C12: linalg.rs -- jacobi_eigenvalue as a step machine over symmetric    *)
(* matrices whose entries are first-order dual numbers with rational parts.*)
(* A Jacobi rotation takes square roots, so the run stays inside the       *)
(* rationals only for the family of matrices whose rotation angle is a     *)
(* "double Pythagorean" one:  theta = (1 - t^2) / (2 t) with t = tan phi   *)
(* from a Pythagorean triple (t = 3/4, 5/12, 8/15, and the reciprocal      *)
(* branch through negative theta): then sqrt(theta^2 + 1) and sqrt(t^2 + 1)*)
(* are rational and so are their derivatives.  The family is embedded in   *)
(* n x n matrices (n = 2, 3) at every position (p, q), with a decoupled    *)
(* third diagonal entry, so that every (p, q) loop of the sweep, the       *)
(* update of d through zw / bw, the rotation of V, the termination test    *)
(* and the final selection sort are exercised.                             *)
(*   pc = "sweep"  : threshold; stop when it is zero                       *)
(*   pc = "rot"    : visit the pairs (p, q) in order; rotate when          *)
(*                   thresh <= |a[p][q].re|                                *)
(*   pc = "sort"   : selection sort on the real parts                      *)
(*   pc = "done"                                                           *)
(* At "done": A0 V = V diag(d) and V^T V = I in dual arithmetic (hence the *)
(* Hellmann-Feynman derivative of every eigenvalue), d ascending.          *)
(* Every finished run is exported and replayed through the real routine.   *)
(***************************************************************************)
EXTENDS RingQ, Sequences, FiniteSets, FiniteSetsExt, Json, TLC

CONSTANT NN          \* matrix size (2, 3 or 4; with 4 the two decoupled diagonal entries are equal: a degenerate pair)

B == INSTANCE DualB WITH
        SAdd <- QAdd, SSub <- QSub, SMul <- QMul, SDiv <- QDiv, SNeg <- QNeg, SRecip <- QInv,
        SZero <- Q0, SOne <- Q1, SOfQ <- LAMBDA q : q,
        SMulF <- QMul, SDivF <- QDiv, SAddF <- QAdd, SSubF <- QSub,
        SFun <- QFun, SPowi <- QPow, SPowf <- QPowf, SLog <- QLog, SAtan2 <- QAtan2,
        SRe <- LAMBDA t : t,
        SIsZero <- QIsZero, SIsOne <- LAMBDA t : t = Q1,
        SIsPositive <- LAMBDA t : QSign(t) >= 0, SIsNegative <- LAMBDA t : QSign(t) < 0,
        FLt <- QLt, FEps <- <<1, 1048576>>, FAbs <- QAbs, FOfQ <- LAMBDA q : q

TY == B!TDual
D(re, eps) == [re |-> re, eps |-> eps]
Zero == B!ZeroB(TY)
One  == B!OneB(TY)
a (+) b == B!AddB(TY, a, b)
a (-) b == B!SubB(TY, a, b)
a (.) b == B!MulB(TY, a, b)
a (/) b == B!DivB(TY, a, b)
Neg(a) == B!NegB(TY, a)
Abs(a) == B!AbsB(TY, a)
Sqrt(a) == B!ElemB(TY, "sqrt", a)
Recip(a) == B!RecipB(TY, a)
MulF(a, q) == B!MulFB(TY, a, q)
AddF(a, q) == B!AddFB(TY, a, q)
Idx == 1..NN

---------------------------------------------------------------------------
(* the family: a 2 x 2 block [[d0, b], [b, d1]] at position (p, q) with theta = (d1 - d0) / (2 b) = sg * th,
   a decoupled entry e on the remaining diagonal position, first-order parts on every entry *)
Thetas == {<<7, 24>>, <<119, 120>>, <<161, 240>>}
Blocks ==
    {[d0 |-> <<1, 1>>, b |-> <<12, 1>>, d1 |-> <<8, 1>>],            \* theta =  7/24
     [d0 |-> <<8, 1>>, b |-> <<12, 1>>, d1 |-> <<1, 1>>],            \* theta = -7/24
     [d0 |-> <<2, 1>>, b |-> <<-12, 1>>, d1 |-> <<9, 1>>],           \* theta = -7/24, negative off-diagonal
     [d0 |-> <<0, 1>>, b |-> <<60, 1>>, d1 |-> <<119, 1>>],          \* theta = 119/120
     [d0 |-> <<1, 1>>, b |-> <<120, 1>>, d1 |-> <<162, 1>>]}         \* theta = 161/240
EpsOf(i, j) == <<(IF (i + j) % 2 = 0 THEN 1 ELSE -1) * (i + 2 * j - 2), 1>>     \* 1, -3, 4, 5, -6, 7: symmetrised below
SymEps(i, j) == IF i <= j THEN EpsOf(i, j) ELSE EpsOf(j, i)
Pairs == {pq \in Idx \X Idx : pq[1] < pq[2]}
MatOf(blk, pq, e) ==
    [i \in Idx |-> [j \in Idx |->
        LET re == IF i = pq[1] /\ j = pq[1] THEN blk.d0
                  ELSE IF i = pq[2] /\ j = pq[2] THEN blk.d1
                  ELSE IF {i, j} = {pq[1], pq[2]} THEN blk.b
                  ELSE IF i = j THEN e ELSE Q0
            \* entries that are structurally zero keep a zero derivative (the blocks stay decoupled)
            eps == IF re = Q0 /\ i # j THEN Q0 ELSE SymEps(i, j)
        IN  D(re, eps)]]

VARIABLES a0, a, v, d, bw, zw, it, p, q, thresh, pc
vars == <<a0, a, v, d, bw, zw, it, p, q, thresh, pc>>

Eye == [i \in Idx |-> [j \in Idx |-> IF i = j THEN One ELSE Zero]]
Diag(m) == [i \in Idx |-> m[i][i]]
Init ==
    /\ \E blk \in Blocks, pq \in Pairs, e \in {<<-3, 1>>, <<5, 1>>, <<40, 1>>} : a0 = MatOf(blk, pq, e)
    /\ a = a0 /\ v = Eye /\ d = Diag(a0) /\ bw = Diag(a0) /\ zw = [i \in Idx |-> Zero]
    /\ it = 0 /\ p = 1 /\ q = 2 /\ thresh = Q0 /\ pc = "sweep"

\* thresh = sqrt(sum_{i<j} a[i][j].re^2) / n   -- rational for the family: one non-zero off-diagonal entry
OffSq(m) == FoldSet(LAMBDA ij, acc : QAdd(acc, QMul(m[ij[1]][ij[2]].re, m[ij[1]][ij[2]].re)), Q0, Pairs)
Sweep ==
    /\ pc = "sweep"
    /\ LET s == OffSq(a) IN
       IF QIsZero(s)
       THEN /\ pc' = "sort" /\ UNCHANGED <<a, v, d, bw, zw, it, p, q, thresh>>
       ELSE /\ QHasSqrt(s)                                     \* (holds in the family; otherwise the model stops here)
            /\ thresh' = QDiv(QSqrt(s), QInt(NN))
            /\ pc' = "rot" /\ p' = 1 /\ q' = 2
            /\ UNCHANGED <<a, v, d, bw, zw, it>>
    /\ UNCHANGED a0

NextPair == IF q < NN THEN <<p, q + 1>> ELSE <<p + 1, p + 2>>
\* g - s * (h + g * tau),  h + s * (g - h * tau)
RotG(g, h, s, tau) == g (-) (s (.) (h (+) (g (.) tau)))
RotH(g, h, s, tau) == h (+) (s (.) (g (-) (h (.) tau)))
Rot ==
    /\ pc = "rot"
    /\ IF p >= NN
       THEN \* end of the sweep:  bw += zw; d = bw; zw = 0
            /\ bw' = [i \in Idx |-> bw[i] (+) zw[i]]
            /\ d' = bw' /\ zw' = [i \in Idx |-> Zero]
            /\ it' = it + 1 /\ pc' = "sweep"
            /\ UNCHANGED <<a, v, p, q, thresh>>
       ELSE LET apq == a[p][q]
                np == NextPair
            IN  /\ p' = np[1] /\ q' = np[2]
                /\ IF ~QLe(thresh, QAbs(apq.re))
                   THEN UNCHANGED <<a, v, d, bw, zw, it, thresh, pc>>
                   ELSE \* (the shortcut  term == h.abs()  needs |a_pq| * 10 to vanish next to |h| in floats: not in this family)
                        LET h0 == d[q] (-) d[p]
                            theta == MulF(h0, <<1, 2>>) (/) apq
                            t0 == Recip(Abs(theta) (+) Sqrt(AddF(theta (.) theta, Q1)))
                            t == IF B!IsNegativeB(theta) THEN Neg(t0) ELSE t0
                            c == Recip(Sqrt(AddF(t (.) t, Q1)))
                            s == t (.) c
                            tau == s (/) AddF(c, Q1)
                            h == t (.) apq
                            a1 == [a EXCEPT ![p][q] = Zero]
                            \* for j in 0..p: (j,p),(j,q);  p+1..q: (p,j),(j,q);  q+1..n: (p,j),(q,j)
                            a2 == [i \in Idx |-> [j \in Idx |->
                                    IF j = p /\ i < p THEN RotG(a1[i][p], a1[i][q], s, tau)
                                    ELSE IF j = q /\ i < p THEN RotH(a1[i][p], a1[i][q], s, tau)
                                    ELSE IF i = p /\ j > p /\ j < q THEN RotG(a1[p][j], a1[j][q], s, tau)
                                    ELSE IF j = q /\ i > p /\ i < q THEN RotH(a1[p][i], a1[i][q], s, tau)
                                    ELSE IF i = p /\ j > q THEN RotG(a1[p][j], a1[q][j], s, tau)
                                    ELSE IF i = q /\ j > q THEN RotH(a1[p][j], a1[q][j], s, tau)
                                    ELSE a1[i][j]]]
                        IN  /\ a' = a2
                            /\ zw' = [zw EXCEPT ![p] = zw[p] (-) h, ![q] = zw[q] (+) h]
                            /\ d' = [d EXCEPT ![p] = d[p] (-) h, ![q] = d[q] (+) h]
                            /\ v' = [i \in Idx |-> [j \in Idx |->
                                        IF j = p THEN RotG(v[i][p], v[i][q], s, tau)
                                        ELSE IF j = q THEN RotH(v[i][p], v[i][q], s, tau) ELSE v[i][j]]]
                            /\ UNCHANGED <<bw, it, thresh, pc>>
    /\ UNCHANGED a0

\* selection sort on the real parts (first minimum wins), columns of V follow
RECURSIVE SortFrom(_, _, _)
SortFrom(dd, vv, k) ==
    IF k >= NN THEN <<dd, vv>>
    ELSE LET m == CHOOSE m \in k..NN : /\ \A l \in k..NN : QLe(dd[m].re, dd[l].re)
                                       /\ \A l \in k..(m - 1) : QLt(dd[m].re, dd[l].re)
             d2 == IF m = k THEN dd ELSE [dd EXCEPT ![k] = dd[m], ![m] = dd[k]]
             v2 == IF m = k THEN vv ELSE [i \in Idx |-> [vv[i] EXCEPT ![k] = vv[i][m], ![m] = vv[i][k]]]
         IN  SortFrom(d2, v2, k + 1)
Sort ==
    /\ pc = "sort"
    /\ LET s == SortFrom(d, v, 1) IN d' = s[1] /\ v' = s[2]
    /\ pc' = "done"
    /\ UNCHANGED <<a0, a, bw, zw, it, p, q, thresh>>
Next == Sweep \/ Rot \/ Sort
Spec == Init /\ [][Next]_vars

---------------------------------------------------------------------------
DSum(S, t(_)) == FoldSet(LAMBDA k, acc : acc (+) t(k), Zero, S)
EigenEquation == pc = "done" =>
    \A i \in Idx, j \in Idx : DSum(Idx, LAMBDA k : a0[i][k] (.) v[k][j]) = v[i][j] (.) d[j]
Orthonormal == pc = "done" =>
    \A i \in Idx, j \in Idx : DSum(Idx, LAMBDA k : v[k][i] (.) v[k][j]) = (IF i = j THEN One ELSE Zero)
Ascending == pc = "done" => \A k \in 1..(NN - 1) : QLe(d[k].re, d[k + 1].re)
\* Hellmann-Feynman: d lambda_j = v_j^T dA v_j  (the eps parts of A0 are dA; real parts of V)
HellmannFeynman == pc = "done" =>
    \A j \in Idx : d[j].eps = FoldSet(LAMBDA ik, acc : QAdd(acc, QMul(QMul(v[ik[1]][j].re, a0[ik[1]][ik[2]].eps), v[ik[2]][j].re)),
                                      Q0, Idx \X Idx)
\* the run terminates after one rotation and the zero-threshold test of the second sweep
OneRotation == pc = "done" => it = 1
ExportJacobi == pc = "done" =>
    PrintT(<<"JACOBI", ToJson([a |-> a0, d |-> d, v |-> v, sweeps |-> it])>>)
=============================================================================
