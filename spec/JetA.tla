------------------------------- MODULE JetA -------------------------------
(***************************************************************************)
(* Layer A -- the REFERENCE: the truncated Taylor algebra from first        *)
(* principles, independent of how num-dual codes it.                       *)
(*                                                                         *)
(* A "jet" is a function from SLOT SEQUENCES to scalars.  A slot sequence  *)
(* lists the differentiation directions a stored part stands for:          *)
(*   <<>> real part, <<1>> first derivative along direction 1,             *)
(*   <<1,1>> second derivative (v2 of Dual2), <<1,2,3>> eps1eps2eps3,      *)
(*   <<i,j>> entry (i,j) of the Hessian part of Dual2Vec, ...              *)
(* The domain of a jet is closed under taking subsequences.                *)
(*                                                                         *)
(*   product  : Leibniz rule   = sum over all subsets of the slot positions *)
(*   compose  : Faa di Bruno   = sum over all set partitions of positions  *)
(*   quotient : no formula, specified implicitly by  q * b = a             *)
(*                                                                         *)
(* The binomial factors of the coded rules (2 v1 w1, 3 (v2 w1 + v1 w2),    *)
(* v1'w1 + w1'v1, ...) are CONSEQUENCES of these definitions.              *)
(* The scalar ring is a parameter (rationals, Laurent polynomials, ...).   *)
(***************************************************************************)
EXTENDS Integers, Sequences, FiniteSets, FiniteSetsExt

CONSTANTS SAdd(_, _), SMul(_, _), SNeg(_), SZero, SOne

\* subsequence of m at the index set S (order preserved)
Pick(m, S) ==
    LET F[i \in 0..Len(m)] ==
            IF i = 0 THEN <<>>
            ELSE IF i \in S THEN Append(F[i - 1], m[i]) ELSE F[i - 1]
    IN  F[Len(m)]

\* all subsequences of m (the parts a jet must define if it defines m)
SubSeqs(m) == {Pick(m, S) : S \in SUBSET (1..Len(m))}
Closure(parts) == UNION {SubSeqs(m) : m \in parts}

\* sums / products as folds over INDEX sets (equal terms are not merged)
SSumOver(S, term(_)) == FoldSet(LAMBDA s, acc : SAdd(acc, term(s)), SZero, S)
SProdOver(S, term(_)) == FoldSet(LAMBDA s, acc : SMul(acc, term(s)), SOne, S)

AddA(a, b) == [m \in DOMAIN a |-> SAdd(a[m], b[m])]
NegA(a)    == [m \in DOMAIN a |-> SNeg(a[m])]
SubA(a, b) == [m \in DOMAIN a |-> SAdd(a[m], SNeg(b[m]))]
ScaleA(a, s) == [m \in DOMAIN a |-> SMul(a[m], s)]
ConstA(parts, c) == [m \in parts |-> IF m = <<>> THEN c ELSE SZero]

\* Leibniz
MulA(a, b) ==
    [m \in DOMAIN a |->
        LET idx == 1..Len(m)
        IN  SSumOver(SUBSET idx, LAMBDA S : SMul(a[Pick(m, S)], b[Pick(m, idx \ S)]))]

RECURSIVE Partitions(_)
Partitions(S) ==
    IF S = {} THEN {{}}
    ELSE LET x == CHOOSE x \in S : TRUE
             rest == S \ {x}
         IN  UNION { { {{x} \cup T} \cup P : P \in Partitions(rest \ T) } : T \in SUBSET rest }

\* Faa di Bruno; f[k] is the k-th derivative of the outer function at x[<<>>]
ChainA(x, f) ==
    [m \in DOMAIN x |->
        IF m = <<>> THEN f[0]
        ELSE SSumOver(Partitions(1..Len(m)),
                      LAMBDA P : SMul(f[Cardinality(P)],
                                      SProdOver(P, LAMBDA B : x[Pick(m, B)])))]

\* q is the quotient a / b  iff  q * b = a   (b[<<>>] invertible)
IsQuotientA(q, a, b) == MulA(q, b) = a

\* n-fold product
RECURSIVE PowNatA(_, _, _)
PowNatA(parts, a, n) == IF n = 0 THEN ConstA(parts, SOne) ELSE MulA(PowNatA(parts, a, n - 1), a)
=============================================================================
