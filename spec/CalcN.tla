------------------------------- MODULE CalcN -------------------------------
(***************************************************************************)
(* The dual-number CALCULATOR over exact rationals: the meaning of one     *)
(* public call of num-dual as a function of the operand values.            *)
(*   Result(ty, regs, ev)   the value / observation the call must return   *)
(*   Enabled(ty, regs, ev)  the call is inside its domain AND exact: under *)
(*                          any evaluation order IEEE arithmetic with Mant *)
(*                          mantissa bits computes it without rounding     *)
(* Machine.tla generates behaviours from it (spec -> implementation),      *)
(* TraceCalc.tla validates recorded executions of the real crate against   *)
(* it (implementation -> spec).  An event is a record                      *)
(*   [op, form, a, b, c, d, s, n, rs]   (register indices, scalar, integer)*)
(***************************************************************************)
EXTENDS RingQ, Sequences, FiniteSets, FiniteSetsExt

CONSTANT Mant        \* 53 for f64, 24 for f32
InnerDual == [k |-> "Dual"]   InnerDual2 == [k |-> "Dual2"]   InnerDual3 == [k |-> "Dual3"]   InnerHyperDual == [k |-> "HyperDual"]

\* F::epsilon() is a token: every non-zero value the calculator can hold is far
\* above it (denominators are bounded by 2^15), so  x < eps  <=>  x <= 0
FEpsTok == <<0, 0>>      \* (denominator 0: not a rational)
FLtQ(a, b) == IF b = FEpsTok THEN QSign(a) <= 0
              ELSE IF a = FEpsTok THEN QSign(b) > 0
              ELSE QLt(a, b)

\* the inner level: dual numbers over the rationals
I == INSTANCE DualB WITH
        SAdd <- QAdd, SSub <- QSub, SMul <- QMul, SDiv <- QDiv, SNeg <- QNeg, SRecip <- QInv,
        SZero <- Q0, SOne <- Q1, SOfQ <- LAMBDA q : q,
        SMulF <- QMul, SDivF <- QDiv, SAddF <- QAdd, SSubF <- QSub,
        SFun <- QFun, SPowi <- QPow, SPowf <- QPowf, SLog <- QLog, SAtan2 <- QAtan2,
        SRe <- LAMBDA t : t,
        SIsZero <- QIsZero, SIsOne <- LAMBDA t : t = Q1,
        SIsPositive <- LAMBDA t : QSign(t) > 0, SIsNegative <- LAMBDA t : QSign(t) < 0,
        FLt <- FLtQ, FEps <- FEpsTok, FAbs <- QAbs, FOfQ <- LAMBDA q : q
\* @@SCALAR-LEVEL-BEGIN  (generated from Calc.tla by tools/gen_nested.py -- do not edit)
\* The scalar level: numbers of the inner level I, a dual number type over the rationals.
CONSTANT Inner       \* descriptor of a scalar dual number type: InnerDual, InnerDual2, InnerDual3, InnerHyperDual
IsF == FALSE
\* TLC passes operator arguments unevaluated and re-evaluates them at every use; through two levels of dual
\* arithmetic that is exponential in the depth of an expression.  Binding the arguments as bound variables of a
\* singleton set evaluates each exactly once (S1 / S2: strict unary / binary application).
S1(op(_), a) == CHOOSE r \in {op(x) : x \in {a}} : TRUE
S2(op(_, _), a, b) == CHOOSE r \in {op(x, y) : x \in {a}, y \in {b}} : TRUE
B == INSTANCE DualB WITH
        SAdd <- LAMBDA a, b : S2(LAMBDA x, y : I!AddB(Inner, x, y), a, b), SSub <- LAMBDA a, b : S2(LAMBDA x, y : I!SubB(Inner, x, y), a, b),
        SMul <- LAMBDA a, b : S2(LAMBDA x, y : I!MulB(Inner, x, y), a, b), SDiv <- LAMBDA a, b : S2(LAMBDA x, y : I!DivB(Inner, x, y), a, b),
        SNeg <- LAMBDA a : S1(LAMBDA x : I!NegB(Inner, x), a), SRecip <- LAMBDA a : S1(LAMBDA x : I!RecipB(Inner, x), a),
        SZero <- I!ZeroB(Inner), SOne <- I!OneB(Inner), SOfQ <- LAMBDA q : I!FromFB(Inner, q),
        SMulF <- LAMBDA t, q : S1(LAMBDA x : I!MulFB(Inner, x, q), t), SDivF <- LAMBDA t, q : S1(LAMBDA x : I!DivFB(Inner, x, q), t),
        SAddF <- LAMBDA t, q : S1(LAMBDA x : I!AddFB(Inner, x, q), t), SSubF <- LAMBDA t, q : S1(LAMBDA x : I!SubFB(Inner, x, q), t),
        SFun <- LAMBDA fn, t : S1(LAMBDA x : I!ElemB(Inner, fn, x), t),
        SPowi <- LAMBDA t, n : S1(LAMBDA x : I!PowiB(Inner, x, n), t),
        SPowf <- LAMBDA t, q : S1(LAMBDA x : I!PowfB(Inner, x, q, q = QInt(2)), t),
        SLog <- LAMBDA t, b : S1(LAMBDA x : I!LogB(Inner, x, b), t), SAtan2 <- LAMBDA t, u : S2(LAMBDA x, y : I!Atan2B(Inner, x, y), t, u),
        SRe <- LAMBDA t : I!ReB(t),
        SIsZero <- LAMBDA t : I!IsZeroB(t), SIsOne <- LAMBDA t : I!IsOneB(t),
        SIsPositive <- LAMBDA t : I!IsPositiveB(t), SIsNegative <- LAMBDA t : I!IsNegativeB(t),
        FLt <- FLtQ, FEps <- FEpsTok, FAbs <- QAbs, FOfQ <- LAMBDA q : q
\* @@SCALAR-LEVEL-END

---------------------------------------------------------------------------
(* the scalars stored in a value, and fixed-point widths *)
\* the rationals inside one stored scalar (itself, or the parts of the inner number)
Rats(t) == IF IsF THEN {t} ELSE {t.re} \cup {t[f] : f \in I!FieldSet(Inner)}
DScalars(d) == IF d.p THEN UNION {Rats(d.m[ij[1]][ij[2]]) : ij \in B!MatEntries(d.m)} ELSE {}
Scalars(ty, v) ==
    Rats(v.re) \cup UNION {IF B!IsVec(ty) THEN DScalars(v[f]) ELSE Rats(v[f]) : f \in B!FieldSet(ty)}
\* the innermost real part (a rational)
ReQ(v) == B!ReB(v)
\* nesting: a product of k stored scalars is a product of k inner numbers, each part of which is a sum of products
\* of k rationals (one per factor) -- the degree stays k; an inner number produced by an inner chain rule or
\* reciprocal has parts of degree <= Order(Inner) in the inner parts, hence the factor; the number of terms grows.
\* (Nested runs use Mant = 53 only: the bound MantEff = 30 that keeps TLC inside its integers leaves 23 bits of
\*  slack against the float mantissa.)
NDeg(d) == IF IsF THEN d ELSE d * I!Order(Inner) + I!Order(Inner)
NTb(t)  == IF IsF THEN t ELSE t + 2 + 2 * I!Order(Inner)

SetMax(S) == CHOOSE x \in S : \A y \in S : y <= x
\* bits needed to write all rationals of S as integers over their common
\* (power-of-two) denominator; 0 for the empty set
Width(S) ==
    IF S = {} THEN 0
    ELSE LET D == SetMax({q[2] : q \in S})
         IN  BitLen(SetMax({IAbs(q[1]) * (D \div q[2]) : q \in S}))
AllDyadic(S) == \A q \in S : QIsDyadic(q)
IsPM2k(q) == IsPow2(IAbs(q[1])) /\ IsPow2(q[2])          \* +-2^k
\* bits of the largest numerator plus bits of the largest denominator: an upper
\* bound of Width(S) that also bounds what TLC's 32-bit integers must hold
TWidth(S) ==
    IF S = {} THEN 0
    ELSE BitLen(SetMax({IAbs(q[1]) : q \in S})) + BitLen(SetMax({q[2] : q \in S})) - 1
\* An operation whose result parts are polynomials of degree deg with at most 2^tb
\* terms in the scalars S is exact under ANY evaluation order when every partial
\* product / sum fits the mantissa; the bound 30 keeps TLC itself free of overflow.
MantEff == IMin(Mant, 30)
ExactOK(deg, tb, S) == AllDyadic(S) /\ NDeg(deg) * TWidth(S) + NTb(tb) + 1 <= MantEff

---------------------------------------------------------------------------
(* exactness / domain guards of the primitive stages *)
GAdd(ty, a, b) == ExactOK(1, 1, Scalars(ty, a) \cup Scalars(ty, b))
GMul(ty, a, b) == ExactOK(2, 3, Scalars(ty, a) \cup Scalars(ty, b))
GDiv(ty, a, b) == /\ IsPM2k(ReQ(b))
                  /\ ExactOK(2 * (B!Order(ty) + 1), 4, Scalars(ty, a) \cup Scalars(ty, b))
GMulF(ty, a, s) == ExactOK(2, 0, Scalars(ty, a) \cup {s})
GDivF(ty, a, s) == IsPM2k(s) /\ ExactOK(2, 0, Scalars(ty, a) \cup {s})
TowerScalars(f, ord) == UNION {Rats(f[k]) : k \in 1..(ord + 1)}
GChain(ty, x, f) ==
    ExactOK(B!Order(ty) + 1, 3, Scalars(ty, x) \cup TowerScalars(f, B!Order(ty)))

\* points at which the whole tower of an elementary function is exactly computed
Is4k(q) == IsPM2k(q) /\ QSign(q) > 0 /\ QHasSqrt(q)
ElemPoint(fn, re) ==
    CASE fn = "recip" -> IsPM2k(re)
      [] fn = "sqrt"  -> Is4k(re)
      [] fn \in {"exp", "exp_m1", "sin", "cos", "sinh", "cosh", "asin", "atan", "asinh", "atanh",
                 "ln_1p", "tan", "tanh"} -> QIsZero(re)
      [] fn = "ln"    -> re = Q1
      [] OTHER -> FALSE
ExactElemFns == {"recip", "sqrt", "exp", "exp_m1", "sin", "cos", "sinh", "cosh", "asin", "atan",
                 "asinh", "atanh", "ln_1p", "ln"}
GElem(ty, fn, x) == /\ ElemPoint(fn, ReQ(x))
                    /\ (TWidth({ReQ(x)}) - 1) * (NDeg(B!Order(ty) + 2)) <= 24      \* TLC can hold the tower (powers of re)
                    /\ GChain(ty, x, B!TowerB(fn, x.re, B!Order(ty)))
GPowi(ty, x, n) ==
    CASE n = 0 -> TRUE
      [] n = 1 -> TRUE
      [] n = 2 -> GMul(ty, x, x)
      [] OTHER -> /\ IsPM2k(ReQ(x)) /\ IAbs(n) <= 12
                  /\ (TWidth({ReQ(x)}) - 1) * (IAbs(n) + 3 + (IF IsF THEN 0 ELSE 3)) <= 24       \* TLC can hold re^(n-3)
                  /\ GChain(ty, x, B!PowiTowerB(x.re, n, B!Order(ty)))
GPowf(ty, x, q) ==
    CASE QIsZero(q) -> TRUE
      [] q = Q1     -> TRUE
      [] q = QInt(2) -> GMul(ty, x, x)
      [] OTHER -> /\ QIsDyadic(q) /\ IAbs(q[1]) <= 12 * q[2]
                  /\ ((QIsInt(q) /\ IsPM2k(ReQ(x))) \/ (q[2] = 2 /\ Is4k(ReQ(x))))
                  /\ (TWidth({ReQ(x)}) - 1) * ((IAbs(q[1]) \div q[2]) + 4 + (IF IsF THEN 0 ELSE 3)) <= 24
                  /\ GChain(ty, x, B!PowfTowerB(x.re, q, B!Order(ty)))

---------------------------------------------------------------------------
(* events *)
BinOps   == {"add", "sub", "mul", "div"}
BinForms == {"oo", "or", "ro", "rr", "assign"}
FOps     == {"add_f", "sub_f", "mul_f", "div_f"}
FForms   == {"op", "assign"}
UnOps    == {"neg", "neg_ref", "abs", "signum", "inv", "tan", "tanh"} \cup ExactElemFns
Preds    == {"is_zero", "is_one", "is_positive", "is_negative"}
Cmps     == {"eq", "ne", "lt", "le", "gt", "ge"}

R(regs, i) == regs[i]

\* the value (or observation) the call returns
Result(ty, regs, ev) ==
    LET a == regs[ev.a]  b == regs[ev.b]  c == regs[ev.c]
    IN  CASE ev.op = "load"  -> ev.v
          [] ev.op = "add" -> IF ev.form = "assign" THEN B!AddAssignB(ty, a, b) ELSE B!AddB(ty, a, b)
          [] ev.op = "sub" -> IF ev.form = "assign" THEN B!SubAssignB(ty, a, b) ELSE B!SubB(ty, a, b)
          [] ev.op = "mul" -> IF ev.form = "assign" THEN B!MulAssignB(ty, a, b) ELSE B!MulB(ty, a, b)
          [] ev.op = "div" -> IF ev.form = "assign" THEN B!DivAssignB(ty, a, b) ELSE B!DivB(ty, a, b)
          [] ev.op = "add_f" -> IF ev.form = "assign" THEN B!AddAssignFB(ty, a, ev.s) ELSE B!AddFB(ty, a, ev.s)
          [] ev.op = "sub_f" -> IF ev.form = "assign" THEN B!SubAssignFB(ty, a, ev.s) ELSE B!SubFB(ty, a, ev.s)
          [] ev.op = "mul_f" -> IF ev.form = "assign" THEN B!MulAssignFB(ty, a, ev.s) ELSE B!MulFB(ty, a, ev.s)
          [] ev.op = "div_f" -> IF ev.form = "assign" THEN B!DivAssignFB(ty, a, ev.s) ELSE B!DivFB(ty, a, ev.s)
          [] ev.op \in {"neg", "neg_ref"} -> B!NegB(ty, a)
          [] ev.op = "abs"     -> B!AbsB(ty, a)
          [] ev.op = "signum"  -> B!SignumB(ty, a)
          [] ev.op = "inv"     -> B!InvB(ty, a)
          [] ev.op = "tan"     -> B!TanB(ty, a)
          [] ev.op = "tanh"    -> B!TanhB(ty, a)
          [] ev.op \in ExactElemFns -> B!ElemB(ty, ev.op, a)
          [] ev.op = "powi"    -> B!PowiB(ty, a, ev.n)
          [] ev.op = "powf"    -> B!PowfB(ty, a, ev.s, ev.s = QInt(2))
          [] ev.op = "powd"    -> B!PowdB(ty, a, b)
          [] ev.op = "atan2"   -> B!Atan2B(ty, a, b)
          [] ev.op = "mul_add" -> B!MulAddB(ty, a, b, c)
          [] ev.op = "abs_sub" -> B!AbsSubB(ty, a, b)
          [] ev.op = "sum"     -> B!SumB(ty, [i \in 1..Len(ev.rs) |-> regs[ev.rs[i]]])
          [] ev.op = "product" -> B!ProductB(ty, [i \in 1..Len(ev.rs) |-> regs[ev.rs[i]]])
          [] ev.op = "from_f"  -> B!FromFB(ty, ev.s)
          [] ev.op = "zero"    -> B!ZeroB(ty)
          [] ev.op = "one"     -> B!OneB(ty)
          [] ev.op = "is_zero"     -> B!IsZeroB(a)
          [] ev.op = "is_one"      -> B!IsOneB(a)
          [] ev.op = "is_positive" -> B!IsPositiveB(a)
          [] ev.op = "is_negative" -> B!IsNegativeB(a)
          [] ev.op = "re"  -> B!ReB(a)
          \* PartialEq / PartialOrd of the field-compatible types: real parts only
          [] ev.op = "eq" -> ReQ(a) = ReQ(b)
          [] ev.op = "ne" -> ReQ(a) # ReQ(b)
          [] ev.op = "lt" -> QLt(ReQ(a), ReQ(b))
          [] ev.op = "le" -> QLe(ReQ(a), ReQ(b))
          [] ev.op = "gt" -> QLt(ReQ(b), ReQ(a))
          [] ev.op = "ge" -> QLe(ReQ(b), ReQ(a))

IsObs(op) == op \in Preds \cup Cmps \cup {"re"}

RECURSIVE GFold(_, _, _, _)
\* guards of the stages of a left fold (sum / product)
GFold(ty, kind, xs, acc) ==
    IF xs = <<>> THEN TRUE
    ELSE IF kind = "sum"
         THEN GAdd(ty, acc, Head(xs)) /\ GFold(ty, kind, Tail(xs), B!AddB(ty, acc, Head(xs)))
         ELSE GMul(ty, acc, Head(xs)) /\ GFold(ty, kind, Tail(xs), B!MulB(ty, acc, Head(xs)))

Enabled(ty, regs, ev) ==
    LET a == regs[ev.a]  b == regs[ev.b]  c == regs[ev.c]
    IN  CASE ev.op = "load" -> TRUE
          [] ev.op \in {"add", "sub"} -> GAdd(ty, a, b)
          [] ev.op = "mul" -> GMul(ty, a, b)
          [] ev.op = "div" -> GDiv(ty, a, b)
          [] ev.op \in {"add_f", "sub_f"} -> ExactOK(1, 1, Scalars(ty, a) \cup {ev.s})
          [] ev.op = "mul_f" -> GMulF(ty, a, ev.s)
          [] ev.op = "div_f" -> GDivF(ty, a, ev.s)
          [] ev.op \in {"neg", "neg_ref"} -> TRUE
          \* is_positive/is_negative of a float look at the SIGN BIT, so they distinguish
          \* +0.0 from -0.0; the rationals have one zero only: sign-dependent operations
          \* at a zero real part are left to the signed-zero cases of the C06 check
          [] ev.op \in {"abs", "signum", "is_positive", "is_negative"} -> ~QIsZero(ReQ(a))
          [] ev.op = "inv" -> GElem(ty, "recip", a)
          [] ev.op = "tan" ->
                /\ GElem(ty, "sin", a) /\ GElem(ty, "cos", a)
                /\ GDiv(ty, B!ElemB(ty, "sin", a), B!ElemB(ty, "cos", a))
          [] ev.op = "tanh" -> GElem(ty, "tanh", a)
          [] ev.op \in ExactElemFns -> GElem(ty, ev.op, a)
          [] ev.op = "powi" -> GPowi(ty, a, ev.n)
          [] ev.op = "powf" -> GPowf(ty, a, ev.s)
          [] ev.op = "powd" ->
                /\ GElem(ty, "ln", a)
                /\ GMul(ty, B!ElemB(ty, "ln", a), b)
                /\ GElem(ty, "exp", B!MulB(ty, B!ElemB(ty, "ln", a), b))
          [] ev.op = "atan2" ->
                /\ QIsZero(ReQ(a)) /\ QSign(ReQ(b)) > 0
                /\ GDiv(ty, a, b) /\ GElem(ty, "atan", B!DivB(ty, a, b))
          [] ev.op = "mul_add" -> GMul(ty, a, b) /\ GAdd(ty, B!MulB(ty, a, b), c)
          [] ev.op = "abs_sub" -> GAdd(ty, a, b)
          [] ev.op = "sum" ->
                GFold(ty, "sum", [i \in 1..Len(ev.rs) |-> regs[ev.rs[i]]], B!ZeroB(ty))
          [] ev.op = "product" ->
                GFold(ty, "product", [i \in 1..Len(ev.rs) |-> regs[ev.rs[i]]], B!OneB(ty))
          [] ev.op = "from_f" -> QIsDyadic(ev.s)
          [] ev.op \in {"zero", "one"} -> TRUE
          \* comparisons cross-multiply: keep them inside TLC's integers
          [] ev.op \in Cmps -> ExactOK(2, 0, {ReQ(a), ReQ(b)})
          [] IsObs(ev.op) -> TRUE      \* (the sign predicates are handled above)

\* canonical event record (unused fields carry fixed dummies so that all events
\* of a history have the same shape)
Ev(op, form, a, b, c, d, s, n, rs) ==
    [op |-> op, form |-> form, a |-> a, b |-> b, c |-> c, d |-> d, s |-> s, n |-> n, rs |-> rs]
=============================================================================
