------------------------------- MODULE Rat -------------------------------
(***************************************************************************)
(* Exact rational numbers for TLC: a rational is a normalised pair         *)
(* <<n, d>> with d > 0 and gcd(|n|, d) = 1, so that TLA+ equality is       *)
(* equality of rationals.  TLC integers are 32-bit and overflow is an      *)
(* error (never a wrap), so every run that uses this module bounds its     *)
(* operands; QFits is the predicate used by state constraints.             *)
(***************************************************************************)
EXTENDS Integers, Sequences

IAbs(x) == IF x < 0 THEN -x ELSE x
IMax(a, b) == IF a < b THEN b ELSE a
IMin(a, b) == IF a < b THEN a ELSE b

RECURSIVE GCD(_, _)
GCD(a, b) == IF b = 0 THEN a ELSE GCD(b, a % b)

QMake(n, d) ==
    LET g == GCD(IAbs(n), IAbs(d))
        s == IF d < 0 THEN -1 ELSE 1
    IN  <<(s * n) \div g, (s * d) \div g>>

Q0 == <<0, 1>>
Q1 == <<1, 1>>
QInt(i) == <<i, 1>>
QNum(a) == a[1]
QDen(a) == a[2]

\* over the least common denominator (keeps intermediate products small)
QAdd(a, b) == IF a[2] = b[2] THEN QMake(a[1] + b[1], a[2])
              ELSE LET g == GCD(a[2], b[2])
                       ka == b[2] \div g
                       kb == a[2] \div g
                   IN  QMake(a[1] * ka + b[1] * kb, a[2] * ka)
QNeg(a)    == <<-a[1], a[2]>>
QSub(a, b) == QAdd(a, QNeg(b))
QMul(a, b) == LET g1 == GCD(IAbs(a[1]), b[2])
                  g2 == GCD(IAbs(b[1]), a[2])
              IN  <<(a[1] \div g1) * (b[1] \div g2), (a[2] \div g2) * (b[2] \div g1)>>
QIsZero(a) == a[1] = 0
QInv(a)    == IF a[1] < 0 THEN <<-a[2], -a[1]>> ELSE <<a[2], a[1]>>   \* a # 0
QDiv(a, b) == QMul(a, QInv(b))
QLt(a, b)  == a[1] * b[2] < b[1] * a[2]
QLe(a, b)  == a[1] * b[2] <= b[1] * a[2]
QSign(a)   == IF a[1] > 0 THEN 1 ELSE IF a[1] < 0 THEN -1 ELSE 0
QAbs(a)    == <<IAbs(a[1]), a[2]>>
QIsInt(a)  == a[2] = 1

RECURSIVE QPowNat(_, _)
QPowNat(a, k) == IF k = 0 THEN Q1 ELSE QMul(a, QPowNat(a, k - 1))
QPow(a, k) == IF k >= 0 THEN QPowNat(a, k) ELSE QInv(QPowNat(a, -k))

(* integer square / cube roots by bisection (CHOOSE over a range is linear) *)
RECURSIVE ISqrtB(_, _, _)
ISqrtB(n, lo, hi) ==   \* largest r in lo..hi with r*r <= n ; hi <= 46340
    IF lo = hi THEN lo
    ELSE LET mid == (lo + hi + 1) \div 2
         IN  IF mid * mid <= n THEN ISqrtB(n, mid, hi) ELSE ISqrtB(n, lo, mid - 1)
ISqrt(n) == ISqrtB(n, 0, IMin(n, 46340))
IsSquare(n) == n >= 0 /\ ISqrt(n) * ISqrt(n) = n

RECURSIVE ICbrtB(_, _, _)
ICbrtB(n, lo, hi) ==
    IF lo = hi THEN lo
    ELSE LET mid == (lo + hi + 1) \div 2
         IN  IF mid * mid * mid <= n THEN ICbrtB(n, mid, hi) ELSE ICbrtB(n, lo, mid - 1)
ICbrt(n) == ICbrtB(n, 0, IMin(n, 1290))
IsCube(n) == n >= 0 /\ ICbrt(n) * ICbrt(n) * ICbrt(n) = n

QHasSqrt(a) == a[1] >= 0 /\ IsSquare(a[1]) /\ IsSquare(a[2])
QSqrt(a)    == <<ISqrt(a[1]), ISqrt(a[2])>>
QHasCbrt(a) == IsCube(IAbs(a[1])) /\ IsCube(a[2])
QCbrt(a)    == <<QSign(a) * ICbrt(IAbs(a[1])), ICbrt(a[2])>>

(* size predicates for state constraints / exactness guards *)
QFits(a, bound) == IAbs(a[1]) <= bound /\ a[2] <= bound
RECURSIVE IsPow2(_)
IsPow2(n) == n = 1 \/ (n > 1 /\ n % 2 = 0 /\ IsPow2(n \div 2))
QIsDyadic(a) == IsPow2(a[2])
RECURSIVE BitLen(_)
BitLen(n) == IF n = 0 THEN 0 ELSE 1 + BitLen(n \div 2)
RECURSIVE OddPart(_)
OddPart(n) == IF n = 0 THEN 0 ELSE IF n % 2 = 0 THEN OddPart(n \div 2) ELSE n
\* number of significant bits of a dyadic rational (0 for 0)
QSigBits(a) == BitLen(OddPart(IAbs(a[1])))
=============================================================================
