------------------------------- MODULE Refine -------------------------------
(***************************************************************************)
(* B refines A, symbolically: every coded product, quotient, chain rule    *)
(* and component-wise operation of every dual number type (layer B,        *)
(* DualB.tla), evaluated over Laurent polynomials whose symbols are the    *)
(* operand parts, equals the first-principles truncated Taylor algebra     *)
(* (layer A, JetA.tla) under the abstraction                               *)
(*        absent part |-> zeros,   stored part |-> its slot sequence.      *)
(* One evaluation decides a polynomial identity, i.e. the statement for    *)
(* ALL operand values; the state space of this module is the set of proof  *)
(* obligations (type x operation x presence pattern of optional parts).    *)
(* Used by C02 (Mul/Div/Add/Sub/Neg), C01 (Chain), C07 (all 2^k presence   *)
(* patterns), C08 (forms, see Forms.tla).                                  *)
(***************************************************************************)
EXTENDS RingP

CONSTANTS MaxN,        \* vector dimensions 1..MaxN for DualVec / Dual2Vec
          MaxHM, MaxHN \* HyperDualVec dimensions (1..MaxHM) x (1..MaxHN)

B == INSTANCE DualB WITH
        SAdd <- PAdd, SSub <- PSub, SMul <- PMul, SDiv <- PDiv, SNeg <- PNeg, SRecip <- PInv,
        SZero <- P0, SOne <- P1, SOfQ <- PConst,
        SMulF <- PMulQ, SDivF <- LAMBDA t, q : PMulQ(t, QInv(q)),
        SAddF <- LAMBDA t, q : PAdd(t, PConst(q)), SSubF <- LAMBDA t, q : PSub(t, PConst(q)),
        SFun <- PFun, SPowi <- PPowi, SPowf <- PPowf, SLog <- PLog, SAtan2 <- PAtan2,
        SRe <- PRe,
        SIsZero <- PIsZero, SIsOne <- LAMBDA t : t = P1,
        SIsPositive <- LAMBDA t : QSign(PConstVal(t)) > 0,
        SIsNegative <- LAMBDA t : QSign(PConstVal(t)) < 0,
        FLt <- QLt, FEps <- <<1, 4194304>>, FAbs <- QAbs, FOfQ <- LAMBDA q : q

A == INSTANCE JetA WITH SAdd <- PAdd, SMul <- PMul, SNeg <- PNeg, SZero <- P0, SOne <- P1

---------------------------------------------------------------------------
(* slot sequences of the stored parts, and the abstraction B-value -> jet *)
Parts(ty) ==
    CASE ty.k = "Dual"      -> {<<>>, <<1>>}
      [] ty.k = "DualVec"   -> {<<>>} \cup {<<i>> : i \in 1..ty.n}
      [] ty.k = "Dual2"     -> {<<>>, <<1>>, <<1, 1>>}
      [] ty.k = "Dual2Vec"  -> {<<>>} \cup {<<i>> : i \in 1..ty.n}
                                      \cup {<<i, j>> : i \in 1..ty.n, j \in 1..ty.n}
      [] ty.k = "Dual3"     -> {<<>>, <<1>>, <<1, 1>>, <<1, 1, 1>>}
      [] ty.k = "HyperDual" -> {<<>>, <<1>>, <<2>>, <<1, 2>>}
      [] ty.k = "HyperDualVec" ->
            {<<>>} \cup {<<i>> : i \in 1..ty.m} \cup {<<ty.m + j>> : j \in 1..ty.n}
                   \cup {<<i, ty.m + j>> : i \in 1..ty.m, j \in 1..ty.n}
      [] ty.k = "HHD"       -> A!SubSeqs(<<1, 2, 3>>)

HHDField(mm) ==
    CASE mm = <<1>> -> "eps1" [] mm = <<2>> -> "eps2" [] mm = <<3>> -> "eps3"
      [] mm = <<1, 2>> -> "eps1eps2" [] mm = <<1, 3>> -> "eps1eps3" [] mm = <<2, 3>> -> "eps2eps3"
      [] mm = <<1, 2, 3>> -> "eps1eps2eps3"

PartOf(ty, v, mm) ==
    IF mm = <<>> THEN v.re
    ELSE CASE ty.k = "Dual"  -> v.eps
      [] ty.k = "DualVec"    -> B!Dense(v.eps, ty.n, 1)[mm[1]][1]
      [] ty.k = "Dual2"      -> IF Len(mm) = 1 THEN v.v1 ELSE v.v2
      [] ty.k = "Dual2Vec"   -> IF Len(mm) = 1 THEN B!Dense(v.v1, 1, ty.n)[1][mm[1]]
                                ELSE B!Dense(v.v2, ty.n, ty.n)[mm[1]][mm[2]]
      [] ty.k = "Dual3"      -> IF Len(mm) = 1 THEN v.v1 ELSE IF Len(mm) = 2 THEN v.v2 ELSE v.v3
      [] ty.k = "HyperDual"  -> IF mm = <<1>> THEN v.eps1 ELSE IF mm = <<2>> THEN v.eps2
                                ELSE v.eps1eps2
      [] ty.k = "HyperDualVec" ->
            IF Len(mm) = 2 THEN B!Dense(v.eps1eps2, ty.m, ty.n)[mm[1]][mm[2] - ty.m]
            ELSE IF mm[1] <= ty.m THEN B!Dense(v.eps1, ty.m, 1)[mm[1]][1]
            ELSE B!Dense(v.eps2, 1, ty.n)[1][mm[1] - ty.m]
      [] ty.k = "HHD"        -> v[HHDField(mm)]

AbsJet(ty, v) == [mm \in Parts(ty) |-> PartOf(ty, v, mm)]

---------------------------------------------------------------------------
(* symbolic operands: every stored scalar is its own indeterminate *)
SymName(nm, f, i, j) == nm \o "." \o f \o "[" \o ToString(i) \o "," \o ToString(j) \o "]"
SymB(ty, nm, pres) ==
    [f \in {"re"} \cup B!FieldSet(ty) |->
        IF f = "re" THEN PVar(nm \o ".re")
        ELSE IF B!IsVec(ty)
             THEN IF pres[f]
                  THEN LET d == B!PartDims(ty, f)
                       IN  B!Some(B!Mat(d[1], d[2], LAMBDA i, j : PVar(SymName(nm, f, i, j))))
                  ELSE B!None
             ELSE PVar(nm \o "." \o f)]

\* explicit zeros instead of an absent part (C07: must be indistinguishable)
ZeroFill(ty, v) ==
    IF ~B!IsVec(ty) THEN v
    ELSE [f \in DOMAIN v |->
            IF f = "re" THEN v.re
            ELSE LET d == B!PartDims(ty, f) IN B!Some(B!Dense(v[f], d[1], d[2]))]

PresSet(ty) == IF B!IsVec(ty) THEN [B!FieldSet(ty) -> BOOLEAN] ELSE {[f \in B!FieldSet(ty) |-> TRUE]}

TowerSym(ord) == <<PVar("f0"), PVar("f1"), B!G2(ord, PVar("f2")), B!G3(ord, PVar("f3"))>>
TowerFn == [k \in 0..3 |-> PVar("f" \o ToString(k))]

---------------------------------------------------------------------------
(* the obligations *)
Holds(ty, op, pa, pb) ==
    LET a  == SymB(ty, "a", pa)
        b  == SymB(ty, "b", pb)
        ja == AbsJet(ty, a)
        jb == AbsJet(ty, b)
    IN  CASE op = "mul" -> AbsJet(ty, B!MulB(ty, a, b)) = A!MulA(ja, jb)
          [] op = "div" -> A!IsQuotientA(AbsJet(ty, B!DivB(ty, a, b)), ja, jb)
          [] op = "add" -> AbsJet(ty, B!AddB(ty, a, b)) = A!AddA(ja, jb)
          [] op = "sub" -> AbsJet(ty, B!SubB(ty, a, b)) = A!SubA(ja, jb)
          [] op = "neg" -> AbsJet(ty, B!NegB(ty, a)) = A!NegA(ja)
          [] op = "chain" -> AbsJet(ty, B!ChainB(ty, a, TowerSym(B!Order(ty)))) = A!ChainA(ja, TowerFn)
          [] op = "add_assign" -> AbsJet(ty, B!AddAssignB(ty, a, b)) = A!AddA(ja, jb)
          [] op = "sub_assign" -> AbsJet(ty, B!SubAssignB(ty, a, b)) = A!SubA(ja, jb)
          \* C07: the same operation on the zero-filled operands gives the same jet
          [] op = "mul_zf" -> AbsJet(ty, B!MulB(ty, ZeroFill(ty, a), ZeroFill(ty, b)))
                                = AbsJet(ty, B!MulB(ty, a, b))
          [] op = "div_zf" -> AbsJet(ty, B!DivB(ty, ZeroFill(ty, a), ZeroFill(ty, b)))
                                = AbsJet(ty, B!DivB(ty, a, b))
          \* C09: integer powers are repeated multiplication / division (n carried in pb)
          [] op = "powi" ->
                LET n == pb.n
                    pw == AbsJet(ty, B!PowiB(ty, a, n))
                IN  IF n >= 0 THEN pw = A!PowNatA(Parts(ty), ja, n)
                    ELSE A!MulA(pw, A!PowNatA(Parts(ty), ja, -n)) = A!ConstA(Parts(ty), P1)
          [] op = "chain_zf" -> AbsJet(ty, B!ChainB(ty, ZeroFill(ty, a), TowerSym(B!Order(ty))))
                                = AbsJet(ty, B!ChainB(ty, a, TowerSym(B!Order(ty))))

BinOps == {"mul", "div", "add", "sub", "add_assign", "sub_assign", "mul_zf", "div_zf"}
UnOps  == {"neg", "chain", "chain_zf"}

Types ==
    {B!TDual, B!TDual2, B!TDual3, B!THyperDual, B!THHD}
    \cup {B!TDualVec(n) : n \in 1..MaxN} \cup {B!TDual2Vec(n) : n \in 1..MaxN}
    \cup {B!THyperDualVec(m, n) : m \in 1..MaxHM, n \in 1..MaxHN}

VARIABLE ob
Init == ob = [k |-> "root"]
PickType == /\ ob.k = "root"
            /\ \E ty \in Types : ob' = [k |-> "type", ty |-> ty]
PickBin  == /\ ob.k = "type"
            /\ \E op \in BinOps, pa \in PresSet(ob.ty), pb \in PresSet(ob.ty) :
                  ob' = [k |-> "ob", ty |-> ob.ty, op |-> op, pa |-> pa, pb |-> pb]
PickUn   == /\ ob.k = "type"
            /\ \E op \in UnOps, pa \in PresSet(ob.ty) :
                  ob' = [k |-> "ob", ty |-> ob.ty, op |-> op, pa |-> pa, pb |-> pa]
PowNs == {-4, -3, -2, -1, 0, 1, 2, 3, 4, 5, 6}
PickPow  == /\ ob.k = "type"
            /\ \E n \in PowNs, pa \in PresSet(ob.ty) :
                  ob' = [k |-> "ob", ty |-> ob.ty, op |-> "powi", pa |-> pa, pb |-> [n |-> n]]
Next == PickType \/ PickBin \/ PickUn \/ PickPow
Spec == Init /\ [][Next]_ob

Refines == ob.k = "ob" => Holds(ob.ty, ob.op, ob.pa, ob.pb)
=============================================================================
