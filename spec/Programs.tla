------------------------------- MODULE Programs -------------------------------
(***************************************************************************)
(* C03/C04: the space of PROGRAMS over the generic interface, as a state   *)
(* machine that grows an expression DAG node by node.  A node applies one  *)
(* operation of the interface to earlier nodes (sharing is free: any       *)
(* earlier node may be used any number of times), to scalar constants and  *)
(* integer exponents.  Invariant WellFormed: operands precede their users, *)
(* arities match, every program ends in a node that depends on an input.   *)
(* TLC (-simulate, seeded) draws skeletons; the harness evaluates each     *)
(* skeleton with the real crate on every concrete type and with the        *)
(* table-driven reference interpreter (layer A tables over an error        *)
(* tracking scalar), at points drawn inside the joint domain.              *)
(***************************************************************************)
EXTENDS Integers, Sequences, FiniteSets, Json, TLC

CONSTANTS NIn,        \* number of inputs (1..3)
          MaxNodes    \* program length

Unary  == {"neg", "recip", "sqrt", "cbrt", "exp", "exp2", "exp_m1", "ln", "log2", "log10", "ln_1p", "sin", "cos",
           "tan", "sinh", "cosh", "tanh", "asin", "acos", "atan", "asinh", "acosh", "atanh", "abs", "inv"}
UnaryS == {"add_f", "sub_f", "mul_f", "div_f", "powf", "log"}
Binary == {"add", "sub", "mul", "div", "powd", "atan2"}
Forms  == {"oo", "or", "ro", "rr", "assign"}
Scalars == << <<2, 1>>, <<-1, 2>>, <<3, 1>>, <<7, 10>>, <<-73, 10>>, <<1, 3>>, <<5, 2>>, <<355, 113>>, <<1, 1>>,
              <<0, 1>>, <<-1, 1>>, <<3, 2>> >>
Exps == {-3, -2, -1, 0, 1, 2, 3, 4, 7}

VARIABLE prog          \* sequence of nodes; node k refers to inputs 1..NIn and nodes NIn+1..NIn+k-1
Avail == 1..(NIn + Len(prog))

Node(op, form, a, b, c, s, n, rs) ==
    [op |-> op, form |-> form, a |-> a, b |-> b, c |-> c, d |-> 1, s |-> s, n |-> n, rs |-> rs]

Init == prog = <<>>
Grow ==
    /\ Len(prog) < MaxNodes
    /\ \/ \E op \in Unary, a \in Avail : prog' = Append(prog, Node(op, "", a, a, a, <<0, 1>>, 0, <<>>))
       \/ \E op \in UnaryS, a \in Avail, i \in 1..Len(Scalars) :
             prog' = Append(prog, Node(op, "op", a, a, a, Scalars[i], 0, <<>>))
       \/ \E a \in Avail, n \in Exps : prog' = Append(prog, Node("powi", "", a, a, a, <<0, 1>>, n, <<>>))
       \/ \E op \in Binary, form \in Forms, a \in Avail, b \in Avail :
             prog' = Append(prog, Node(op, IF op \in {"powd", "atan2"} THEN "" ELSE form, a, b, a, <<0, 1>>, 0, <<>>))
       \/ \E a \in Avail, b \in Avail, c \in Avail :
             prog' = Append(prog, Node("mul_add", "", a, b, c, <<0, 1>>, 0, <<>>))
       \/ \E op \in {"sum", "product"}, form \in {"owned", "ref"}, k \in 1..3 : \E rs \in [1..k -> Avail] :
             prog' = Append(prog, Node(op, form, 1, 1, 1, <<0, 1>>, 0, rs))
       \/ \E i \in 1..Len(Scalars) : prog' = Append(prog, Node("from_f", "", 1, 1, 1, Scalars[i], 0, <<>>))
Next == Grow
Spec == Init /\ [][Next]_prog

\* Sampling: one pseudo-random instance of Grow per step (TLC's simulator would otherwise
\* enumerate the thousands of successors of every state).  SpecSim refines Spec; the
\* property StepIsGrow lets TLC check exactly that on every sampled step.
\* operations left out of the sampling (none by default; the Python layer does not expose PyExcluded: a configuration
\* overrides  Excluded <- PyExcluded  so that every sampled program can be written against the Python classes)
Excluded == {}
PyExcluded == {"abs", "atan2", "sum", "product"}
RE(S) == RandomElement(S)
RandNode ==
    LET cat == RE(1..13)
        \* constants already in the program (from_f nodes): cat 13 uses one as the LEFT operand of a compound assignment --
        \* the accumulator idiom  acc = const; acc -= term  in which a part absent in the accumulator meets a present one
        consts == {NIn + k : k \in {kk \in 1..Len(prog) : prog[kk].op = "from_f"}}
        a == RE(Avail)  b == RE(Avail)  c == RE(Avail)
        sc == Scalars[RE(1..Len(Scalars))]
    IN  CASE cat \in 1..4  -> Node(RE(Unary \ Excluded), "", a, a, a, <<0, 1>>, 0, <<>>)
          [] cat = 5       -> Node(RE(UnaryS), "op", a, a, a, sc, 0, <<>>)
          [] cat = 6       -> Node("powi", "", a, a, a, <<0, 1>>, RE(Exps), <<>>)
          [] cat \in 7..9  -> LET op == RE(Binary \ Excluded)
                              IN  Node(op, IF op \in {"powd", "atan2"} THEN "" ELSE RE(Forms), a, b, a, <<0, 1>>, 0, <<>>)
          [] cat = 10 \/ (cat = 11 /\ "sum" \in Excluded) -> Node("mul_add", "", a, b, c, <<0, 1>>, 0, <<>>)
          [] cat = 11      -> LET k == RE(1..3) IN
                              Node(RE({"sum", "product"}), RE({"owned", "ref"}), 1, 1, 1, <<0, 1>>, 0,
                                   [i \in 1..k |-> RE(Avail)])
          [] cat = 12 \/ (cat = 13 /\ consts = {}) -> Node("from_f", "", 1, 1, 1, sc, 0, <<>>)
          [] cat = 13      -> LET kc == CHOOSE x \in consts : \A y \in consts : x >= y     \* the latest constant (LET bodies are re-evaluated at every use: no randomness here)
                              IN  Node(RE({"add", "sub", "mul", "div"}), "assign", kc, b, kc, <<0, 1>>, 0, <<>>)
GrowSim == Len(prog) < MaxNodes /\ prog' = Append(prog, RandNode)
SpecSim == Init /\ [][GrowSim]_prog
StepIsGrow == [][Grow]_prog

Operands(nd) ==
    CASE nd.op \in Unary \cup UnaryS \cup {"powi"} -> {nd.a}
      [] nd.op \in Binary -> {nd.a, nd.b}
      [] nd.op = "mul_add" -> {nd.a, nd.b, nd.c}
      [] nd.op \in {"sum", "product"} -> {nd.rs[i] : i \in 1..Len(nd.rs)}
      [] OTHER -> {}
WellFormed == \A k \in 1..Len(prog) : \A o \in Operands(prog[k]) : o \in 1..(NIn + k - 1)

\* does node index i (over inputs and nodes) depend on some input?
RECURSIVE Dep(_)
Dep(i) == IF i <= NIn THEN TRUE ELSE \E o \in Operands(prog[i - NIn]) : Dep(o)
Emit == (Len(prog) = MaxNodes /\ Dep(NIn + MaxNodes)) =>
            PrintT(<<"PROG", ToJson([inputs |-> NIn, nodes |-> prog])>>)
=============================================================================
