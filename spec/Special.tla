------------------------------- MODULE Special -------------------------------
(***************************************************************************)
(* C10 (and the zero-argument parts of C14/C15): smooth special points.    *)
(* The B-formulas are evaluated over the extended rationals (RingX) at     *)
(* every enumerated special point; the invariant FiniteWhereSmooth demands *)
(* that every part is finite and equals the mathematical value whenever    *)
(* the function and its derivatives up to the order of the type are finite *)
(* there.  The mathematical values come from layer A over the rationals:   *)
(* Faa di Bruno over the tower at the point, where the towers at 0 of the  *)
(* spherical and cylindrical Bessel functions are derived by TLC from      *)
(* formal power series (sin, cos from y'' = -y; J_n from Bessel's ODE).    *)
(* Fourth order is reached through the nested type Dual2<Dual2<F>>, i.e. a *)
(* DualB instance whose scalar is another DualB instance.                  *)
(***************************************************************************)
EXTENDS RingX, Sequences, FiniteSets, FiniteSetsExt, Json

FEpsX == <<"eps">>
\* comparisons against F::epsilon(): the special points are 0 or of magnitude >= 1/4
XLtE(a, b) == IF b = FEpsX THEN XIsZeroV(a) \/ (XIsQ(a) /\ QSign(a[2]) < 0)
              ELSE IF a = FEpsX THEN XIsQ(b) /\ QSign(b[2]) > 0
              ELSE XLt(a, b)

BX == INSTANCE DualB WITH
        SAdd <- XAdd, SSub <- XSub, SMul <- XMul, SDiv <- XDiv, SNeg <- XNeg, SRecip <- XRecip,
        SZero <- X0, SOne <- X1, SOfQ <- XQ,
        SMulF <- LAMBDA t, q : XMul(t, XQ(q)), SDivF <- LAMBDA t, q : XDiv(t, XQ(q)),
        SAddF <- LAMBDA t, q : XAdd(t, XQ(q)), SSubF <- LAMBDA t, q : XSub(t, XQ(q)),
        SFun <- XFun, SPowi <- XPowi, SPowf <- XPowf,
        SLog <- LAMBDA t, b : Assert(FALSE, "log"), SAtan2 <- LAMBDA t, u : <<"atan2", t, u>>,
        SRe <- LAMBDA t : t,
        SIsZero <- XIsZeroV, SIsOne <- LAMBDA t : t = X1,
        SIsPositive <- LAMBDA t : XSgn(t) >= 0, SIsNegative <- LAMBDA t : XSgn(t) < 0,
        FLt <- XLtE, FEps <- FEpsX, FAbs <- XAbs, FOfQ <- XQ

\* Dual2 over Dual2 over X: the fourth-order type
TI == BX!TDual2
NB == INSTANCE DualB WITH
        SAdd <- LAMBDA a, b : BX!AddB(TI, a, b), SSub <- LAMBDA a, b : BX!SubB(TI, a, b),
        SMul <- LAMBDA a, b : BX!MulB(TI, a, b), SDiv <- LAMBDA a, b : BX!DivB(TI, a, b),
        SNeg <- LAMBDA a : BX!NegB(TI, a), SRecip <- LAMBDA a : BX!RecipB(TI, a),
        SZero <- BX!ZeroB(TI), SOne <- BX!OneB(TI), SOfQ <- LAMBDA q : BX!FromFB(TI, q),
        SMulF <- LAMBDA t, q : BX!MulFB(TI, t, q), SDivF <- LAMBDA t, q : BX!DivFB(TI, t, q),
        SAddF <- LAMBDA t, q : BX!AddFB(TI, t, q), SSubF <- LAMBDA t, q : BX!SubFB(TI, t, q),
        SFun <- LAMBDA fn, t : BX!ElemB(TI, fn, t),
        SPowi <- LAMBDA t, n : BX!PowiB(TI, t, n),
        SPowf <- LAMBDA t, q : BX!PowfB(TI, t, q, q = QInt(2)),
        SLog <- LAMBDA t, b : Assert(FALSE, "log"), SAtan2 <- LAMBDA t, u : BX!Atan2B(TI, t, u),
        SRe <- LAMBDA t : BX!ReB(t),
        SIsZero <- LAMBDA t : BX!IsZeroB(t), SIsOne <- LAMBDA t : BX!IsOneB(t),
        SIsPositive <- LAMBDA t : BX!IsPositiveB(t), SIsNegative <- LAMBDA t : BX!IsNegativeB(t),
        FLt <- XLtE, FEps <- FEpsX, FAbs <- XAbs, FOfQ <- XQ

AQ == INSTANCE JetA WITH SAdd <- QAdd, SMul <- QMul, SNeg <- QNeg, SZero <- Q0, SOne <- Q1
MX == INSTANCE AbsMap WITH SZero <- X0

---------------------------------------------------------------------------
(* formal power series over Q, degree <= Deg *)
Deg == 11
SerZero == [k \in 0..Deg |-> Q0]
SerAdd(a, b) == [k \in 0..Deg |-> QAdd(a[k], b[k])]
SerSub(a, b) == [k \in 0..Deg |-> QSub(a[k], b[k])]
SerScale(a, q) == [k \in 0..Deg |-> QMul(a[k], q)]
SerMul(a, b) == [k \in 0..Deg |->
                   FoldSet(LAMBDA i, acc : QAdd(acc, QMul(a[i], b[k - i])), Q0, 0..k)]
SerX(p) == [k \in 0..Deg |-> IF k = p THEN Q1 ELSE Q0]                  \* x^p
SerDivX(a, p) == [k \in 0..Deg |-> IF k + p <= Deg THEN a[k + p] ELSE Q0]  \* a / x^p (a_0..a_{p-1} = 0)
LowZero(a, p) == \A k \in 0..(p - 1) : QIsZero(a[k])
\* y'' = -y  with y(0), y'(0) given
RECURSIVE OscCoef(_, _, _)
OscCoef(k, y0, y1) == IF k = 0 THEN y0 ELSE IF k = 1 THEN y1
                      ELSE QDiv(QNeg(OscCoef(k - 2, y0, y1)), QInt(k * (k - 1)))
SinS == [k \in 0..Deg |-> OscCoef(k, Q0, Q1)]
CosS == [k \in 0..Deg |-> OscCoef(k, Q1, Q0)]
\* spherical Bessel functions from their closed forms
SphNum(fn) ==
    CASE fn = "sph_j0" -> SinS
      [] fn = "sph_j1" -> SerSub(SinS, SerMul(SerX(1), CosS))
      [] fn = "sph_j2" -> SerSub(SerSub(SerScale(SinS, QInt(3)), SerMul(SerX(2), SinS)),
                                 SerScale(SerMul(SerX(1), CosS), QInt(3)))
SphPow(fn) == IF fn = "sph_j0" THEN 1 ELSE IF fn = "sph_j1" THEN 2 ELSE 3
\* J_n from Bessel's equation x^2 y'' + x y' + (x^2 - n^2) y = 0, J_n ~ (x/2)^n / n!
RECURSIVE BesCoef(_, _)
BesCoef(n, k) ==
    IF k < n \/ (k - n) % 2 = 1 THEN Q0
    ELSE IF k = n THEN (IF n = 0 THEN Q1 ELSE IF n = 1 THEN <<1, 2>> ELSE <<1, 8>>)
    ELSE QDiv(QNeg(BesCoef(n, k - 2)), QInt(k * k - n * n))
SeriesA(fn) ==
    CASE fn \in {"sph_j0", "sph_j1", "sph_j2"} -> SerDivX(SphNum(fn), SphPow(fn))
      [] fn = "bessel_j0" -> [k \in 0..Deg |-> BesCoef(0, k)]
      [] fn = "bessel_j1" -> [k \in 0..Deg |-> BesCoef(1, k)]
      [] fn = "bessel_j2" -> [k \in 0..Deg |-> BesCoef(2, k)]
ValidDeg(fn) == IF fn \in {"sph_j0", "sph_j1", "sph_j2"} THEN Deg - SphPow(fn) ELSE Deg
Factorial(k) == IF k <= 1 THEN 1 ELSE IF k = 2 THEN 2 ELSE IF k = 3 THEN 6 ELSE 24
TowerAt0(fn) == [k \in 0..4 |-> QMul(QInt(Factorial(k)), SeriesA(fn)[k])]

---------------------------------------------------------------------------
(* operands *)
Vals == << <<2, 1>>, <<-3, 1>>, <<1, 2>>, <<5, 1>>, <<-1, 1>>, <<3, 2>>, <<-2, 1>>, <<7, 1>>, <<-5, 2>>, <<1, 1>> >>
GV(k) == Vals[(k % Len(Vals)) + 1]
FieldIdx(ty, f) == CHOOSE i \in 1..Len(BX!Fields(ty)) : BX!Fields(ty)[i] = f
\* value of type ty with real part re (a rational) and generic derivative parts, as Q and as X
GenQ(ty, re, k) ==
    [f \in {"re"} \cup BX!FieldSet(ty) |->
        IF f = "re" THEN re
        ELSE IF BX!IsVec(ty)
             THEN LET d == BX!PartDims(ty, f)
                  IN  [p |-> TRUE, m |-> [i \in 1..d[1] |-> [j \in 1..d[2] |-> GV(k + 5 * FieldIdx(ty, f) + 2 * i + j)]]]
             ELSE GV(k + 3 * FieldIdx(ty, f))]
ToX(ty, v) ==
    [f \in DOMAIN v |->
        IF f = "re" THEN XQ(v.re)
        ELSE IF BX!IsVec(ty)
             THEN [p |-> TRUE, m |-> [i \in 1..Len(v[f].m) |-> [j \in 1..Len(v[f].m[i]) |-> XQ(v[f].m[i][j])]]]
             ELSE XQ(v[f])]
MQ == INSTANCE AbsMap WITH SZero <- Q0
JetQ(ty, v) == MQ!AbsJet(ty, v)
JetX(ty, v) == MX!AbsJet(ty, v)
LiftJet(j) == [mm \in DOMAIN j |-> XQ(j[mm])]

Types == {BX!TDual, BX!TDual2, BX!TDual3, BX!THyperDual, BX!THHD, BX!TDualVec(2), BX!TDual2Vec(2),
          BX!THyperDualVec(2, 2)}

RecipTowerQ(r) == [k \in 0..3 |-> QMul(QInt((IF k % 2 = 0 THEN 1 ELSE -1) * Factorial(k)), QPow(r, -(k + 1)))]
AtanTower0 == [k \in 0..3 |-> IF k = 1 THEN Q1 ELSE IF k = 3 THEN QInt(-2) ELSE Q0]
\* falling factorial q (q-1) ... (q-k+1)
RECURSIVE Falling(_, _)
Falling(q, k) == IF k = 0 THEN Q1 ELSE QMul(Falling(q, k - 1), QSub(q, QInt(k - 1)))
\* k-th derivative of x^q at 0 (finite cases only: q - k > 0, or q = k)
PowTower0(q) == [k \in 0..3 |-> IF QIsZero(Falling(q, k)) THEN Q0               \* integer q < k
                                ELSE IF QSub(q, QInt(k)) = Q0 THEN Falling(q, k)
                                ELSE IF QSign(QSub(q, QInt(k))) > 0 THEN Q0 ELSE <<0, 0>>]   \* <<0,0>>: infinite
SmoothAt0(q, ord) == (QIsInt(q) /\ QSign(q) >= 0) \/ QLt(QInt(ord), q)

SameParts(jx, jq, skipRe) ==
    \A mm \in DOMAIN jq : (skipRe /\ mm = <<>>) \/ jx[mm] = XQ(jq[mm])

---------------------------------------------------------------------------
(* the cases *)
CaseOK(c) ==
    LET ty == c.ty
        x0 == GenQ(ty, Q0, 1)
    IN  CASE c.k = "powi" ->
               SameParts(JetX(ty, BX!PowiB(ty, ToX(ty, x0), c.n)),
                         AQ!ChainA(JetQ(ty, x0), PowTower0(QInt(c.n))), FALSE)
          [] c.k = "powf" ->
               SmoothAt0(c.q, BX!Order(ty)) =>
               SameParts(JetX(ty, BX!PowfB(ty, ToX(ty, x0), c.q, c.q = QInt(2))),
                         AQ!ChainA(JetQ(ty, x0), PowTower0(c.q)), FALSE)
          [] c.k = "atan2" ->
               \* half axes: (y, x) real parts (1,0), (-1,0), (0,1), (0,-1)
               LET yq == GenQ(ty, IF c.axis = "+y" THEN Q1 ELSE IF c.axis = "-y" THEN QInt(-1) ELSE Q0, 2)
                   xq == GenQ(ty, IF c.axis = "+x" THEN Q1 ELSE IF c.axis = "-x" THEN QInt(-1) ELSE Q0, 5)
                   jy == JetQ(ty, yq)  jx == JetQ(ty, xq)
                   onY == c.axis \in {"+y", "-y"}
                   num == IF onY THEN jx ELSE jy
                   den == IF onY THEN jy ELSE jx
                   quo == AQ!MulA(num, AQ!ChainA(den, RecipTowerQ(den[<<>>])))
                   at  == AQ!ChainA(quo, AtanTower0)
                   want == IF onY THEN AQ!NegA(at) ELSE at
               IN  SameParts(JetX(ty, BX!Atan2B(ty, ToX(ty, yq), ToX(ty, xq))), want, TRUE)
          [] c.k = "zero" ->      \* sph_j0/1/2, Bessel series, exp_m1, ln_1p at 0 on the types up to third order
               LET fn == c.fn
                   \* (unit parts for the Bessel series: its coefficients 1/2211840 ... would overflow
                   \*  TLC's integers against generic parts)
                   xb == [f \in DOMAIN x0 |-> IF f = "re" THEN Q0
                                              ELSE IF BX!IsVec(ty)
                                                   THEN [p |-> TRUE, m |-> [i \in 1..Len(x0[f].m) |-> [j \in 1..Len(x0[f].m[i]) |-> Q1]]]
                                                   ELSE Q1]
                   xx == IF fn \in {"bessel_j0", "bessel_j2"} THEN xb ELSE x0
                   res == CASE fn = "sph_j0" -> BX!SphJ0B(ty, ToX(ty, x0))
                            [] fn = "sph_j1" -> BX!SphJ1B(ty, ToX(ty, x0))
                            [] fn = "sph_j2" -> BX!SphJ2B(ty, ToX(ty, x0))
                            [] fn = "bessel_j0" -> BX!BesselJ0SeriesB(ty, ToX(ty, xx))
                            [] fn = "bessel_j2" -> BX!BesselJ2SeriesB(ty, ToX(ty, xx))
                            [] fn = "exp_m1" -> BX!ElemB(ty, "exp_m1", ToX(ty, x0))
                            [] fn = "ln_1p" -> BX!ElemB(ty, "ln_1p", ToX(ty, x0))
                   tw == CASE fn = "exp_m1" -> [k \in 0..3 |-> IF k = 0 THEN Q0 ELSE Q1]
                           [] fn = "ln_1p" -> [k \in 0..3 |-> IF k = 0 THEN Q0 ELSE IF k = 1 THEN Q1 ELSE IF k = 2 THEN QInt(-1) ELSE QInt(2)]
                           [] OTHER -> TowerAt0(fn)
               IN  SameParts(JetX(ty, res), AQ!ChainA(JetQ(ty, xx), tw), FALSE)
          [] c.k = "saturate" ->  \* finite limits where exp overflows: tanh(+-Huge) = +-1, exp_m1(-Huge) = -1, all derivatives 0
               LET xq == GenQ(ty, IF c.sign > 0 THEN Huge ELSE QNeg(Huge), 3)
                   res == BX!ElemB(ty, c.fn, ToX(ty, xq))
                   tw == [k \in 0..3 |-> IF k = 0 THEN (IF c.fn = "tanh" THEN QInt(c.sign) ELSE QInt(-1)) ELSE Q0]
               IN  SameParts(JetX(ty, res), AQ!ChainA(JetQ(ty, xq), tw), FALSE)
          [] c.k = "sqoverflow" -> \* x * x overflows: f' of asinh, acosh is 1/|x| (representable), every other derivative underflows to 0
               LET xq == GenQ(ty, IF c.sign > 0 THEN SqBig ELSE QNeg(SqBig), 3)
                   res == BX!ElemB(ty, c.fn, ToX(ty, xq))
                   tw == [k \in 0..3 |-> IF k = 1 /\ c.fn # "atan" THEN QInv(SqBig) ELSE Q0]
               IN  SameParts(JetX(ty, res), AQ!ChainA(JetQ(ty, xq), tw), TRUE)
          [] c.k = "sqoverflow4" -> \* ... and on Dual2<Dual2> no part is NaN or infinite (values: float harness)
               LET h == IF c.sign > 0 THEN SqBig ELSE QNeg(SqBig)
                   inner(r, k) == [re |-> XQ(r), v1 |-> XQ(GV(k)), v2 |-> XQ(GV(k + 1))]
                   x4 == [re |-> inner(h, 1), v1 |-> inner(QInt(2), 3), v2 |-> inner(QInt(-3), 5)]
                   res == NB!ElemB(NB!TDual2, c.fn, x4)
                   fin(v) == XFinite(v.re) /\ XFinite(v.v1) /\ XFinite(v.v2)
               IN  fin(res.re) /\ fin(res.v1) /\ fin(res.v2)
          [] c.k = "saturate4" -> \* the same on the nested type Dual2<Dual2> with generic parts at both levels
               LET h == IF c.sign > 0 THEN Huge ELSE QNeg(Huge)
                   inner(r, k) == [re |-> XQ(r), v1 |-> XQ(GV(k)), v2 |-> XQ(GV(k + 1))]
                   x4 == [re |-> inner(h, 1), v1 |-> inner(QInt(2), 3), v2 |-> inner(QInt(-3), 5)]
                   res == NB!ElemB(NB!TDual2, "tanh", x4)
                   isC(v, r) == v.re = XQ(r) /\ v.v1 = X0 /\ v.v2 = X0
               IN  isC(res.re, QInt(c.sign)) /\ isC(res.v1, Q0) /\ isC(res.v2, Q0)
          [] c.k = "zero4" ->     \* fourth order: Dual2<Dual2> seeded on one variable at 0
               LET seedIn(r, e) == [re |-> XQ(r), v1 |-> XQ(e), v2 |-> X0]
                   x4 == [re |-> seedIn(Q0, Q1), v1 |-> seedIn(Q1, Q0), v2 |-> seedIn(Q0, Q0)]
                   res == CASE c.fn = "sph_j0" -> NB!SphJ0B(NB!TDual2, x4)
                            [] c.fn = "sph_j1" -> NB!SphJ1B(NB!TDual2, x4)
                            [] c.fn = "sph_j2" -> NB!SphJ2B(NB!TDual2, x4)
                            [] c.fn = "bessel_j0" -> NB!BesselJ0SeriesB(NB!TDual2, x4)
                            [] c.fn = "bessel_j2" -> NB!BesselJ2SeriesB(NB!TDual2, x4)
                   tw == TowerAt0(c.fn)
               IN  /\ res.re.re = XQ(tw[0]) /\ res.re.v1 = XQ(tw[1]) /\ res.v1.re = XQ(tw[1])
                   /\ res.re.v2 = XQ(tw[2]) /\ res.v1.v1 = XQ(tw[2]) /\ res.v2.re = XQ(tw[2])
                   /\ res.v1.v2 = XQ(tw[3]) /\ res.v2.v1 = XQ(tw[3])
                   /\ res.v2.v2 = XQ(tw[4])

PowfExps == {<<3, 1>>, <<4, 1>>, <<5, 1>>, <<3, 2>>, <<5, 2>>, <<7, 2>>, <<9, 2>>, <<1, 1>>, <<2, 1>>, <<0, 1>>, <<10, 3>>}
Cases ==
    {[k |-> "powi", ty |-> ty, n |-> n] : ty \in Types, n \in 0..6}
    \cup {[k |-> "powf", ty |-> ty, q |-> q] : ty \in Types, q \in PowfExps}
    \cup {[k |-> "atan2", ty |-> ty, axis |-> ax] : ty \in Types, ax \in {"+y", "-y", "+x", "-x"}}
    \cup {[k |-> "zero", ty |-> ty, fn |-> fn] :
             ty \in Types, fn \in {"sph_j0", "sph_j1", "sph_j2", "exp_m1", "ln_1p", "bessel_j0", "bessel_j2"}}
    \cup {[k |-> "saturate", ty |-> ty, fn |-> "tanh", sign |-> sg] : ty \in Types, sg \in {-1, 1}}
    \cup {[k |-> "saturate", ty |-> ty, fn |-> "exp_m1", sign |-> -1] : ty \in Types}
    \cup {[k |-> "sqoverflow", ty |-> ty, fn |-> fn, sign |-> sg] :
             ty \in Types, fn \in {"atan", "asinh"}, sg \in {-1, 1}}
    \cup {[k |-> "sqoverflow", ty |-> ty, fn |-> "acosh", sign |-> 1] : ty \in Types}
    \cup {[k |-> "sqoverflow4", ty |-> BX!TDual2, fn |-> fn, sign |-> 1] : fn \in {"atan", "asinh", "acosh"}}
    \cup {[k |-> "saturate4", ty |-> BX!TDual2, fn |-> "tanh", sign |-> sg] : sg \in {-1, 1}}
    \cup {[k |-> "zero4", ty |-> BX!TDual2, fn |-> fn] :
             fn \in {"sph_j0", "sph_j1", "sph_j2", "bessel_j0"}}
    \* (bessel_j2 at fourth order: dividing a nested number by the constant 2211840 squares it
    \*  in the quotient rule, beyond TLC's integers; the float harness covers Dual2<Dual2_64>)

VARIABLE c
Init == c \in Cases
Next == UNCHANGED c
Spec == Init /\ [][Next]_c

FiniteWhereSmooth == CaseOK(c)
\* the code before the repair "fix: tanh returned NaN once cosh overflows" (self.sinh() / self.cosh()); TLC reports
\* every "saturate" case of tanh as a counterexample of this invariant (inf * 0 = NaN in the quotient rule). It is
\* kept as documentation and is not part of any configuration.
OldTanhFinite ==
    c.k = "saturate" /\ c.fn = "tanh" =>
        LET xq == GenQ(c.ty, IF c.sign > 0 THEN Huge ELSE QNeg(Huge), 3)
            x == ToX(c.ty, xq)
            res == BX!DivB(c.ty, BX!ElemB(c.ty, "sinh", x), BX!ElemB(c.ty, "cosh", x))
        IN  \A mm \in DOMAIN JetX(c.ty, res) : XFinite(JetX(c.ty, res)[mm])
\* argument classes of the cylindrical Bessel functions (bessel.rs switches between series, rational approximation,
\* asymptotic form and recurrence on them): <<class, lower bound of |x| (inclusive), upper bound (exclusive), sign>>.
\* The branch each function takes in a class is BX!BesselJ0Branch etc.; the harness must sweep every class (both signs,
\* both sides of every switch) -- it refuses to run otherwise.
BesselClasses ==
    << <<"zero", <<0, 1>>, <<0, 1>>, 0>>,
       <<"tiny+", <<0, 1>>, <<1, 100000>>, 1>>, <<"tiny-", <<0, 1>>, <<1, 100000>>, -1>>,     \* (0 itself excluded by the sign)
       <<"below03+", <<1, 100000>>, <<3, 10>>, 1>>, <<"below03-", <<1, 100000>>, <<3, 10>>, -1>>,
       <<"small+", <<3, 10>>, <<49, 10>>, 1>>, <<"small-", <<3, 10>>, <<49, 10>>, -1>>,
       <<"five+", <<49, 10>>, <<51, 10>>, 1>>, <<"five-", <<49, 10>>, <<51, 10>>, -1>>,
       <<"large+", <<51, 10>>, <<61, 1>>, 1>>, <<"large-", <<51, 10>>, <<61, 1>>, -1>> >>
BranchOf(fn, cls) ==
    LET cl == IF cls \in {"below03+", "below03-"} /\ fn # "bessel_j2" THEN (IF cls = "below03+" THEN "small+" ELSE "small-") ELSE cls
    IN  CASE fn = "bessel_j0" -> BX!BesselJ0Branch(cl) [] fn = "bessel_j1" -> BX!BesselJ1Branch(cl) [] OTHER -> BX!BesselJ2Branch(cl)
BranchesTotal ==
    \A fn \in {"bessel_j0", "bessel_j1", "bessel_j2"} : \A i \in 1..Len(BesselClasses) :
        BranchOf(fn, BesselClasses[i][1]) \in {"series", "rational", "asymptotic", "recurrence"}
ExportBesselClasses ==
    (c.k = "zero4" /\ c.fn = "sph_j0") =>
        PrintT(<<"BESSELCLASSES", ToJson([i \in 1..Len(BesselClasses) |->
            [cls |-> BesselClasses[i][1], lo |-> BesselClasses[i][2], hi |-> BesselClasses[i][3], sign |-> BesselClasses[i][4],
             j0 |-> BranchOf("bessel_j0", BesselClasses[i][1]), j1 |-> BranchOf("bessel_j1", BesselClasses[i][1]),
             j2 |-> BranchOf("bessel_j2", BesselClasses[i][1])]])>>)
\* the series the harness uses as oracle next to zero (one line per function)
SeriesFns == {"sph_j0", "sph_j1", "sph_j2", "bessel_j0", "bessel_j1", "bessel_j2"}
ExportSeries ==
    (c.k = "zero4" /\ c.fn = "sph_j0") =>
        \A fn \in SeriesFns : PrintT(<<"SERIES", ToJson([fn |-> fn, valid_deg |-> ValidDeg(fn), coef |-> [k \in 1..(Deg + 1) |-> SeriesA(fn)[k - 1]]])>>)
\* the exported coefficients are exact up to ValidDeg (the division by x^p shifts the truncation down); consecutive non-zero
\* coefficients decay at least like those of sin: |a[k+2]| (k+1)(k+2) <= |a[k]|.  With alternating signs this bounds the
\* remainder of the truncated series by (last term) * x^2 / ((d+1)(d+2)); the harness adds that bound to the oracle's
\* error and may therefore use the series up to |x| = 0.3 (remainder below one unit of f64 rounding).
CoefDecay ==
    \A fn \in SeriesFns : \A k \in 0..(ValidDeg(fn) - 2) :
        LET a == SeriesA(fn) IN
        (~QIsZero(a[k]) /\ ~QIsZero(a[k + 2])) =>
            /\ QLe(QInt((k + 1) * (k + 2)), QAbs(QDiv(a[k], a[k + 2])))
            /\ QSign(a[k]) # QSign(a[k + 2])
\* the closed forms divide out: the numerators vanish to the order of the divisor
SeriesWellDefined == BranchesTotal /\ (\A fn \in {"sph_j0", "sph_j1", "sph_j2"} : LowZero(SphNum(fn), SphPow(fn))) /\ CoefDecay
=============================================================================
