------------------------------- MODULE Forms -------------------------------
(***************************************************************************)
(* C08, conversions: impl_from_primitive! and impl_float_const! generate,  *)
(* per type, the 14 entry points of num_traits::FromPrimitive and the 16   *)
(* constants of FloatConst.  Each entry point is                           *)
(*        F::from_X(n).map(|f| f.into())                                   *)
(* i.e. the scalar conversion of the SAME entry point lifted to a constant *)
(* (all derivative parts zero / absent); each constant is Self::from(F::C).*)
(* DualNum::from_inner(x) = Self::from_re(x) lifts a number of the scalar  *)
(* level (itself a dual number for nested types) to a constant.            *)
(* The table below lists the entry points with the width and signedness of *)
(* their argument and the boundary arguments to try (as +-2^e + o, because *)
(* TLC's integers end at 2^31); InRange decides which arguments an entry   *)
(* point accepts.  Exported for the harness, which calls every entry point *)
(* on every concrete type and compares with the scalar conversion.         *)
(***************************************************************************)
EXTENDS Integers, Sequences, FiniteSets, Json, TLC

Entry(name, bits, signed) == [name |-> name, bits |-> bits, signed |-> signed]
FromPrim == << Entry("from_isize", 64, TRUE), Entry("from_i8", 8, TRUE), Entry("from_i16", 16, TRUE), Entry("from_i32", 32, TRUE),
               Entry("from_i64", 64, TRUE), Entry("from_i128", 128, TRUE), Entry("from_usize", 64, FALSE), Entry("from_u8", 8, FALSE),
               Entry("from_u16", 16, FALSE), Entry("from_u32", 32, FALSE), Entry("from_u64", 64, FALSE), Entry("from_u128", 128, FALSE),
               Entry("from_f32", 0, TRUE), Entry("from_f64", 0, TRUE) >>
\* arguments  sign * 2^e + o
Arg(s, e, o) == [s |-> s, e |-> e, o |-> o]
Args == << Arg(1, 0, -1), Arg(1, 0, 0), Arg(1, 0, 1), Arg(-1, 0, 0), Arg(1, 3, -1), Arg(-1, 7, 0), Arg(1, 7, -1), Arg(1, 8, -1), Arg(1, 8, 0),
           Arg(-1, 15, 0), Arg(1, 15, -1), Arg(1, 16, -1), Arg(1, 16, 1), Arg(1, 24, 1), Arg(-1, 31, 0), Arg(1, 31, -1), Arg(1, 32, -1),
           Arg(1, 32, 5), Arg(1, 53, 1), Arg(-1, 63, 0), Arg(1, 63, -1), Arg(1, 64, -1), Arg(1, 64, 0), Arg(1, 64, 5), Arg(1, 80, 3),
           Arg(-1, 127, 0), Arg(1, 127, -1), Arg(1, 128, -1) >>
\* does  s * 2^e + o  fit the argument type of the entry point?  (decided on the exponent: o is tiny)
InRange(en, a) ==
    IF en.bits = 0 THEN a.e <= 100
    ELSE IF en.signed
         THEN IF a.s = 1 THEN a.e < en.bits - 1 \/ (a.e = en.bits - 1 /\ a.o < 0)
              ELSE a.e < en.bits - 1 \/ (a.e = en.bits - 1 /\ a.o >= 0)
         ELSE (a.s = 1 /\ (a.e < en.bits \/ (a.e = en.bits /\ a.o < 0)) /\ (a.e > 0 \/ a.o >= 0 \/ a.e = 0))
              \/ (a.s = -1 /\ a.e = 0 /\ a.o >= 1)
FloatConsts == <<"E", "FRAC_1_PI", "FRAC_1_SQRT_2", "FRAC_2_PI", "FRAC_2_SQRT_PI", "FRAC_PI_2", "FRAC_PI_3", "FRAC_PI_4",
                 "FRAC_PI_6", "FRAC_PI_8", "LN_10", "LN_2", "LOG10_E", "LOG2_E", "PI", "SQRT_2">>

VARIABLE st
Init == st = "table"
Next == UNCHANGED st
Spec == Init /\ [][Next]_st
\* every entry point has at least three arguments in range, and the widest types reach beyond 2^64
TableSane == st = "table" =>
    /\ \A i \in 1..Len(FromPrim) : Cardinality({k \in 1..Len(Args) : InRange(FromPrim[i], Args[k])}) >= 3
    /\ \E k \in 1..Len(Args) : InRange(FromPrim[12], Args[k]) /\ Args[k].e >= 64
ExportForms == st = "table" =>
    PrintT(<<"FORMS", ToJson([from_prim |-> [i \in 1..Len(FromPrim) |->
                                  [name |-> FromPrim[i].name,
                                   args |-> SelectSeq(Args, LAMBDA a : InRange(FromPrim[i], a))]],
                              float_const |-> FloatConsts, lifts |-> <<"from_inner">>])>>)
=============================================================================
