------------------------------- MODULE Power -------------------------------
(***************************************************************************)
(* C09: the integer arithmetic inside powi.  derivatives.rs forms the      *)
(* coefficients of the power tower from the exponent exp: i32.             *)
(*   as repaired ("fix: powi coefficients overflowed i32"):                *)
(*        F::from(exp) , * F::from(exp - 1) , * F::from(exp - 2)           *)
(*        and self.re.powi(exp - 3)            only exp-1, exp-2, exp-3    *)
(*        are formed in i32                                                *)
(*   before the repair:  F::from(exp * (exp - 1) * (exp - 2))  in i32,     *)
(*        which overflows for |exp| >= 1292 (third order) / 46342 (second) *)
(* TLC integers are 32-bit themselves and overflow is an error, so         *)
(* overflow is decided by division, never by performing the product.       *)
(* The state space is a set of exponents covering every boundary.          *)
(***************************************************************************)
EXTENDS Integers, TLC

MaxI32 == 2147483647
MinI32 == -MaxI32 - 1
IAbs(x) == IF x < 0 THEN -x ELSE x
\* would a * b leave the i32 range?   (|a|, |b| <= 2^31 - 1 here)
MulOverflows(a, b) == a # 0 /\ b # 0 /\ IAbs(b) > MaxI32 \div IAbs(a)
SubOverflows(a, k) == a < MinI32 + k          \* a - k for k > 0

\* the i32 operations the CURRENT code performs for exponent n and a type of order ord
CurrentOverflows(n, ord) == SubOverflows(n, 3)
\* the i32 operations of the code before the repair
OldOverflows(n, ord) ==
    \/ SubOverflows(n, 3)
    \/ (ord >= 2 /\ MulOverflows(n, n - 1))
    \/ (ord >= 3 /\ (MulOverflows(n, n - 1) \/ MulOverflows(n * (n - 1), n - 2)))

Bound == 1073741824        \* 2^30, the range the property quantifies over
Exponents ==
    {-Bound, -Bound + 1, Bound - 1, Bound, 46340, 46341, 46342, -46340, -46341, -46342, 1290, 1291, 1292, 1293,
     -1290, -1291, -1292, 65536, -65536, 1000000, -1000000}
    \cup (-20..20) \cup {2 * k * k * k : k \in 1..800} \cup {-(3 * k * k) : k \in 1..18000}

VARIABLE e
Init == e \in [n : Exponents, ord : 1..3]
Next == UNCHANGED e
Spec == Init /\ [][Next]_e

NoI32Overflow == IAbs(e.n) <= Bound => ~CurrentOverflows(e.n, e.ord)
\* documentation of the defect (TLC reports n = 1292, ord = 3 and n = 46342, ord = 2 when
\* this is checked as an invariant): not part of the regular configuration
OldNoI32Overflow == IAbs(e.n) <= Bound => ~OldOverflows(e.n, e.ord)
=============================================================================
