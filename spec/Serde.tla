------------------------------- MODULE Serde -------------------------------
(***************************************************************************)
(* C16: the serde derives of the scalar dual number types.                 *)
(* #[derive(Serialize, Deserialize)] on                                    *)
(*    struct Dual { re, eps, #[serde(skip)] f: PhantomData }  (and Dual2,  *)
(*    Dual3, HyperDual, HyperHyperDual)                                    *)
(* stores a value as a map with exactly one entry per stored part, under   *)
(* the field's own name, in declaration order; the phantom marker is       *)
(* skipped; a nested value is stored as a nested map.  Deserialisation is  *)
(* by name (order-insensitive) and restores every part.                    *)
(* TLC enumerates types (nestings to depth 3) x values, checks the         *)
(* model-level round trip, and emits (descriptor, value, tree).            *)
(***************************************************************************)
EXTENDS Shapes, Json, TLC

CONSTANTS TypeSet, Variants

RECURSIVE Ser(_, _), De(_, _)
Ser(ty, v) ==
    IF ty.k = "F" THEN v
    ELSE [f \in {"re"} \cup FieldSetT(ty) |-> Ser(ty.inner, v[f])]       \* the phantom field "f" is skipped
De(ty, t) ==
    IF ty.k = "F" THEN t
    ELSE [f \in {"re"} \cup FieldSetT(ty) |-> De(ty.inner, t[f])]

VARIABLE c
Init == \E ty \in TypeSet, k \in Variants : c = [ty |-> ty, v |-> GenVal(ty, k, <<>>)]
Next == UNCHANGED c
Spec == Init /\ [][Next]_c

RoundTrip == De(c.ty, Ser(c.ty, c.v)) = c.v
RECURSIVE ExactFields(_, _)
ExactFields(ty, t) ==
    ty.k = "F" \/ (/\ DOMAIN t = {"re"} \cup FieldSetT(ty)
                   /\ \A f \in DOMAIN t : ExactFields(ty.inner, t[f]))
ExactlyTheseFields == ExactFields(c.ty, Ser(c.ty, c.v))
Emit == PrintT(<<"SERDE", ToJson([ty |-> c.ty, v |-> c.v, tree |-> Ser(c.ty, c.v)])>>)

ScalarKinds == {"Dual", "Dual2", "Dual3", "HyperDual", "HHD"}
TypesSerde ==
    {TD(k, F) : k \in ScalarKinds}
    \cup {TD("Dual", TD("Dual", F)), TD("Dual", TD("Dual", TD("Dual", F))), TD("Dual2", TD("Dual", F)),
          TD("Dual3", TD("Dual", F)), TD("HyperDual", TD("Dual", F)), TD("Dual", TD("Dual2", F)),
          TD("Dual2", TD("Dual2", F)), TD("HHD", TD("Dual", F)), TD("Dual", TD("HyperDual", F)),
          TD("Dual", TD("Dual3", F)), TD("HyperDual", TD("HyperDual", F)), TD("Dual", TD("HHD", F))}
VariantsQuick == 1..6
VariantsThorough == 1..60
=============================================================================
