------------------------------- MODULE RingP -------------------------------
(***************************************************************************)
(* The scalar interpretation "L/P": Laurent polynomials over Q (Poly.tla)  *)
(* packaged behind the scalar interface that DualB and JetA expect.        *)
(* Elementary functions of a CONSTANT polynomial evaluate to the exact     *)
(* value where that is rational (exp 0, sqrt 25/16, ...) and otherwise to  *)
(* an opaque symbol such as "sin(3/5)"; functions of non-constant          *)
(* polynomials are not needed (identities are proved with f0..f3 as        *)
(* indeterminates) and raise a TLC error if ever requested.                *)
(***************************************************************************)
EXTENDS Poly

QStr(q) == IF q[2] = 1 THEN ToString(q[1]) ELSE ToString(q[1]) \o "/" \o ToString(q[2])
Sym(fn, q) == PVar(fn \o "(" \o QStr(q) \o ")")

\* exact special values: <<fn, argument, value>>
PFunExact(fn, q) ==
    CASE fn = "sqrt" /\ QHasSqrt(q) -> <<TRUE, PConst(QSqrt(q))>>
      [] fn = "cbrt" /\ QHasCbrt(q) -> <<TRUE, PConst(QCbrt(q))>>
      [] fn \in {"sin", "sinh", "asin", "atan", "asinh", "atanh", "exp_m1", "ln_1p", "tan", "tanh"}
            /\ QIsZero(q) -> <<TRUE, P0>>
      [] fn \in {"cos", "cosh", "exp", "exp2"} /\ QIsZero(q) -> <<TRUE, P1>>
      [] fn \in {"ln", "log2", "log10", "acosh"} /\ q = Q1 -> <<TRUE, P0>>
      [] OTHER -> <<FALSE, P0>>

PFun(fn, t) ==
    IF fn = "const" THEN PVar(t)                       \* t is the constant's name, e.g. "ln2"
    ELSE IF fn = "lnF" THEN (IF t = Q1 THEN P0 ELSE PVar("ln(" \o QStr(t) \o ")"))
    ELSE IF ~PIsConst(t) THEN Assert(FALSE, <<"PFun of a non-constant polynomial", fn, t>>)
    ELSE LET q == PConstVal(t)
             ex == PFunExact(fn, q)
         IN  IF ex[1] THEN ex[2] ELSE Sym(fn, q)

PPowi(t, n) == IF n >= 0 THEN PPowNat(t, n) ELSE PPowNat(PInv(t), -n)
\* real power: integral exponents are ordinary powers, others opaque symbols at constants
PPowf(t, q) ==
    IF QIsInt(q) THEN PPowi(t, q[1])
    ELSE IF q[2] = 2 /\ PIsConst(t) /\ QHasSqrt(PConstVal(t)) /\ QSign(PConstVal(t)) > 0
         THEN PConst(QPow(QSqrt(PConstVal(t)), q[1]))          \* exact half-integer powers of squares
    ELSE IF PIsConst(t) /\ PConstVal(t) = Q1 THEN P1
    ELSE IF PIsConst(t) THEN PVar("pow(" \o QStr(PConstVal(t)) \o "," \o QStr(q) \o ")")
    ELSE Assert(FALSE, <<"PPowf of a non-constant polynomial", t, q>>)
PLog(t, base) == PVar("log(" \o QStr(PConstVal(t)) \o "," \o QStr(base) \o ")")
PAtan2(t, u)  == PVar("atan2(" \o QStr(PConstVal(t)) \o "," \o QStr(PConstVal(u)) \o ")")

PRe(t) == PConstVal(t)          \* only meaningful at constant real parts
=============================================================================
