------------------------------- MODULE RingQ -------------------------------
(***************************************************************************)
(* The scalar interpretation "Q": exact rationals behind the scalar        *)
(* interface of DualB.  Elementary functions are defined ONLY at points    *)
(* where the value is rational and exactly computed by IEEE arithmetic     *)
(* (sqrt of a ratio of squares, exp 0, ln 1, sin 0, ...); everywhere else  *)
(* they raise a TLC error, so a machine action that is not guarded to an   *)
(* exact point cannot silently produce a value.                            *)
(***************************************************************************)
EXTENDS Rat, TLC

ZeroAtZero == {"sin", "sinh", "asin", "atan", "asinh", "atanh", "exp_m1", "ln_1p", "tan", "tanh"}
OneAtZero  == {"cos", "cosh", "exp", "exp2"}
ZeroAtOne  == {"ln", "log2", "log10", "acosh"}

QFunDefined(fn, q) ==
    \/ (fn = "sqrt" /\ QHasSqrt(q))
    \/ (fn = "cbrt" /\ QHasCbrt(q))
    \/ (fn \in ZeroAtZero \cup OneAtZero /\ QIsZero(q))
    \/ (fn \in ZeroAtOne /\ q = Q1)
QFun(fn, q) ==
    CASE fn = "sqrt" /\ QHasSqrt(q) -> QSqrt(q)
      [] fn = "cbrt" /\ QHasCbrt(q) -> QCbrt(q)
      [] fn \in ZeroAtZero /\ QIsZero(q) -> Q0
      [] fn \in OneAtZero /\ QIsZero(q) -> Q1
      [] fn \in ZeroAtOne /\ q = Q1 -> Q0
      [] OTHER -> Assert(FALSE, <<"QFun: no exact value", fn, q>>)
QPowf(t, q) == IF QIsInt(q) THEN QPow(t, q[1])
               ELSE IF q[2] = 2 /\ QHasSqrt(t) THEN QPow(QSqrt(t), q[1])
               ELSE Assert(FALSE, <<"QPowf: no exact value", t, q>>)
QLog(t, base)  == IF t = Q1 THEN Q0 ELSE Assert(FALSE, <<"QLog", t, base>>)
QAtan2(t, u)   == IF QIsZero(t) /\ QSign(u) > 0 THEN Q0 ELSE Assert(FALSE, <<"QAtan2", t, u>>)
=============================================================================
