------------------------------- MODULE Views -------------------------------
(***************************************************************************)
(* C04: every derivative that can be obtained through more than one dual   *)
(* number type is the same through each of them.  A MEMBER is a type       *)
(* descriptor together with a seeding (which stored locations of the input *)
(* variables are set to one) and a list of READS: location |-> the partial *)
(* derivative (multi-index over the variables) it must hold.  TLC proves   *)
(* every read: the generic polynomial F (symbolic coefficients, symbolic   *)
(* point; one variable: quartic, two variables: cubic) is evaluated with   *)
(* layer-A arithmetic on the flattened jets of the member (Tables.tla) and *)
(* the location is compared with the FORMAL partial derivative of F.       *)
(* Proved reads are exported as the correspondence table that the harness  *)
(* uses to compare the real types with one another on arbitrary programs.  *)
(* The table covers: Dual3 / Dual<Dual<Dual>> / HHD (third order, one      *)
(* variable); Dual2, Dual2Vec, HyperDual, HyperDualVec, Dual<Dual> (second *)
(* and mixed); DualVec versus Dual one direction at a time; fourth order   *)
(* through Dual2<Dual2> and Dual3<Dual>.                                   *)
(***************************************************************************)
EXTENDS Tables

\* ---- the generic polynomial in nv variables
RECURSIVE ExpVecs(_, _)
ExpVecs(nv, deg) ==
    IF nv = 0 THEN {<<>>} ELSE UNION {{<<e>> \o r : r \in ExpVecs(nv - 1, deg - e)} : e \in 0..deg}
Vn(i) == "x" \o ToString(i)
EvCode(ev) == LET Acc[i \in 0..Len(ev)] == IF i = 0 THEN 0 ELSE 5 * Acc[i - 1] + ev[i] IN Acc[Len(ev)]
DegOf(nv) == IF nv = 1 THEN 4 ELSE 3
CoefSym(ev) == PVar("c" \o ToString(EvCode(ev)))
MonoOf(ev) ==
    LET S == {i \in 1..Len(ev) : ev[i] > 0} IN [v \in {Vn(i) : i \in S} |-> ev[CHOOSE i \in S : Vn(i) = v]]
FPoly(nv) == FoldSet(LAMBDA ev, acc : PAdd(acc, PMul(CoefSym(ev), PTerm(Q1, MonoOf(ev)))), P0, ExpVecs(nv, DegOf(nv)))
PD(pp, v) ==
    FoldSet(LAMBDA mm, acc : IF v \in DOMAIN mm
                             THEN PAdd(acc, PTerm(QMul(pp[mm], QInt(mm[v])), MMul(mm, MPow(v, -1)))) ELSE acc,
            P0, DOMAIN pp)
RECURSIVE PDk(_, _, _)
PDk(pp, v, k) == IF k = 0 THEN pp ELSE PDk(PD(pp, v), v, k - 1)
Partial(nv, alpha) ==     \* alpha: sequence of orders per variable
    LET Acc[i \in 0..nv] == IF i = 0 THEN FPoly(nv) ELSE PDk(Acc[i - 1], Vn(i), alpha[i]) IN Acc[nv]

\* ---- layer-A evaluation of F on the flattened jets of a member
SlotSet(ty) == {l.s : l \in Locs(ty, 1)}
PathOf(ty, sl) == (CHOOSE l \in Locs(ty, 1) : l.s = sl).p
\* input variable i: real location = x_i, seeded locations = 1, the rest 0
InputJet(ty, i, seeds) ==
    [sl \in SlotSet(ty) |-> IF sl = <<>> THEN PVar(Vn(i))
                            ELSE IF PathOf(ty, sl) \in seeds THEN P1 ELSE P0]
RECURSIVE PowJ(_, _, _)
PowJ(parts, a, e) == IF e = 0 THEN A!ConstA(parts, P1) ELSE A!MulA(PowJ(parts, a, e - 1), a)
EvalJet(ty, nv, seedsPerVar) ==
    LET parts == SlotSet(ty)
        xs == [i \in 1..nv |-> InputJet(ty, i, seedsPerVar[i])]
        term(ev) == LET Acc[i \in 0..nv] == IF i = 0 THEN A!ConstA(parts, CoefSym(ev))
                                            ELSE A!MulA(Acc[i - 1], PowJ(parts, xs[i], ev[i]))
                    IN  Acc[nv]
    IN  FoldSet(LAMBDA ev, acc : A!AddA(acc, term(ev)), A!ConstA(parts, P0), ExpVecs(nv, DegOf(nv)))

\* ---- members: [ty, nv, seeds (per variable: set of paths), reads (set of <<path, alpha>>)]
Mem(ty, nv, seeds, reads) == [ty |-> ty, nv |-> nv, seeds |-> seeds, reads |-> reads]
D == TD("Dual", F)
Members1 == {   \* one variable
    Mem(TD("Dual", F), 1, << {".eps"} >>, {<<".eps", <<1>>>>}),
    Mem(TD("Dual2", F), 1, << {".v1"} >>, {<<".v1", <<1>>>>, <<".v2", <<2>>>>}),
    Mem(TD("Dual3", F), 1, << {".v1"} >>, {<<".v1", <<1>>>>, <<".v2", <<2>>>>, <<".v3", <<3>>>>}),
    Mem(TD("HyperDual", F), 1, << {".eps1", ".eps2"} >>, {<<".eps1", <<1>>>>, <<".eps2", <<1>>>>, <<".eps1eps2", <<2>>>>}),
    Mem(TD("HHD", F), 1, << {".eps1", ".eps2", ".eps3"} >>,
        {<<".eps1", <<1>>>>, <<".eps3", <<1>>>>, <<".eps1eps2", <<2>>>>, <<".eps2eps3", <<2>>>>, <<".eps1eps2eps3", <<3>>>>}),
    Mem(TD("Dual", D), 1, << {".re.eps", ".eps.re"} >>, {<<".re.eps", <<1>>>>, <<".eps.re", <<1>>>>, <<".eps.eps", <<2>>>>}),
    Mem(TD("Dual", TD("Dual", D)), 1, << {".re.re.eps", ".re.eps.re", ".eps.re.re"} >>,
        {<<".eps.eps.eps", <<3>>>>, <<".re.eps.eps", <<2>>>>, <<".eps.re.eps", <<2>>>>, <<".eps.eps.re", <<2>>>>, <<".eps.re.re", <<1>>>>}),
    Mem(TD("Dual2", D), 1, << {".re.eps", ".v1.re"} >>, {<<".v2.eps", <<3>>>>, <<".v2.re", <<2>>>>, <<".v1.eps", <<2>>>>}),
    Mem(TD("Dual", TD("Dual2", F)), 1, << {".re.v1", ".eps.re"} >>, {<<".eps.v2", <<3>>>>, <<".re.v2", <<2>>>>, <<".eps.v1", <<2>>>>}),
    Mem(TD("Dual3", D), 1, << {".re.eps", ".v1.re"} >>, {<<".v3.eps", <<4>>>>, <<".v3.re", <<3>>>>, <<".v2.eps", <<3>>>>}),
    Mem(TD("Dual2", TD("Dual2", F)), 1, << {".re.v1", ".v1.re"} >>, {<<".v2.v2", <<4>>>>, <<".v2.v1", <<3>>>>, <<".v1.v2", <<3>>>>, <<".v2.re", <<2>>>>}),
    Mem(TD("HyperDual", D), 1, << {".re.eps", ".eps1.re", ".eps2.re"} >>, {<<".eps1eps2.eps", <<3>>>>, <<".eps1eps2.re", <<2>>>>}),
    Mem(TD("HHD", D), 1, << {".re.eps", ".eps1.re", ".eps2.re", ".eps3.re"} >>, {<<".eps1eps2eps3.eps", <<4>>>>, <<".eps1eps2eps3.re", <<3>>>>}),
    Mem(TDV("DualVec", 2, F), 1, << {".eps[1,1]", ".eps[2,1]"} >>, {<<".eps[1,1]", <<1>>>>, <<".eps[2,1]", <<1>>>>}),
    Mem(TDV("Dual2Vec", 2, F), 1, << {".v1[1,1]", ".v1[1,2]"} >>, {<<".v2[1,1]", <<2>>>>, <<".v2[1,2]", <<2>>>>, <<".v2[2,2]", <<2>>>>})
}
Members2 == {   \* two variables (x1, x2)
    Mem(TD("HyperDual", F), 2, << {".eps1"}, {".eps2"} >>, {<<".eps1", <<1, 0>>>>, <<".eps2", <<0, 1>>>>, <<".eps1eps2", <<1, 1>>>>}),
    Mem(TD("HyperDual", F), 2, << {".eps1", ".eps2"}, {} >>, {<<".eps1eps2", <<2, 0>>>>}),
    Mem(TD("Dual2", F), 2, << {".v1"}, {} >>, {<<".v1", <<1, 0>>>>, <<".v2", <<2, 0>>>>}),
    Mem(TD("Dual2", F), 2, << {}, {".v1"} >>, {<<".v1", <<0, 1>>>>, <<".v2", <<0, 2>>>>}),
    Mem(TD("Dual", F), 2, << {".eps"}, {} >>, {<<".eps", <<1, 0>>>>}),
    Mem(TD("Dual", F), 2, << {}, {".eps"} >>, {<<".eps", <<0, 1>>>>}),
    Mem(TD("Dual3", F), 2, << {".v1"}, {} >>, {<<".v3", <<3, 0>>>>}),
    Mem(TDV("DualVec", 2, F), 2, << {".eps[1,1]"}, {".eps[2,1]"} >>, {<<".eps[1,1]", <<1, 0>>>>, <<".eps[2,1]", <<0, 1>>>>}),
    Mem(TDV("Dual2Vec", 2, F), 2, << {".v1[1,1]"}, {".v1[1,2]"} >>,
        {<<".v1[1,1]", <<1, 0>>>>, <<".v1[1,2]", <<0, 1>>>>, <<".v2[1,1]", <<2, 0>>>>, <<".v2[1,2]", <<1, 1>>>>,
         <<".v2[2,1]", <<1, 1>>>>, <<".v2[2,2]", <<0, 2>>>>}),
    Mem(TDH(2, 2, F), 2, << {".eps1[1,1]", ".eps2[1,1]"}, {".eps1[2,1]", ".eps2[1,2]"} >>,
        {<<".eps1eps2[1,1]", <<2, 0>>>>, <<".eps1eps2[1,2]", <<1, 1>>>>, <<".eps1eps2[2,1]", <<1, 1>>>>, <<".eps1eps2[2,2]", <<0, 2>>>>,
         <<".eps1[2,1]", <<0, 1>>>>, <<".eps2[1,1]", <<1, 0>>>>}),
    Mem(TDH(1, 2, F), 2, << {".eps1[1,1]", ".eps2[1,1]"}, {".eps2[1,2]"} >>,
        {<<".eps1eps2[1,1]", <<2, 0>>>>, <<".eps1eps2[1,2]", <<1, 1>>>>}),
    Mem(TD("Dual", D), 2, << {".re.eps"}, {".eps.re"} >>, {<<".eps.eps", <<1, 1>>>>, <<".re.eps", <<1, 0>>>>, <<".eps.re", <<0, 1>>>>}),
    Mem(TD("HHD", F), 2, << {".eps1", ".eps2"}, {".eps3"} >>,
        {<<".eps1eps2", <<2, 0>>>>, <<".eps1eps3", <<1, 1>>>>, <<".eps2eps3", <<1, 1>>>>, <<".eps1eps2eps3", <<2, 1>>>>}),
    Mem(TD("Dual2", D), 2, << {".v1.re"}, {".re.eps"} >>, {<<".v2.eps", <<2, 1>>>>, <<".v1.eps", <<1, 1>>>>}),
    Mem(TDV("DualVec", 2, D), 2, << {".eps[1,1].re", ".re.eps"}, {".eps[2,1].re"} >>,
        {<<".eps[1,1].eps", <<2, 0>>>>, <<".eps[2,1].eps", <<1, 1>>>>})
}
Members3 == {   \* three variables, one direction each: the only seeding under which the three mixed second-order parts of a
                \* third-order type hold three DIFFERENT derivatives (with one or two variables two of them coincide)
    Mem(TD("HHD", F), 3, << {".eps1"}, {".eps2"}, {".eps3"} >>,
        {<<".eps1", <<1, 0, 0>>>>, <<".eps2", <<0, 1, 0>>>>, <<".eps3", <<0, 0, 1>>>>, <<".eps1eps2", <<1, 1, 0>>>>,
         <<".eps1eps3", <<1, 0, 1>>>>, <<".eps2eps3", <<0, 1, 1>>>>, <<".eps1eps2eps3", <<1, 1, 1>>>>}),
    Mem(TD("Dual", TD("Dual", D)), 3, << {".re.re.eps"}, {".re.eps.re"}, {".eps.re.re"} >>,
        {<<".eps.eps.eps", <<1, 1, 1>>>>, <<".re.eps.eps", <<1, 1, 0>>>>, <<".eps.re.eps", <<1, 0, 1>>>>, <<".eps.eps.re", <<0, 1, 1>>>>,
         <<".re.re.eps", <<1, 0, 0>>>>, <<".re.eps.re", <<0, 1, 0>>>>, <<".eps.re.re", <<0, 0, 1>>>>}),
    Mem(TD("HyperDual", D), 3, << {".re.eps"}, {".eps1.re"}, {".eps2.re"} >>,
        {<<".eps1eps2.eps", <<1, 1, 1>>>>, <<".eps1eps2.re", <<0, 1, 1>>>>, <<".eps1.eps", <<1, 1, 0>>>>, <<".eps2.eps", <<1, 0, 1>>>>}),
    Mem(TD("HyperDual", F), 3, << {".eps1"}, {".eps2"}, {} >>, {<<".eps1eps2", <<1, 1, 0>>>>}),
    Mem(TD("HyperDual", F), 3, << {".eps1"}, {}, {".eps2"} >>, {<<".eps1eps2", <<1, 0, 1>>>>}),
    Mem(TD("HyperDual", F), 3, << {}, {".eps1"}, {".eps2"} >>, {<<".eps1eps2", <<0, 1, 1>>>>}),
    Mem(TD("Dual", F), 3, << {".eps"}, {}, {} >>, {<<".eps", <<1, 0, 0>>>>}),
    Mem(TD("Dual", F), 3, << {}, {".eps"}, {} >>, {<<".eps", <<0, 1, 0>>>>}),
    Mem(TD("Dual", F), 3, << {}, {}, {".eps"} >>, {<<".eps", <<0, 0, 1>>>>})
}
Members2b == {  \* further two-variable seedings of the third-order type
    Mem(TD("HHD", F), 2, << {".eps1"}, {".eps2", ".eps3"} >>,
        {<<".eps1eps2", <<1, 1>>>>, <<".eps1eps3", <<1, 1>>>>, <<".eps2eps3", <<0, 2>>>>, <<".eps1eps2eps3", <<1, 2>>>>}),
    Mem(TD("HHD", F), 2, << {".eps1", ".eps3"}, {".eps2"} >>,
        {<<".eps1eps3", <<2, 0>>>>, <<".eps1eps2", <<1, 1>>>>, <<".eps2eps3", <<1, 1>>>>, <<".eps1eps2eps3", <<2, 1>>>>}),
    Mem(TD("Dual3", F), 2, << {}, {".v1"} >>, {<<".v3", <<0, 3>>>>, <<".v2", <<0, 2>>>>}),
    Mem(TD("Dual2", D), 2, << {".re.eps"}, {".v1.re"} >>, {<<".v2.eps", <<1, 2>>>>, <<".v2.re", <<0, 2>>>>})
}
Members == Members1 \cup Members2 \cup Members2b \cup Members3

ReadOK(mb, rd) == EvalJet(mb.ty, mb.nv, mb.seeds)[(CHOOSE l \in Locs(mb.ty, 1) : l.p = rd[1]).s] = Partial(mb.nv, rd[2])

VARIABLE vw
\* (ob is the variable of the extended module Tables; it is idle here)
VInit == vw \in Members /\ ob = [k |-> "root"]
VNext == UNCHANGED <<vw, ob>>
VSpec == VInit /\ [][VNext]_<<vw, ob>>

ViewsAgree == \A rd \in vw.reads : ReadOK(vw, rd)
\* the advertised maximum order of a (nested) type is the sum over its levels
OrderIsSumOfLevels == NDeriv(vw.ty) = (IF vw.ty.inner.k = "F" THEN OrderK(vw.ty.k) ELSE OrderK(vw.ty.k) + NDeriv(vw.ty.inner))
ExportViews ==
    PrintT(<<"VIEW", ToJson([ty |-> vw.ty, nv |-> vw.nv, nderiv |-> NDeriv(vw.ty),
                             seeds |-> [i \in 1..vw.nv |-> SetToSeq(vw.seeds[i])],
                             reads |-> LET q == SetToSeq(vw.reads) IN [k \in 1..Len(q) |-> [path |-> q[k][1], alpha |-> q[k][2]]]])>>)
=============================================================================
