------------------------------- MODULE Convert -------------------------------
(***************************************************************************)
(* C13: simba's subset / superset conversions between dual numbers over    *)
(* f32 and f64 and from plain floats.                                      *)
(*  - scalars: rationals; In32(q) says q is an f32 number; Round32 rounds  *)
(*    to 24 significant bits (ties to even)                                *)
(*  - Derivative container: absent | matrix; map_borrowed /                *)
(*    try_map_borrowed (an absent part maps to an absent part - since      *)
(*    "fix: checked narrowing ... absent derivative part failed") /        *)
(*    is_in_subset (map_or(true, all))                                     *)
(*  - the four SubsetOf impls are part-wise; SupersetOf<f32|f64> lifts a   *)
(*    float to a constant and extracts the real part                       *)
(* Invariants: FromSupersetIffInSubset, WidenNarrowId, NarrowIsRounding,   *)
(* LiftIsConstant.                                                         *)
(* The second half is the CELL PROTOCOL of map_borrowed / try_map_borrowed *)
(* (Matrix::uninit, one write per cell through get_unchecked_mut,          *)
(* assume_init) as a step machine over all shapes 0..3 x 0..3 and all      *)
(* failure points: every cell written exactly once with in-range indices,  *)
(* assume_init only on a fully written matrix, early exit never calls it.  *)
(***************************************************************************)
EXTENDS Rat, Sequences, FiniteSets, TLC

---------------------------------------------------------------------------
(* float widths *)
RECURSIVE Pow2(_)
Pow2(k) == IF k = 0 THEN 1 ELSE 2 * Pow2(k - 1)
CONSTANT MembershipRule     \* "simba": simba's rule for primitive floats - every f64 is a member of the f32
                            \*          subset (narrowing is lossy but total);  "representable": exactly the f32 numbers
Rep32(q) == QIsDyadic(q) /\ QSigBits(q) <= 24             \* (exponent range is not an issue for our values)
In32(q) == IF MembershipRule = "simba" THEN TRUE ELSE Rep32(q)
\* round an INTEGER or dyadic rational with a small denominator to 24 significant bits, ties to even
Round32(q) ==
    IF Rep32(q) THEN q
    ELSE LET n == IAbs(q[1])  s == BitLen(n) - 24            \* q[2] = 1 for the non-f32 values we use
             unit == Pow2(s)
             lo == (n \div unit) * unit
             rem == n - lo
             up == IF 2 * rem > unit \/ (2 * rem = unit /\ (n \div unit) % 2 = 1) THEN lo + unit ELSE lo
         IN  <<QSign(q) * up, q[2]>>

Scalars64 == {<<3, 2>>, <<-5, 1>>, <<0, 1>>, <<33554433, 1>>, <<16777217, 1>>, <<33554435, 1>>, <<1, 4>>}   \* 2^25+1, 2^24+1, 2^25+3
Scalars32 == {q \in Scalars64 : Rep32(q)}

---------------------------------------------------------------------------
(* Derivative container *)
None == [p |-> FALSE]
Some(m) == [p |-> TRUE, m |-> m]                          \* m: a sequence of scalars (the storage order is irrelevant here)
MapBorrowed(d, f(_)) == IF d.p THEN Some([i \in 1..Len(d.m) |-> f(d.m[i])]) ELSE None
\* try_map_borrowed: None (failure) as soon as f fails on an element; an absent derivative maps to an absent one
TryMapBorrowed(d, ok(_), f(_)) ==
    IF ~d.p THEN [some |-> TRUE, v |-> None]
    ELSE IF \A i \in 1..Len(d.m) : ok(d.m[i]) THEN [some |-> TRUE, v |-> Some([i \in 1..Len(d.m) |-> f(d.m[i])])]
    ELSE [some |-> FALSE]
DIsInSubset(d) == (~d.p) \/ (\A i \in 1..Len(d.m) : In32(d.m[i]))        \* map_or(true, all)

\* a vector dual number [re, parts: sequence of Derivatives]; scalar types: parts are 1-element present derivatives
ToSuperset(x) == [re |-> x.re, parts |-> [k \in 1..Len(x.parts) |-> MapBorrowed(x.parts[k], LAMBDA q : q)]]   \* widening is exact
IsInSubset(y) == In32(y.re) /\ \A k \in 1..Len(y.parts) : DIsInSubset(y.parts[k])
FromSuperset(y) ==
    IF ~In32(y.re) THEN [some |-> FALSE]
    ELSE LET ps == [k \in 1..Len(y.parts) |-> TryMapBorrowed(y.parts[k], In32, Round32)]      \* to_subset = member ? Some(rounded) : None
         IN  IF \A k \in 1..Len(ps) : ps[k].some THEN [some |-> TRUE, v |-> [re |-> Round32(y.re), parts |-> [k \in 1..Len(ps) |-> ps[k].v]]]
             ELSE [some |-> FALSE]
FromSupersetUnchecked(y) == [re |-> Round32(y.re), parts |-> [k \in 1..Len(y.parts) |-> MapBorrowed(y.parts[k], Round32)]]
LiftFloat(f, nparts) == [re |-> f, parts |-> [k \in 1..nparts |-> None]]       \* from_subset(&float): from_re
ExtractFloat(x) == x.re                                                        \* to_subset_unchecked() -> float

DerivSet(S, n) == {None} \cup {Some(m) : m \in [1..n -> S]}
Values(S, nparts, n) == {[re |-> r, parts |-> ps] : r \in S, ps \in [1..nparts -> DerivSet(S, n)]}

VARIABLE v          \* a 64-bit value under test, or a protocol state
vars == <<v>>

FromSupersetIffInSubset == (v.k = "val") => (FromSuperset(v.x).some <=> IsInSubset(v.x))
NarrowIsRounding == (v.k = "val" /\ IsInSubset(v.x)) => FromSuperset(v.x).v = FromSupersetUnchecked(v.x)
WidenNarrowId == (v.k = "val32") => (FromSuperset(ToSuperset(v.x)).some /\ FromSuperset(ToSuperset(v.x)).v = v.x)
LiftIsConstant == (v.k = "val32") => (\A k \in 1..Len(v.x.parts) : ~LiftFloat(v.x.re, Len(v.x.parts)).parts[k].p)
                                      /\ ExtractFloat(LiftFloat(v.x.re, Len(v.x.parts))) = v.x.re

---------------------------------------------------------------------------
(* the MaybeUninit cell protocol of map_borrowed / try_map_borrowed *)
\* state: [k |-> "cell", r, c, i, j, written (set of <<i,j>>), fail (cell at which f fails, or <<0,0>>), pc]
Cells(r, c) == {<<i, j>> : i \in 0..(r - 1), j \in 0..(c - 1)}
ProtoInit(r, c, fail) == [k |-> "cell", r |-> r, c |-> c, i |-> 0, j |-> 0, written |-> {}, fail |-> fail, pc |-> "loop",
                          twice |-> FALSE, oob |-> FALSE]
\* for j in 0..ncols { for i in 0..nrows { *res.get_unchecked_mut(i, j) = MaybeUninit::new(f(a)?) } }
ProtoStep(s) ==
    IF s.pc # "loop" THEN s
    ELSE IF s.c = 0 \/ s.r = 0 \/ s.j >= s.c THEN [s EXCEPT !.pc = "assume_init"]
    ELSE IF <<s.i, s.j>> = s.fail THEN [s EXCEPT !.pc = "early_exit"]          \* f(a)? returns None: no write, return
    ELSE LET w == [s EXCEPT !.written = s.written \cup {<<s.i, s.j>>},
                            !.twice = s.twice \/ (<<s.i, s.j>> \in s.written),
                            !.oob = s.oob \/ ~(s.i < s.r /\ s.j < s.c)]
         IN  IF s.i + 1 < s.r THEN [w EXCEPT !.i = s.i + 1] ELSE [w EXCEPT !.i = 0, !.j = s.j + 1]

Init == \/ \E nparts \in 1..2, n \in 1..2 : \E x \in Values(Scalars64, nparts, n) : v = [k |-> "val", x |-> x]
        \/ \E nparts \in 1..2, n \in 1..2 : \E x \in Values(Scalars32, nparts, n) : v = [k |-> "val32", x |-> x]
        \/ \E r \in 0..3, c \in 0..3 : \E fail \in Cells(r, c) \cup {<<9, 9>>} : v = ProtoInit(r, c, fail)
Next == v.k = "cell" /\ v.pc = "loop" /\ v' = ProtoStep(v)
Spec == Init /\ [][Next]_vars

CellProtocol ==
    v.k = "cell" =>
        /\ ~v.twice /\ ~v.oob
        /\ (v.pc = "assume_init" => v.written = Cells(v.r, v.c))          \* fully initialised
        /\ (v.pc = "early_exit" => v.fail \in Cells(v.r, v.c))            \* only when f failed; assume_init not reached
        /\ (v.fail \in Cells(v.r, v.c) => v.pc # "assume_init")
=============================================================================
