------------------------------ MODULE DerivAlgP ------------------------------
(***************************************************************************)
(* C07, proof companion of DerivOps.tla (checked with TLAPS, not TLC).     *)
(*                                                                         *)
(* DerivOps checks with TLC, on a bounded set of matrices, that every      *)
(* operator of the container Derivative(Option<Matrix>) commutes with the  *)
(* refinement mapping Dense (absent |-> zeros).  Here the same statement   *)
(* is PROVED for every value: matrices are the elements of an arbitrary    *)
(* set M with operations of which only the laws of a zero element are      *)
(* assumed (they hold for matrices over any ring; over IEEE floats they     *)
(* hold up to the sign of a zero).  The container operators are the same   *)
(* match expressions as in DualB.tla (DAddMatch, DSubMatch, DAddAssign,    *)
(* DSubAssign, DNeg, DMulT, DDivT, DMulAssignT, DDivAssignT, DMul).        *)
(***************************************************************************)
CONSTANTS M, Zero,
          MAdd(_, _), MSub(_, _), MNeg(_), MScale(_, _), MDivS(_, _), MMul(_, _),
          S                                   \* scalars

ASSUME ZeroInM == Zero \in M
ASSUME AddZeroL == \A x \in M : MAdd(Zero, x) = x
ASSUME AddZeroR == \A x \in M : MAdd(x, Zero) = x
ASSUME SubZeroR == \A x \in M : MSub(x, Zero) = x
ASSUME SubZeroL == \A x \in M : MSub(Zero, x) = MNeg(x)
ASSUME NegZero == MNeg(Zero) = Zero
ASSUME ScaleZero == \A s \in S : MScale(Zero, s) = Zero
ASSUME DivZero == \A s \in S : MDivS(Zero, s) = Zero
ASSUME MulZeroL == \A x \in M : MMul(Zero, x) = Zero
ASSUME MulZeroR == \A x \in M : MMul(x, Zero) = Zero

Some(m) == [p |-> TRUE, m |-> m]
None == [p |-> FALSE]
Deriv == {None} \cup {Some(m) : m \in M}
Dense(d) == IF d.p THEN d.m ELSE Zero

DAdd(a, b) ==
    CASE a.p /\ b.p   -> Some(MAdd(a.m, b.m))
      [] a.p /\ ~b.p  -> a
      [] ~a.p /\ b.p  -> b
      [] OTHER        -> None
DSub(a, b) ==
    CASE a.p /\ b.p   -> Some(MSub(a.m, b.m))
      [] a.p /\ ~b.p  -> a
      [] ~a.p /\ b.p  -> Some(MNeg(b.m))
      [] OTHER        -> None
DNeg(a) == IF a.p THEN Some(MNeg(a.m)) ELSE None
DAddAssign(a, b) ==
    CASE a.p /\ b.p   -> Some(MAdd(a.m, b.m))
      [] ~a.p /\ b.p  -> b
      [] OTHER        -> a
DSubAssign(a, b) ==
    CASE a.p /\ b.p   -> Some(MSub(a.m, b.m))
      [] ~a.p /\ b.p  -> Some(MNeg(b.m))
      [] OTHER        -> a
DMulT(d, s) == IF d.p THEN Some(MScale(d.m, s)) ELSE None
DDivT(d, s) == IF d.p THEN Some(MDivS(d.m, s)) ELSE None
DMulAssignT(a, s) == IF a.p THEN Some(MScale(a.m, s)) ELSE a
DDivAssignT(a, s) == IF a.p THEN Some(MDivS(a.m, s)) ELSE a
DMul(a, b) == IF a.p /\ b.p THEN Some(MMul(a.m, b.m)) ELSE None

---------------------------------------------------------------------------
LEMMA DerivCases == \A d \in Deriv : (d.p = TRUE /\ d.m \in M /\ d = Some(d.m)) \/ (d.p = FALSE /\ d = None)
  BY DEF Deriv, Some, None

THEOREM AddDense == \A a, b \in Deriv : Dense(DAdd(a, b)) = MAdd(Dense(a), Dense(b))
<1> TAKE a, b \in Deriv
<1>1. CASE a.p = TRUE /\ b.p = TRUE
      BY <1>1, DerivCases DEF DAdd, Dense, Some
<1>2. CASE a.p = TRUE /\ b.p = FALSE
      BY <1>2, DerivCases, AddZeroR DEF DAdd, Dense, Some
<1>3. CASE a.p = FALSE /\ b.p = TRUE
      BY <1>3, DerivCases, AddZeroL DEF DAdd, Dense, Some
<1>4. CASE a.p = FALSE /\ b.p = FALSE
      BY <1>4, DerivCases, AddZeroL, ZeroInM DEF DAdd, Dense, Some, None
<1> QED BY <1>1, <1>2, <1>3, <1>4, DerivCases

THEOREM SubDense == \A a, b \in Deriv : Dense(DSub(a, b)) = MSub(Dense(a), Dense(b))
<1> TAKE a, b \in Deriv
<1>1. CASE a.p = TRUE /\ b.p = TRUE
      BY <1>1, DerivCases DEF DSub, Dense, Some
<1>2. CASE a.p = TRUE /\ b.p = FALSE
      BY <1>2, DerivCases, SubZeroR DEF DSub, Dense, Some
<1>3. CASE a.p = FALSE /\ b.p = TRUE
      BY <1>3, DerivCases, SubZeroL DEF DSub, Dense, Some
<1>4. CASE a.p = FALSE /\ b.p = FALSE
      BY <1>4, DerivCases, SubZeroR, ZeroInM DEF DSub, Dense, Some, None
<1> QED BY <1>1, <1>2, <1>3, <1>4, DerivCases

THEOREM NegDense == \A a \in Deriv : Dense(DNeg(a)) = MNeg(Dense(a))
<1> TAKE a \in Deriv
<1>1. CASE a.p = TRUE
      BY <1>1, DerivCases DEF DNeg, Dense, Some
<1>2. CASE a.p = FALSE
      BY <1>2, DerivCases, NegZero DEF DNeg, Dense, None
<1> QED BY <1>1, <1>2, DerivCases

THEOREM AddAssignDense == \A a, b \in Deriv : Dense(DAddAssign(a, b)) = MAdd(Dense(a), Dense(b))
<1> TAKE a, b \in Deriv
<1>1. CASE a.p = TRUE /\ b.p = TRUE
      BY <1>1, DerivCases DEF DAddAssign, Dense, Some
<1>2. CASE a.p = TRUE /\ b.p = FALSE
      BY <1>2, DerivCases, AddZeroR DEF DAddAssign, Dense, Some
<1>3. CASE a.p = FALSE /\ b.p = TRUE
      BY <1>3, DerivCases, AddZeroL DEF DAddAssign, Dense, Some
<1>4. CASE a.p = FALSE /\ b.p = FALSE
      BY <1>4, DerivCases, AddZeroL, ZeroInM DEF DAddAssign, Dense, Some, None
<1> QED BY <1>1, <1>2, <1>3, <1>4, DerivCases

THEOREM SubAssignDense == \A a, b \in Deriv : Dense(DSubAssign(a, b)) = MSub(Dense(a), Dense(b))
<1> TAKE a, b \in Deriv
<1>1. CASE a.p = TRUE /\ b.p = TRUE
      BY <1>1, DerivCases DEF DSubAssign, Dense, Some
<1>2. CASE a.p = TRUE /\ b.p = FALSE
      BY <1>2, DerivCases, SubZeroR DEF DSubAssign, Dense, Some
<1>3. CASE a.p = FALSE /\ b.p = TRUE
      BY <1>3, DerivCases, SubZeroL DEF DSubAssign, Dense, Some
<1>4. CASE a.p = FALSE /\ b.p = FALSE
      BY <1>4, DerivCases, SubZeroR, ZeroInM DEF DSubAssign, Dense, Some, None
<1> QED BY <1>1, <1>2, <1>3, <1>4, DerivCases

THEOREM ScaleDense == \A a \in Deriv : \A s \in S :
                         /\ Dense(DMulT(a, s)) = MScale(Dense(a), s)
                         /\ Dense(DDivT(a, s)) = MDivS(Dense(a), s)
                         /\ Dense(DMulAssignT(a, s)) = MScale(Dense(a), s)
                         /\ Dense(DDivAssignT(a, s)) = MDivS(Dense(a), s)
<1> TAKE a \in Deriv
<1> TAKE s \in S
<1>1. CASE a.p = TRUE
      BY <1>1, DerivCases DEF DMulT, DDivT, DMulAssignT, DDivAssignT, Dense, Some
<1>2. CASE a.p = FALSE
      BY <1>2, DerivCases, ScaleZero, DivZero DEF DMulT, DDivT, DMulAssignT, DDivAssignT, Dense, None
<1> QED BY <1>1, <1>2, DerivCases

THEOREM MulDense == \A a, b \in Deriv : Dense(DMul(a, b)) = MMul(Dense(a), Dense(b))
<1> TAKE a, b \in Deriv
<1>1. CASE a.p = TRUE /\ b.p = TRUE
      BY <1>1, DerivCases DEF DMul, Dense, Some
<1>2. CASE a.p = TRUE /\ b.p = FALSE
      BY <1>2, DerivCases, MulZeroR DEF DMul, Dense, None
<1>3. CASE a.p = FALSE /\ b.p = TRUE
      BY <1>3, DerivCases, MulZeroL DEF DMul, Dense, None
<1>4. CASE a.p = FALSE /\ b.p = FALSE
      BY <1>4, DerivCases, MulZeroL, ZeroInM DEF DMul, Dense, None
<1> QED BY <1>1, <1>2, <1>3, <1>4, DerivCases
=============================================================================
