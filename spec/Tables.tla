------------------------------- MODULE Tables -------------------------------
(***************************************************************************)
(* Export of what layer A prescribes, as data: for every type descriptor   *)
(* (also nested ones) and every stored location the polynomial of          *)
(*     product   a * b           (Leibniz)                                 *)
(*     quotient  a / b = a * recip(b),  recip(b) = Faa di Bruno with the   *)
(*               tower r_k = (-1)^k k! (1/b.re)^(k+1)                      *)
(*     chain     g(a)            (Faa di Bruno with symbols f0..f4)        *)
(* in the symbols "a<path>", "b<path>", "binv" (= 1/b<re-path>), "f0".."f4".*)
(* A nested type is handled by FLATTENING: the slots of a location are the *)
(* slots of the outer location followed by those of the inner one, with    *)
(* direction labels made distinct per nesting level.  The Rust harness is  *)
(* a table interpreter: it contains no differentiation formula of its own. *)
(* For the non-nested types Refine.tla proves that the coded rules (layer  *)
(* B) equal these polynomials.                                             *)
(***************************************************************************)
EXTENDS RingP, Shapes, Json, SequencesExt

CONSTANT TypeSet

A == INSTANCE JetA WITH SAdd <- PAdd, SMul <- PMul, SNeg <- PNeg, SZero <- P0, SOne <- P1

IJ(i, j) == "[" \o ToString(i) \o "," \o ToString(j) \o "]"

\* locations of ONE level: path component and slot (direction labels 1..)
LocsK(ty) ==
    LET k == ty.k IN
    {[p |-> ".re", s |-> <<>>]} \cup
    CASE k = "Dual"  -> {[p |-> ".eps", s |-> <<1>>]}
      [] k = "Dual2" -> {[p |-> ".v1", s |-> <<1>>], [p |-> ".v2", s |-> <<1, 1>>]}
      [] k = "Dual3" -> {[p |-> ".v1", s |-> <<1>>], [p |-> ".v2", s |-> <<1, 1>>], [p |-> ".v3", s |-> <<1, 1, 1>>]}
      [] k = "HyperDual" -> {[p |-> ".eps1", s |-> <<1>>], [p |-> ".eps2", s |-> <<2>>],
                             [p |-> ".eps1eps2", s |-> <<1, 2>>]}
      [] k = "HHD" -> {[p |-> ".eps1", s |-> <<1>>], [p |-> ".eps2", s |-> <<2>>], [p |-> ".eps3", s |-> <<3>>],
                       [p |-> ".eps1eps2", s |-> <<1, 2>>], [p |-> ".eps1eps3", s |-> <<1, 3>>],
                       [p |-> ".eps2eps3", s |-> <<2, 3>>], [p |-> ".eps1eps2eps3", s |-> <<1, 2, 3>>]}
      [] k = "DualVec" -> {[p |-> ".eps" \o IJ(i, 1), s |-> <<i>>] : i \in 1..ty.n}
      [] k = "Dual2Vec" -> {[p |-> ".v1" \o IJ(1, j), s |-> <<j>>] : j \in 1..ty.n}
                           \cup {[p |-> ".v2" \o IJ(i, j), s |-> <<i, j>>] : i \in 1..ty.n, j \in 1..ty.n}
      [] k = "HyperDualVec" ->
            {[p |-> ".eps1" \o IJ(i, 1), s |-> <<i>>] : i \in 1..ty.m}
            \cup {[p |-> ".eps2" \o IJ(1, j), s |-> <<ty.m + j>>] : j \in 1..ty.n}
            \cup {[p |-> ".eps1eps2" \o IJ(i, j), s |-> <<i, ty.m + j>>] : i \in 1..ty.m, j \in 1..ty.n}

Relabel(s, level) == [i \in 1..Len(s) |-> 100 * level + s[i]]

RECURSIVE Locs(_, _)
Locs(ty, level) ==
    IF ty.k = "F" THEN {[p |-> "", s |-> <<>>]}
    ELSE {[p |-> lo.p \o li.p, s |-> Relabel(lo.s, level) \o li.s] :
             lo \in LocsK(ty), li \in Locs(ty.inner, level + 1)}

Jet(ty, nm) ==
    LET L == Locs(ty, 1)
    IN  [sl \in {l.s : l \in L} |-> PVar(nm \o (CHOOSE l \in L : l.s = sl).p)]

RePath(ty) == (CHOOSE l \in Locs(ty, 1) : l.s = <<>>).p

TowerSyms == [k \in 0..4 |-> PVar("f" \o ToString(k))]
Fact(k) == IF k = 0 THEN 1 ELSE IF k = 1 THEN 1 ELSE IF k = 2 THEN 2 ELSE IF k = 3 THEN 6 ELSE 24
RecipTower == [k \in 0..4 |-> PTerm(QInt((IF k % 2 = 0 THEN 1 ELSE -1) * Fact(k)), MPow("binv", k + 1))]

ResultJet(ty, op) ==
    LET ja == Jet(ty, "a")  jb == Jet(ty, "b")
    IN  CASE op = "mul"   -> A!MulA(ja, jb)
          [] op = "div"   -> A!MulA(ja, A!ChainA(jb, RecipTower))
          [] op = "chain" -> A!ChainA(ja, TowerSyms)

PolyJson(pp) ==
    LET seq == SetToSeq(DOMAIN pp)
    IN  [i \in 1..Len(seq) |->
            [c |-> pp[seq[i]],
             e |-> LET vq == SetToSeq(DOMAIN seq[i]) IN [k \in 1..Len(vq) |-> <<vq[k], seq[i][vq[k]]>>]]]

TableJson(ty, op) ==
    LET L == SetToSeq(Locs(ty, 1))
        rj == ResultJet(ty, op)
    IN  [ty |-> ty, op |-> op, nderiv |-> NDeriv(ty), re |-> RePath(ty),
         parts |-> [i \in 1..Len(L) |-> [path |-> L[i].p, order |-> Len(L[i].s), poly |-> PolyJson(rj[L[i].s])]]]

\* sanity of the flattening: the quotient table times b gives a (as jets, with binv * b.re = 1)
QuotientOK(ty) ==
    LET ja == Jet(ty, "a")  jb == Jet(ty, "b")
        q  == ResultJet(ty, "div")
        back == A!MulA(q, jb)
        one == [v \in {"binv"} |-> PTerm(Q1, MPow("b" \o RePath(ty), -1))]
    IN  \A sl \in DOMAIN ja : PSubst(back[sl], one) = ja[sl]

VARIABLE ob
Init == ob = [k |-> "root"]
Next == /\ ob.k = "root"
        /\ \E ty \in TypeSet, op \in {"mul", "div", "chain"} : ob' = [k |-> "table", ty |-> ty, op |-> op]
Spec == Init /\ [][Next]_ob

Export == ob.k = "table" => PrintT(<<"TABLE", ToJson(TableJson(ob.ty, ob.op))>>)
TablesConsistent == (ob.k = "table" /\ ob.op = "div") => QuotientOK(ob.ty)
\* the advertised maximum derivative order (sum over the levels, C04) is exactly the
\* length of the longest slot sequence the flattened type stores
NDerivIsMaxSlotLength ==
    ob.k = "table" =>
        NDeriv(ob.ty) = CHOOSE mx \in {Len(l.s) : l \in Locs(ob.ty, 1)} :
                            \A l \in Locs(ob.ty, 1) : Len(l.s) <= mx

ScalarKinds == {"Dual", "Dual2", "Dual3", "HyperDual", "HHD"}
TypesBase(maxn, maxm) ==
    {TD(k, F) : k \in ScalarKinds}
    \cup {TDV(k, n, F) : k \in {"DualVec", "Dual2Vec"}, n \in 1..maxn}
    \cup {TDH(m, n, F) : m \in 1..maxm, n \in 1..maxn}
TypesNested ==
    {TD("Dual", TD("Dual", F)), TD("Dual", TD("Dual", TD("Dual", F))), TD("Dual2", TD("Dual", F)),
     TD("Dual3", TD("Dual", F)), TD("HyperDual", TD("Dual", F)), TD("Dual", TD("Dual2", F)),
     TD("Dual2", TD("Dual2", F)), TD("HHD", TD("Dual", F)), TD("Dual", TDV("DualVec", 2, F)),
     TDV("DualVec", 2, TD("Dual", F)), TDV("Dual2Vec", 2, TD("Dual", F))}
TypesQuick == TypesBase(3, 2) \cup TypesNested
=============================================================================
