------------------------------- MODULE RefineN -------------------------------
(***************************************************************************)
(* B refines A for NESTED dual numbers, symbolically.                      *)
(*                                                                         *)
(* num-dual obtains higher derivatives by instantiating a dual number type *)
(* over another one (Dual2<Dual64>, HyperDual<Dual2_64>, Dual<Dual<..>>):  *)
(* the outer product / quotient / chain rule then runs on scalars that are *)
(* themselves dual numbers.  Here layer B is instantiated over layer B     *)
(* (parameterised instance NB(ti)), every innermost stored scalar is its   *)
(* own indeterminate, and the result is compared with layer A on the       *)
(* FLATTENED jet: slot sequences  outer slots \o inner slots  (inner slot  *)
(* labels shifted by 10), i.e. with Leibniz / Faa di Bruno / the implicit  *)
(* quotient over all directions of both levels at once.  For the chain     *)
(* rule the outer tower entries are what the code computes: the inner      *)
(* chain rule applied to the shifted tower (f_k, f_k+1, ...) -- the        *)
(* statement is that a tower of towers composes to the derivatives of      *)
(* total order up to Order(outer) + Order(inner).                          *)
(***************************************************************************)
EXTENDS RingP

I == INSTANCE DualB WITH
        SAdd <- PAdd, SSub <- PSub, SMul <- PMul, SDiv <- PDiv, SNeg <- PNeg, SRecip <- PInv,
        SZero <- P0, SOne <- P1, SOfQ <- PConst,
        SMulF <- PMulQ, SDivF <- LAMBDA t, q : PMulQ(t, QInv(q)),
        SAddF <- LAMBDA t, q : PAdd(t, PConst(q)), SSubF <- LAMBDA t, q : PSub(t, PConst(q)),
        SFun <- PFun, SPowi <- PPowi, SPowf <- PPowf, SLog <- PLog, SAtan2 <- PAtan2,
        SRe <- PRe,
        SIsZero <- PIsZero, SIsOne <- LAMBDA t : t = P1,
        SIsPositive <- LAMBDA t : QSign(PConstVal(t)) > 0,
        SIsNegative <- LAMBDA t : QSign(PConstVal(t)) < 0,
        FLt <- QLt, FEps <- <<1, 4194304>>, FAbs <- QAbs, FOfQ <- LAMBDA q : q

NB(ti) == INSTANCE DualB WITH
        SAdd <- LAMBDA a, b : I!AddB(ti, a, b), SSub <- LAMBDA a, b : I!SubB(ti, a, b),
        SMul <- LAMBDA a, b : I!MulB(ti, a, b), SDiv <- LAMBDA a, b : I!DivB(ti, a, b),
        SNeg <- LAMBDA a : I!NegB(ti, a), SRecip <- LAMBDA a : I!RecipB(ti, a),
        SZero <- I!ZeroB(ti), SOne <- I!OneB(ti), SOfQ <- LAMBDA q : I!FromFB(ti, q),
        SMulF <- LAMBDA t, q : I!MulFB(ti, t, q), SDivF <- LAMBDA t, q : I!DivFB(ti, t, q),
        SAddF <- LAMBDA t, q : I!AddFB(ti, t, q), SSubF <- LAMBDA t, q : I!SubFB(ti, t, q),
        SFun <- LAMBDA fn, t : I!ElemB(ti, fn, t),
        SPowi <- LAMBDA t, n : I!PowiB(ti, t, n),
        SPowf <- LAMBDA t, q : I!PowfB(ti, t, q, q = QInt(2)),
        SLog <- LAMBDA t, b : I!LogB(ti, t, b), SAtan2 <- LAMBDA t, u : I!Atan2B(ti, t, u),
        SRe <- LAMBDA t : I!ReB(t),
        SIsZero <- LAMBDA t : I!IsZeroB(t), SIsOne <- LAMBDA t : I!IsOneB(t),
        SIsPositive <- LAMBDA t : I!IsPositiveB(t), SIsNegative <- LAMBDA t : I!IsNegativeB(t),
        FLt <- QLt, FEps <- <<1, 4194304>>, FAbs <- QAbs, FOfQ <- LAMBDA q : q

A == INSTANCE JetA WITH SAdd <- PAdd, SMul <- PMul, SNeg <- PNeg, SZero <- P0, SOne <- P1

---------------------------------------------------------------------------
(* slot sequences of the scalar types (the vector types nest the same way) *)
Parts(ty, off) ==
    LET s(i) == off + i IN
    CASE ty.k = "Dual"      -> {<<>>, <<s(1)>>}
      [] ty.k = "Dual2"     -> {<<>>, <<s(1)>>, <<s(1), s(1)>>}
      [] ty.k = "Dual3"     -> {<<>>, <<s(1)>>, <<s(1), s(1)>>, <<s(1), s(1), s(1)>>}
      [] ty.k = "HyperDual" -> {<<>>, <<s(1)>>, <<s(2)>>, <<s(1), s(2)>>}
      [] ty.k = "HHD"       -> A!SubSeqs(<<s(1), s(2), s(3)>>)
      \* vector types (outer level only)
      [] ty.k = "DualVec"   -> {<<>>} \cup {<<i>> : i \in 1..ty.n}
      [] ty.k = "Dual2Vec"  -> {<<>>} \cup {<<i>> : i \in 1..ty.n} \cup {<<i, j>> : i \in 1..ty.n, j \in 1..ty.n}
      [] ty.k = "HyperDualVec" ->
            {<<>>} \cup {<<i>> : i \in 1..ty.m} \cup {<<ty.m + j>> : j \in 1..ty.n}
                   \cup {<<i, ty.m + j>> : i \in 1..ty.m, j \in 1..ty.n}
FieldOf(ty, mm, off) ==      \* the stored field that holds the part mm
    LET n == Len(mm) IN
    IF n = 0 THEN "re"
    ELSE CASE ty.k = "Dual" -> "eps"
      [] ty.k \in {"Dual2", "Dual3"} -> IF n = 1 THEN "v1" ELSE IF n = 2 THEN "v2" ELSE "v3"
      [] ty.k = "HyperDual" -> IF n = 2 THEN "eps1eps2" ELSE IF mm[1] = off + 1 THEN "eps1" ELSE "eps2"
      [] ty.k = "HHD" ->
            LET has(i) == \E k \in 1..n : mm[k] = off + i
            IN  IF n = 3 THEN "eps1eps2eps3"
                ELSE IF n = 2 THEN (IF ~has(3) THEN "eps1eps2" ELSE IF ~has(2) THEN "eps1eps3" ELSE "eps2eps3")
                ELSE IF has(1) THEN "eps1" ELSE IF has(2) THEN "eps2" ELSE "eps3"
InnerOff == 10
\* flattened jet of an outer value whose scalars are inner values
PartsN(to, ti) == {mo \o mi : mo \in Parts(to, 0), mi \in Parts(ti, InnerOff)}
Split(mm) == LET k == Cardinality({i \in 1..Len(mm) : mm[i] < InnerOff}) IN <<SubSeq(mm, 1, k), SubSeq(mm, k + 1, Len(mm))>>
\* the inner number stored at the outer part mo (vector types: a matrix entry; an absent part stands for inner zeros)
OuterPart(to, ti, v, mo) ==
    IF mo = <<>> THEN v.re
    ELSE CASE to.k = "DualVec"  -> NB(ti)!Dense(v.eps, to.n, 1)[mo[1]][1]
      [] to.k = "Dual2Vec" -> IF Len(mo) = 1 THEN NB(ti)!Dense(v.v1, 1, to.n)[1][mo[1]] ELSE NB(ti)!Dense(v.v2, to.n, to.n)[mo[1]][mo[2]]
      [] to.k = "HyperDualVec" ->
            IF Len(mo) = 2 THEN NB(ti)!Dense(v.eps1eps2, to.m, to.n)[mo[1]][mo[2] - to.m]
            ELSE IF mo[1] <= to.m THEN NB(ti)!Dense(v.eps1, to.m, 1)[mo[1]][1]
            ELSE NB(ti)!Dense(v.eps2, 1, to.n)[1][mo[1] - to.m]
      [] OTHER -> v[FieldOf(to, mo, 0)]
AbsJetN(to, ti, v) ==
    [mm \in PartsN(to, ti) |-> LET s == Split(mm) IN OuterPart(to, ti, v, s[1])[FieldOf(ti, s[2], InnerOff)]]

\* symbolic operand: one indeterminate per innermost scalar
SymInner(ti, nm) == [fi \in {"re"} \cup I!FieldSet(ti) |-> PVar(nm \o "." \o fi)]
SymN(to, ti, nm) ==
    [fo \in {"re"} \cup I!FieldSet(to) |-> SymInner(ti, nm \o "." \o fo)]
\* vector outer type with a presence pattern: every entry of a present part is an inner number of indeterminates
SymNV(to, ti, nm, pres) ==
    [fo \in {"re"} \cup I!FieldSet(to) |->
        IF fo = "re" THEN SymInner(ti, nm \o ".re")
        ELSE IF pres[fo]
             THEN LET d == I!PartDims(to, fo)
                  IN  I!Some(I!Mat(d[1], d[2], LAMBDA i, j : SymInner(ti, nm \o "." \o fo \o "[" \o ToString(i) \o "," \o ToString(j) \o "]")))
             ELSE I!None]

\* the outer tower of a generic function: entry k is the inner chain rule over the tower shifted by k
Fk(k) == PVar("f" \o ToString(k))
InnerTower(ti, x, k) == I!ChainB(ti, x, <<Fk(k), Fk(k + 1), I!G2(I!Order(ti), Fk(k + 2)), I!G3(I!Order(ti), Fk(k + 3))>>)
OuterTower(to, ti, x) ==
    <<InnerTower(ti, x.re, 0), InnerTower(ti, x.re, 1), I!G2(I!Order(to), InnerTower(ti, x.re, 2)),
      I!G3(I!Order(to), InnerTower(ti, x.re, 3))>>

Holds(to, ti, op, pa, pb) ==
    LET a  == IF I!IsVec(to) THEN SymNV(to, ti, "a", pa) ELSE SymN(to, ti, "a")
        b  == IF I!IsVec(to) THEN SymNV(to, ti, "b", pb) ELSE SymN(to, ti, "b")
        ja == AbsJetN(to, ti, a)
        jb == AbsJetN(to, ti, b)
        J(v) == AbsJetN(to, ti, v)
    IN  CASE op = "mul" -> J(NB(ti)!MulB(to, a, b)) = A!MulA(ja, jb)
          [] op = "div" -> A!IsQuotientA(J(NB(ti)!DivB(to, a, b)), ja, jb)
          [] op = "add" -> J(NB(ti)!AddB(to, a, b)) = A!AddA(ja, jb)
          [] op = "sub" -> J(NB(ti)!SubB(to, a, b)) = A!SubA(ja, jb)
          [] op = "neg" -> J(NB(ti)!NegB(to, a)) = A!NegA(ja)
          [] op = "chain" -> J(NB(ti)!ChainB(to, a, OuterTower(to, ti, a))) = A!ChainA(ja, [k \in 0..6 |-> Fk(k)])
          [] op = "from_inner" -> J(NB(ti)!FromRe(to, a.re)) = [mm \in PartsN(to, ti) |-> IF Split(mm)[1] = <<>> THEN ja[mm] ELSE P0]

Scalars == {I!TDual, I!TDual2, I!TDual3, I!THyperDual, I!THHD}
Ops == {"mul", "div", "add", "sub", "neg", "chain", "from_inner"}
VARIABLE ob
Init == ob = [k |-> "root"]
\* total order at most 4 (what the properties reach: Dual2<Dual2>, Dual3<Dual>, HHD<Dual>, ...) keeps the polynomials small
NoPres == [f \in {} |-> TRUE]
Pick == /\ ob.k = "root"
        /\ \E to \in Scalars, ti \in Scalars, op \in Ops :
              /\ I!Order(to) + I!Order(ti) <= 4
              /\ ob' = [k |-> "ob", to |-> to, ti |-> ti, op |-> op, pa |-> NoPres, pb |-> NoPres]
\* vector types over Dual64 (DualVec<Dual64, f64, N>, ...): every presence pattern of the optional parts
Vectors == {I!TDualVec(2), I!TDual2Vec(2), I!THyperDualVec(2, 1)}
PickVec == /\ ob.k = "root"
           /\ \E to \in Vectors : \E op \in Ops \ {"from_inner"}, pa \in [I!FieldSet(to) -> BOOLEAN], pb \in [I!FieldSet(to) -> BOOLEAN] :
                 /\ (op \in {"neg", "chain"} => pb = pa)
                 /\ ob' = [k |-> "ob", to |-> to, ti |-> I!TDual, op |-> op, pa |-> pa, pb |-> pb]
Next == Pick \/ PickVec
Spec == Init /\ [][Next]_ob
RefinesNested == ob.k = "ob" => Holds(ob.to, ob.ti, ob.op, ob.pa, ob.pb)
\* NDERIV of a nested type is the sum over its levels, and the flattened jet has exactly the stored scalars
OrderIsSum == ob.k = "ob" /\ ~I!IsVec(ob.to) =>
    /\ Cardinality(PartsN(ob.to, ob.ti)) = (Len(I!Fields(ob.to)) + 1) * (Len(I!Fields(ob.ti)) + 1)
    /\ \A mm \in PartsN(ob.to, ob.ti) : Len(mm) <= I!Order(ob.to) + I!Order(ob.ti)
=============================================================================
