------------------------------- MODULE Towers -------------------------------
(***************************************************************************)
(* The differential ring behind the elementary functions (C01, C09, C10,   *)
(* C14, C15).  An element is a polynomial (Poly.tla, rational coefficients,*)
(* integer exponents) in GENERATORS - named real functions of one variable *)
(* x.  The derivation D is given on the generators (GenD below: the only   *)
(* calculus facts that are assumed) and extended by linearity and the      *)
(* Leibniz rule.  The A-level tower of a function g is                     *)
(*        <<g, D g, D^2 g, D^3 g, D^4 g>>        computed BY TLC.          *)
(*                                                                         *)
(* Checked here (invariant TowersAgree): the closed forms f0..f3 coded in  *)
(* derivatives.rs (DualB!TowerB, evaluated over RingP at rational points   *)
(* of each function's variety, both signs) equal the A-tower at the same   *)
(* point; composite functions (tan, sph_j0/1/2 away from 0)      are      *)
(* B-programs whose jets equal Faa di Bruno over the A-tower.              *)
(* Exported (TowerTables): the towers and generator list as JSON; the Rust *)
(* float harness evaluates them with a dictionary of primitive functions.  *)
(***************************************************************************)
EXTENDS RingP, Json, SequencesExt

B == INSTANCE DualB WITH
        SAdd <- PAdd, SSub <- PSub, SMul <- PMul, SDiv <- PDiv, SNeg <- PNeg, SRecip <- PInv,
        SZero <- P0, SOne <- P1, SOfQ <- PConst,
        SMulF <- PMulQ, SDivF <- LAMBDA t, q : PMulQ(t, QInv(q)),
        SAddF <- LAMBDA t, q : PAdd(t, PConst(q)), SSubF <- LAMBDA t, q : PSub(t, PConst(q)),
        SFun <- PFun, SPowi <- PPowi, SPowf <- PPowf, SLog <- PLog, SAtan2 <- PAtan2,
        SRe <- PRe,
        SIsZero <- PIsZero, SIsOne <- LAMBDA t : t = P1,
        SIsPositive <- LAMBDA t : QSign(PConstVal(t)) > 0,
        SIsNegative <- LAMBDA t : QSign(PConstVal(t)) < 0,
        FLt <- QLt, FEps <- <<1, 4194304>>, FAbs <- QAbs, FOfQ <- LAMBDA q : q

A == INSTANCE JetA WITH SAdd <- PAdd, SMul <- PMul, SNeg <- PNeg, SZero <- P0, SOne <- P1

---------------------------------------------------------------------------
(* generators and their derivations *)
G(v) == PVar(v)
GP(v, k) == PTerm(Q1, MPow(v, k))
QC(n, d) == PConst(QMake(n, d))
a ** b == PMul(a, b)
a ++ b == PAdd(a, b)

Gens == {"x", "r", "s", "c", "e", "e2", "ln2", "iln2", "iln10", "ilnb", "m", "l", "lb", "l10", "lg",
         "r1", "l1", "sin", "cos", "sh", "ch", "tan", "tanh", "u", "as", "ac", "w", "at", "v", "ash",
         "y", "ach", "z", "ath", "p", "n", "j0", "j1", "pw0", "pw1", "pw2", "pw3", "pw4", "pw5"}

\* what each generator stands for (documentation; the Rust dictionary implements it)
GenMeaning ==
    [x |-> "x", r |-> "1/x", s |-> "sqrt(x)", c |-> "cbrt(x)", e |-> "exp(x)", e2 |-> "exp2(x)",
     ln2 |-> "ln 2", iln2 |-> "1/ln 2", iln10 |-> "1/ln 10", ilnb |-> "1/ln(base)",
     m |-> "exp_m1(x)", l |-> "ln(x)", lb |-> "log2(x)", l10 |-> "log10(x)", lg |-> "log(x, base)",
     r1 |-> "1/(1+x)", l1 |-> "ln_1p(x)", sin |-> "sin(x)", cos |-> "cos(x)", sh |-> "sinh(x)",
     ch |-> "cosh(x)", tan |-> "tan(x)", tanh |-> "tanh(x)", u |-> "(1-x^2)^(-1/2)", as |-> "asin(x)",
     ac |-> "acos(x)", w |-> "1/(1+x^2)", at |-> "atan(x)", v |-> "(1+x^2)^(-1/2)", ash |-> "asinh(x)",
     y |-> "(x^2-1)^(-1/2)", ach |-> "acosh(x)", z |-> "1/(1-x^2)", ath |-> "atanh(x)",
     p |-> "x^(n-3)", n |-> "the exponent n (a constant)", j0 |-> "J0(x)", j1 |-> "J1(x)",
     pw0 |-> "x^n", pw1 |-> "x^(n-1)", pw2 |-> "x^(n-2)", pw3 |-> "x^(n-3)", pw4 |-> "x^(n-4)", pw5 |-> "x^(n-5)"]

GenD(g) ==
    CASE g = "x"   -> P1
      [] g \in {"ln2", "iln2", "iln10", "ilnb", "n"} -> P0                        \* constants
      [] g = "r"   -> PNeg(GP("r", 2))
      [] g = "s"   -> QC(1, 2) ** G("s") ** G("r")
      [] g = "c"   -> QC(1, 3) ** G("c") ** G("r")
      [] g = "e"   -> G("e")
      [] g = "e2"  -> G("ln2") ** G("e2")
      [] g = "m"   -> G("e")
      [] g = "l"   -> G("r")
      [] g = "lb"  -> G("r") ** G("iln2")
      [] g = "l10" -> G("r") ** G("iln10")
      [] g = "lg"  -> G("r") ** G("ilnb")
      [] g = "r1"  -> PNeg(GP("r1", 2))
      [] g = "l1"  -> G("r1")
      [] g = "sin" -> G("cos")
      [] g = "cos" -> PNeg(G("sin"))
      [] g = "sh"  -> G("ch")
      [] g = "ch"  -> G("sh")
      [] g = "tan"  -> P1 ++ GP("tan", 2)
      [] g = "tanh" -> PSub(P1, GP("tanh", 2))
      [] g = "u"   -> G("x") ** GP("u", 3)
      [] g = "as"  -> G("u")
      [] g = "ac"  -> PNeg(G("u"))
      [] g = "w"   -> QC(-2, 1) ** G("x") ** GP("w", 2)
      [] g = "at"  -> G("w")
      [] g = "v"   -> PNeg(G("x") ** GP("v", 3))
      [] g = "ash" -> G("v")
      [] g = "y"   -> PNeg(G("x") ** GP("y", 3))
      [] g = "ach" -> G("y")
      [] g = "z"   -> QC(2, 1) ** G("x") ** GP("z", 2)
      [] g = "ath" -> G("z")
      [] g = "p"   -> PSub(G("n"), PInt(3)) ** G("p") ** G("r")
      \* x^(n-j) without a detour through 1/x (finite at x = 0 whenever the power is)
      [] g = "pw0" -> G("n") ** G("pw1")
      [] g = "pw1" -> PSub(G("n"), PInt(1)) ** G("pw2")
      [] g = "pw2" -> PSub(G("n"), PInt(2)) ** G("pw3")
      [] g = "pw3" -> PSub(G("n"), PInt(3)) ** G("pw4")
      [] g = "pw4" -> PSub(G("n"), PInt(4)) ** G("pw5")
      [] g = "pw5" -> P0           \* (never differentiated: towers stop at order four)
      [] g = "j0"  -> PNeg(G("j1"))
      [] g = "j1"  -> PSub(G("j0"), G("r") ** G("j1"))

\* Leibniz on a monomial, linearity on a polynomial
DMono(mm) ==
    FoldSet(LAMBDA g, acc :
                PAdd(acc, PMulQ(PMul(PTerm(Q1, MMul(mm, MPow(g, -1))), GenD(g)), QInt(mm[g]))),
            P0, DOMAIN mm)
DPoly(pp) == FoldSet(LAMBDA mm, acc : PAdd(acc, PMulQ(DMono(mm), pp[mm])), P0, DOMAIN pp)

Tower(g0) ==
    LET d1 == DPoly(g0)  d2 == DPoly(d1)  d3 == DPoly(d2)  d4 == DPoly(d3)
    IN  <<g0, d1, d2, d3, d4>>

---------------------------------------------------------------------------
(* the functions of the interface as ring elements *)
FnPoly(fn) ==
    CASE fn = "recip" -> G("r")      [] fn = "sqrt" -> G("s")       [] fn = "cbrt" -> G("c")
      [] fn = "exp" -> G("e")        [] fn = "exp2" -> G("e2")      [] fn = "exp_m1" -> G("m")
      [] fn = "ln" -> G("l")         [] fn = "log2" -> G("lb")      [] fn = "log10" -> G("l10")
      [] fn = "log" -> G("lg")       [] fn = "ln_1p" -> G("l1")
      [] fn = "sin" -> G("sin")      [] fn = "cos" -> G("cos")      [] fn = "tan" -> G("tan")
      [] fn = "sinh" -> G("sh")      [] fn = "cosh" -> G("ch")      [] fn = "tanh" -> G("tanh")
      [] fn = "asin" -> G("as")      [] fn = "acos" -> G("ac")      [] fn = "atan" -> G("at")
      [] fn = "asinh" -> G("ash")    [] fn = "acosh" -> G("ach")    [] fn = "atanh" -> G("ath")
      \* x^n = p x^3 with p = x^(n-3): every real (also symbolic) exponent
      [] fn = "pow" -> G("p") ** GP("x", 3)
      [] fn = "powx" -> G("pw0")
      \* spherical Bessel functions, closed forms
      [] fn = "sph_j0" -> G("sin") ** G("r")
      [] fn = "sph_j1" -> PSub(G("sin"), G("x") ** G("cos")) ** GP("r", 2)
      [] fn = "sph_j2" -> PSub(PSub(QC(3, 1) ** G("sin"), GP("x", 2) ** G("sin")),
                               QC(3, 1) ** G("x") ** G("cos")) ** GP("r", 3)
      \* cylindrical Bessel functions
      [] fn = "bessel_j0" -> G("j0")
      [] fn = "bessel_j1" -> G("j1")
      [] fn = "bessel_j2" -> PSub(QC(2, 1) ** G("j1") ** G("r"), G("j0"))

AllFns == {"recip", "sqrt", "cbrt", "exp", "exp2", "exp_m1", "ln", "log2", "log10", "log", "ln_1p", "sin",
           "cos", "tan", "sinh", "cosh", "tanh", "asin", "acos", "atan", "asinh", "acosh", "atanh", "pow", "powx",
           "sph_j0", "sph_j1", "sph_j2", "bessel_j0", "bessel_j1", "bessel_j2"}

---------------------------------------------------------------------------
(* evaluation of generators at a rational point q (exact where rational,    *)
(* opaque symbols for transcendental values)                                *)
Env(q) ==
    LET one == Q1
        q2  == QMul(q, q)
        inv(t) == IF QIsZero(t) THEN PVar("DIV0") ELSE PConst(QInv(t))
        rt(t)  == IF QHasSqrt(t) THEN PConst(QSqrt(t)) ELSE PVar("IRRATIONAL")
        rinv(t) == IF QIsZero(t) \/ QSign(t) < 0 \/ ~QHasSqrt(t) THEN PVar("IRRATIONAL")
                   ELSE PConst(QInv(QSqrt(t)))
    IN  [g \in Gens |->
         CASE g = "x" -> PConst(q)
           [] g = "r" -> inv(q)
           [] g = "s" -> PFun("sqrt", PConst(q))
           [] g = "c" -> PFun("cbrt", PConst(q))
           [] g = "e" -> PFun("exp", PConst(q))
           [] g = "e2" -> PFun("exp2", PConst(q))
           [] g = "ln2" -> PVar("ln2")
           [] g = "iln2" -> PTerm(Q1, MPow("ln2", -1))
           [] g = "iln10" -> PTerm(Q1, MPow("ln10", -1))
           [] g = "ilnb" -> PTerm(Q1, MPow("ln(7/2)", -1))
           [] g = "m" -> PFun("exp_m1", PConst(q))
           [] g = "l" -> PFun("ln", PConst(q))
           [] g = "lb" -> PFun("log2", PConst(q))
           [] g = "l10" -> PFun("log10", PConst(q))
           [] g = "lg" -> PLog(PConst(q), <<7, 2>>)
           [] g = "r1" -> inv(QAdd(one, q))
           [] g = "l1" -> PFun("ln_1p", PConst(q))
           [] g = "sin" -> PFun("sin", PConst(q))
           [] g = "cos" -> PFun("cos", PConst(q))
           [] g = "sh" -> PFun("sinh", PConst(q))
           [] g = "ch" -> PFun("cosh", PConst(q))
           [] g = "tan" -> PMul(PFun("sin", PConst(q)), PPowi(PFun("cos", PConst(q)), -1))
           [] g = "tanh" -> PFun("tanh", PConst(q))
           [] g = "u" -> rinv(QSub(one, q2))
           [] g = "as" -> PFun("asin", PConst(q))
           [] g = "ac" -> PFun("acos", PConst(q))
           [] g = "w" -> inv(QAdd(one, q2))
           [] g = "at" -> PFun("atan", PConst(q))
           [] g = "v" -> rinv(QAdd(one, q2))
           [] g = "ash" -> PFun("asinh", PConst(q))
           [] g = "y" -> rinv(QSub(q2, one))
           [] g = "ach" -> PFun("acosh", PConst(q))
           [] g = "z" -> inv(QSub(one, q2))
           [] g = "ath" -> PFun("atanh", PConst(q))
           [] g = "p" -> PVar("p")
           [] g = "n" -> PVar("n")
           [] g = "j0" -> PVar("j0")
           [] g = "j1" -> PVar("j1")
           [] OTHER -> PVar(g)]

TowerAt(fn, q) == LET t == Tower(FnPoly(fn))  ev == Env(q) IN [k \in 1..5 |-> PSubst(t[k], ev)]

\* rational points of each function's variety (positive and negative arguments)
Pts(fn) ==
    CASE fn \in {"recip"} -> {<<2, 1>>, <<-3, 1>>, <<1, 2>>, <<-5, 4>>, <<7, 3>>}
      [] fn = "sqrt" -> {<<4, 1>>, <<9, 4>>, <<1, 16>>, <<25, 1>>, <<1, 1>>}
      [] fn = "cbrt" -> {<<8, 1>>, <<-8, 1>>, <<1, 8>>, <<-27, 8>>, <<1, 1>>, <<-1, 1>>}
      [] fn \in {"exp", "exp2", "exp_m1", "sin", "cos", "sinh", "cosh", "atan", "tan", "tanh"} ->
            {<<0, 1>>, <<2, 1>>, <<-3, 2>>, <<1, 3>>, <<-7, 1>>}
      [] fn \in {"ln", "log2", "log10", "log"} -> {<<1, 1>>, <<2, 1>>, <<5, 4>>, <<1, 3>>, <<9, 1>>}
      [] fn = "ln_1p" -> {<<0, 1>>, <<1, 1>>, <<-1, 2>>, <<5, 4>>, <<-2, 3>>}
      [] fn \in {"asin", "acos"} -> {<<0, 1>>, <<3, 5>>, <<-3, 5>>, <<4, 5>>, <<5, 13>>, <<-12, 13>>}
      [] fn = "atanh" -> {<<0, 1>>, <<3, 5>>, <<-3, 5>>, <<1, 2>>, <<-1, 7>>}
      [] fn = "asinh" -> {<<0, 1>>, <<3, 4>>, <<-4, 3>>, <<5, 12>>, <<-12, 5>>}
      [] fn = "acosh" -> {<<5, 4>>, <<5, 3>>, <<13, 12>>, <<17, 8>>, <<13, 5>>}
      [] fn \in {"sph_j0", "sph_j1", "sph_j2"} -> {<<2, 1>>, <<-3, 2>>, <<1, 3>>, <<-2, 1>>, <<-1, 3>>}

---------------------------------------------------------------------------
(* B versus A *)
TowerFns == B!TowerFns \cup {"log"}
BTower(fn, q, ord) ==
    IF fn = "log" THEN B!TowerLogB(PConst(q), <<7, 2>>, ord) ELSE B!TowerB(fn, PConst(q), ord)
\* closed forms of derivatives.rs = A-tower (orders 0..3) at every sample point
ClosedFormOK(fn, q) ==
    LET bt == BTower(fn, q, 3)  at == TowerAt(fn, q)
    IN  \A k \in 1..4 : bt[k] = at[k]
\* order gating: a first/second-order type computes the same leading entries
GatingOK(fn, q) ==
    LET b1 == BTower(fn, q, 1)  b2 == BTower(fn, q, 2)  b3 == BTower(fn, q, 3)
    IN  /\ b1[1] = b3[1] /\ b1[2] = b3[2] /\ b1[3] = B!NA /\ b1[4] = B!NA
        /\ b2[1] = b3[1] /\ b2[2] = b3[2] /\ b2[3] = b3[3] /\ b2[4] = B!NA

\* composite functions as B-programs on a third-order operand with symbolic parts
SymX(ty, q) ==
    [f \in {"re"} \cup B!FieldSet(ty) |-> IF f = "re" THEN PConst(q) ELSE PVar("x." \o f)]
Jet3(v) == [mm \in {<<>>, <<1>>, <<1, 1>>, <<1, 1, 1>>} |->
              IF mm = <<>> THEN v.re ELSE IF Len(mm) = 1 THEN v.v1 ELSE IF Len(mm) = 2 THEN v.v2 ELSE v.v3]
JetHHD(v) == [mm \in A!SubSeqs(<<1, 2, 3>>) |->
                CASE mm = <<>> -> v.re [] mm = <<1>> -> v.eps1 [] mm = <<2>> -> v.eps2 [] mm = <<3>> -> v.eps3
                  [] mm = <<1, 2>> -> v.eps1eps2 [] mm = <<1, 3>> -> v.eps1eps3 [] mm = <<2, 3>> -> v.eps2eps3
                  [] mm = <<1, 2, 3>> -> v.eps1eps2eps3]
CompositeB(ty, fn, x) ==
    CASE fn = "tan" -> B!TanB(ty, x)
      [] fn = "sph_j0" -> B!SphJ0B(ty, x) [] fn = "sph_j1" -> B!SphJ1B(ty, x)
      [] fn = "sph_j2" -> B!SphJ2B(ty, x)
CompositeOK(fn, q) ==
    LET at == TowerAt(fn, q)
        tw == [k \in 0..3 |-> at[k + 1]]
        x3 == SymX(B!TDual3, q)
        xh == SymX(B!THHD, q)
    IN  /\ Jet3(CompositeB(B!TDual3, fn, x3)) = A!ChainA(Jet3(x3), tw)
        /\ JetHHD(CompositeB(B!THHD, fn, xh)) = A!ChainA(JetHHD(xh), tw)
Composites == {"tan", "sph_j0", "sph_j1", "sph_j2"}

\* C09: the closed forms of powi / powf (through pow3 = x^(n-3)) equal the generalised
\* binomial tower  x^n, n x^(n-1), n(n-1) x^(n-2), n(n-1)(n-2) x^(n-3).  The coefficients
\* are polynomials of degree <= 3 in n, so agreement at more than four exponents per base
\* is agreement for every exponent.
PowEnv(q, nq) == [g \in {"p", "n"} |-> IF g = "n" THEN PConst(nq) ELSE PPowf(PConst(q), QSub(nq, QInt(3)))]
PowTowerAt(q, nq) == LET t == TowerAt("pow", q) IN [k \in 1..5 |-> PSubst(t[k], PowEnv(q, nq))]
PowfOK(q, nq) ==
    LET bt == B!PowfTowerB(PConst(q), nq, 3)  at == PowTowerAt(q, nq)
    IN  \A k \in 1..4 : bt[k] = at[k]
PowiOK(q, n) ==
    LET bt == B!PowiTowerB(PConst(q), n, 3)  at == PowTowerAt(q, QInt(n))
    IN  \A k \in 1..4 : bt[k] = at[k]
\* (squares as bases: every half-integer power is rational, so that x^n, x^(n-1), ... computed
\*  separately by the code can be compared exactly with p x^3, p x^2, ...)
\* the two representations of the power tower agree: substitute pw_j = p x^(3-j)
PowxOK ==
    LET tp == Tower(FnPoly("pow"))  tx == Tower(FnPoly("powx"))
        sub == [g \in {"pw0", "pw1", "pw2", "pw3", "pw4"} |->
                  CASE g = "pw0" -> G("p") ** GP("x", 3) [] g = "pw1" -> G("p") ** GP("x", 2)
                    [] g = "pw2" -> G("p") ** G("x") [] g = "pw3" -> G("p") [] g = "pw4" -> G("p") ** G("r")]
        rx == [g \in {"r"} |-> PTerm(Q1, MPow("x", -1))]
    IN  \A k \in 1..5 : PSubst(PSubst(tx[k], sub), rx) = PSubst(tp[k], rx)
PowBases == {<<4, 1>>, <<9, 4>>, <<1, 4>>}
PowBasesI == {<<2, 1>>, <<1, 2>>, <<3, 1>>, <<-2, 1>>, <<-1, 2>>, <<-3, 2>>}
PowExpsF == {<<1, 2>>, <<5, 2>>, <<3, 2>>, <<-1, 2>>, <<-3, 2>>, <<3, 1>>, <<4, 1>>, <<-1, 1>>}
PowExpsI == {-5, -4, -3, -2, -1, 3, 4, 5, 6, 7}

---------------------------------------------------------------------------
(* export for the float harness *)
PolyJson(pp) ==
    LET seq == SetToSeq(DOMAIN pp)
    IN  [i \in 1..Len(seq) |->
            [c |-> pp[seq[i]],
             e |-> LET vq == SetToSeq(DOMAIN seq[i]) IN [k \in 1..Len(vq) |-> <<vq[k], seq[i][vq[k]]>>]]]
TowerJson(fn) == LET t == Tower(FnPoly(fn)) IN [fn |-> fn, tower |-> [k \in 1..5 |-> PolyJson(t[k])]]

---------------------------------------------------------------------------
VARIABLE ob
Init == ob = [k |-> "root"]
Next ==
    \/ /\ ob.k = "root"
       /\ \/ \E fn \in TowerFns : \E q \in Pts(fn) : ob' = [k |-> "closed", fn |-> fn, q |-> q]
          \/ \E fn \in Composites : \E q \in Pts(fn) : ob' = [k |-> "composite", fn |-> fn, q |-> q]
          \/ \E fn \in AllFns : ob' = [k |-> "export", fn |-> fn]
          \/ \E q \in PowBases, nq \in PowExpsF : ob' = [k |-> "powf", q |-> q, n |-> nq]
          \/ \E q \in PowBasesI, n \in PowExpsI : ob' = [k |-> "powi", q |-> q, n |-> n]
Spec == Init /\ [][Next]_ob

TowersAgree ==
    /\ ob.k = "closed" => ClosedFormOK(ob.fn, ob.q) /\ GatingOK(ob.fn, ob.q)
    /\ ob.k = "composite" => CompositeOK(ob.fn, ob.q)
    /\ ob.k = "root" => PowxOK
    /\ ob.k = "powf" => PowfOK(ob.q, ob.n)
    /\ ob.k = "powi" => PowiOK(ob.q, ob.n)
Export == ob.k = "export" => PrintT(<<"TOWER", ToJson(TowerJson(ob.fn))>>)
=============================================================================
