------------------------------ MODULE PyArrays ------------------------------
(***************************************************************************)
(* C17, array operands.  The operator dunder methods of the Python classes *)
(* (python_macro.rs: __add__, __sub__, __mul__, __truediv__) accept, next  *)
(* to floats and dual numbers, NumPy arrays of floats and NumPy object      *)
(* arrays of dual numbers; in the other operand order NumPy itself walks    *)
(* the array and calls the (reflected) scalar method per element.           *)
(*                                                                         *)
(* The model is a small Python heap: objects have an identity (their index  *)
(* in `heap`), a kind (dual | farr | oarr), a shape and a sequence of       *)
(* elements; an element is a TERM over the initial operands, built with the *)
(* scalar rows of PyBind.tla:                                               *)
(*     <<"row", py, X, Y, L>>   the scalar row `py` ("x - y", "l / x", ...)  *)
(*                               with x := X, y := Y (a dual term or Nil)      *)
(*                               and l := L (a float leaf or Nil)            *)
(* One action, BinOp(op, a, b), evaluates `heap[a] op heap[b]` and appends   *)
(* the result as a NEW object.  What the model fixes:                        *)
(*   * Elementwise: element i of the result is the scalar row applied to    *)
(*     element i of the array operand(s) and to the scalar operand;          *)
(*     the shape is the shape of the array operand(s);                       *)
(*   * Immutable: no existing object changes (Python's binary operators are  *)
(*     pure), the result is a fresh object;                                  *)
(*   * which scalar row is meant for every combination of operand kinds.     *)
(* The crate's original object-array branch (map_inplace on the operand,     *)
(* returning the operand itself) is kept as the action InPlaceObj: it is NOT *)
(* part of Next; the configuration that adds it must violate Immutable       *)
(* (checked by the C17 check as a non-vacuity run).                          *)
(*                                                                         *)
(* Every behaviour of depth Depth is exported; the harness replays it        *)
(* through the real classes in the embedded interpreter, and after every     *)
(* step compares the WHOLE heap (every element of every object, shapes,      *)
(* kinds, freshness of the result) with the terms evaluated by the Rust      *)
(* programs of PyBind's table, bit for bit.                                  *)
(***************************************************************************)
EXTENDS Naturals, Sequences, FiniteSets, Json, TLC

CONSTANTS Shapes,      \* set of shapes: sequences of dimensions, e.g. {<<3>>, <<2, 2>>, <<0>>}
          Depth,       \* number of operator applications per behaviour
          WithDeviation \* TRUE: add InPlaceObj to the next-state relation (must violate Immutable)

Nil == <<"none">>
Off == FALSE
On == TRUE
ShapesDefault == {<<3>>, <<2, 2>>, <<0>>}
Ops == {"+", "-", "*", "/"}
Size(sh) == IF Len(sh) = 1 THEN sh[1] ELSE sh[1] * sh[2]

VARIABLES heap, shape, steps
vars == <<heap, shape, steps>>

Dual(t) == [kind |-> "dual", elems |-> <<t>>]
\* initial heap: two dual scalars, a float array, an object array of dual numbers
InitHeap(sh) ==
    << Dual(<<"s">>), Dual(<<"t">>),
       [kind |-> "farr", elems |-> [i \in 1..Size(sh) |-> <<"F", i>>]],
       [kind |-> "oarr", elems |-> [i \in 1..Size(sh) |-> <<"O", i>>]] >>

IsFloat(k) == k = "farr"
\* the scalar row a pair of ELEMENT kinds (dual | float) selects, and the binding of its variables
\* (dual, dual): "x op y";  (dual, float): "x op l";  (float, dual): "l op x"
Row(op, ka, kb, ea, eb) ==
    IF ~IsFloat(ka) /\ ~IsFloat(kb) THEN <<"row", "x " \o op \o " y", ea, eb, Nil>>
    ELSE IF ~IsFloat(ka) THEN <<"row", "x " \o op \o " l", ea, Nil, eb>>
    ELSE <<"row", "l " \o op \o " x", eb, Nil, ea>>

IsArr(o) == o.kind # "dual"
Elem(o, i) == IF IsArr(o) THEN o.elems[i] ELSE o.elems[1]
\* result of heap[a] op heap[b]: defined unless both are float arrays (plain NumPy, no dual number involved)
Defined(a, b) == ~(heap[a].kind = "farr" /\ heap[b].kind = "farr")
Result(op, a, b) ==
    LET oa == heap[a]
        ob == heap[b]
        n == IF IsArr(oa) \/ IsArr(ob) THEN Size(shape) ELSE 1
    IN  [kind |-> IF IsArr(oa) \/ IsArr(ob) THEN "oarr" ELSE "dual",
         elems |-> [i \in 1..n |-> Row(op, oa.kind, ob.kind, Elem(oa, i), Elem(ob, i))]]

BinOp(op, a, b) ==
    /\ Len(steps) < Depth
    /\ Defined(a, b)
    /\ heap' = Append(heap, Result(op, a, b))
    /\ steps' = Append(steps, [op |-> op, a |-> a, b |-> b, inplace |-> FALSE])
    /\ UNCHANGED shape

\* the crate's original treatment of `dual op object-array`: the operand array is overwritten and returned
InPlaceObj(op, a, b) ==
    /\ Len(steps) < Depth
    /\ heap[a].kind = "dual" /\ heap[b].kind = "oarr"
    /\ heap' = [heap EXCEPT ![b] = Result(op, a, b)]
    /\ steps' = Append(steps, [op |-> op, a |-> a, b |-> b, inplace |-> TRUE])
    /\ UNCHANGED shape

Init == /\ shape \in Shapes
        /\ heap = InitHeap(shape)
        /\ steps = <<>>
Next == \E op \in Ops : \E a \in 1..Len(heap) : \E b \in 1..Len(heap) :
            \/ BinOp(op, a, b)
            \/ (WithDeviation /\ InPlaceObj(op, a, b))
Spec == Init /\ [][Next]_vars

---------------------------------------------------------------------------
\* every object that existed before a step is unchanged by it, and the result is a new object
Immutable == [][/\ Len(heap') = Len(heap) + 1
                /\ \A k \in 1..Len(heap) : heap'[k] = heap[k]]_vars
\* shapes and kinds
TypeOK == \A k \in 1..Len(heap) :
            /\ heap[k].kind \in {"dual", "farr", "oarr"}
            /\ Len(heap[k].elems) = IF IsArr(heap[k]) THEN Size(shape) ELSE 1
\* element i of a result mentions only element i of array operands (no transposition, no shift, no reduction)
Leaves(t) == LET RECURSIVE L(_)
                 L(u) == IF u[1] = "row" THEN (IF u[3] = Nil THEN {} ELSE L(u[3])) \cup (IF u[4] = Nil THEN {} ELSE L(u[4]))
                                               \cup (IF u[5] = Nil THEN {} ELSE L(u[5]))
                         ELSE {u}
             IN L(t)
Elementwise == \A k \in 1..Len(heap) : IsArr(heap[k]) =>
                 \A i \in 1..Len(heap[k].elems) :
                    \A lf \in Leaves(heap[k].elems[i]) : Len(lf) = 2 => lf[2] = i
\* a float never becomes the accumulator of a scalar row, a dual number never its float argument
Kinds == \A k \in 1..Len(heap) : \A i \in 1..Len(heap[k].elems) :
            LET t == heap[k].elems[i] IN
            t[1] = "row" => /\ t[3] # Nil /\ t[3][1] # "F"
                            /\ (t[5] # Nil => t[5][1] = "F")
                            /\ (t[4] # Nil => t[4][1] # "F")

ModelOK == TypeOK /\ Elementwise /\ Kinds
Export == Len(steps) = Depth => PrintT(<<"PYARR", ToJson([shape |-> shape, steps |-> steps, heap |-> heap])>>)
=============================================================================
