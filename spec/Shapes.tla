------------------------------- MODULE Shapes -------------------------------
(***************************************************************************)
(* Type descriptors of num-dual's number types, including nesting:         *)
(*    [k |-> "F"]                          the float itself                *)
(*    [k |-> "Dual", inner |-> T]          Dual<T, F>                      *)
(*    [k |-> "DualVec", n |-> 2, inner |-> T]   DualVec<T, F, 2>   ...     *)
(* with the per-kind tables that the rendering (C18), serialisation (C16), *)
(* NDERIV (C04) and Python (C17) models share: stored fields in            *)
(* declaration order, printed symbols, part shapes, order per level.       *)
(***************************************************************************)
EXTENDS Integers, Sequences, FiniteSets

F == [k |-> "F"]
TD(kind, inner) == [k |-> kind, inner |-> inner]
TDV(kind, n, inner) == [k |-> kind, n |-> n, inner |-> inner]
TDH(m, n, inner) == [k |-> "HyperDualVec", m |-> m, n |-> n, inner |-> inner]

IsVecK(k) == k \in {"DualVec", "Dual2Vec", "HyperDualVec"}

FieldsK(k) ==
    CASE k \in {"Dual", "DualVec"}            -> <<"eps">>
      [] k \in {"Dual2", "Dual2Vec"}          -> <<"v1", "v2">>
      [] k = "Dual3"                          -> <<"v1", "v2", "v3">>
      [] k \in {"HyperDual", "HyperDualVec"}  -> <<"eps1", "eps2", "eps1eps2">>
      [] k = "HHD" -> <<"eps1", "eps2", "eps3", "eps1eps2", "eps1eps3", "eps2eps3", "eps1eps2eps3">>

\* the symbol Display prints after each part
SymbolsK(k) ==
    CASE k \in {"Dual", "DualVec"}            -> <<"ε">>
      [] k \in {"Dual2", "Dual2Vec"}          -> <<"ε1", "ε1²">>
      [] k = "Dual3"                          -> <<"v1", "v2", "v3">>
      [] k \in {"HyperDual", "HyperDualVec"}  -> <<"ε1", "ε2", "ε1ε2">>
      [] k = "HHD" -> <<"ε1", "ε2", "ε3", "ε1ε2", "ε1ε3", "ε2ε3", "ε1ε2ε3">>

\* derivative order contributed by one level (the $nderiv of impl_derivatives!)
OrderK(k) ==
    CASE k = "F" -> 0
      [] k \in {"Dual", "DualVec"} -> 1
      [] k \in {"Dual2", "Dual2Vec", "HyperDual", "HyperDualVec"} -> 2
      [] k \in {"Dual3", "HHD"} -> 3

RECURSIVE NDeriv(_)
\* const NDERIV: usize = T::NDERIV + $nderiv
NDeriv(ty) == IF ty.k = "F" THEN 0 ELSE NDeriv(ty.inner) + OrderK(ty.k)

RECURSIVE Depth(_)
Depth(ty) == IF ty.k = "F" THEN 0 ELSE 1 + Depth(ty.inner)

PartDimsT(ty, f) ==
    CASE ty.k = "DualVec"  -> <<ty.n, 1>>
      [] ty.k = "Dual2Vec" -> IF f = "v1" THEN <<1, ty.n>> ELSE <<ty.n, ty.n>>
      [] ty.k = "HyperDualVec" ->
            IF f = "eps1" THEN <<ty.m, 1>>
            ELSE IF f = "eps2" THEN <<1, ty.n>> ELSE <<ty.m, ty.n>>

FieldSetT(ty) == {FieldsK(ty.k)[i] : i \in 1..Len(FieldsK(ty.k))}

---------------------------------------------------------------------------
(* a generator of values with (mostly) pairwise distinct leaves *)
\* numbers that exercise the shortest-round-trip printing: decimals, dyadics, big, tiny
NumList == << <<1, 10>>, <<-7, 4>>, <<3, 1>>, <<-1, 3>>, <<1000000, 1>>, <<5, 2>>, <<-2, 1>>, <<1, 8>>,
              <<123456789, 1000>>, <<0, 1>>, <<-9, 1>>, <<22, 7>>, <<1, 1000000>>, <<17, 1>>, <<-3, 8>>,
              <<7, 100>>, <<4, 1>>, <<-11, 2>>, <<13, 1>>, <<2, 3>>, <<-1, 1>>, <<99, 10>>, <<6, 1>> >>
Leaf(b) == NumList[(b % Len(NumList)) + 1]

RECURSIVE GenVal(_, _, _)
\* pres: presence pattern of the OUTERMOST level (ignored for scalar kinds)
GenVal(ty, b, pres) ==
    IF ty.k = "F" THEN Leaf(b)
    ELSE LET fs == FieldsK(ty.k)
             sub(i, j) == GenVal(ty.inner, b * 5 + 3 * i + j + 1, pres)
         IN  [f \in {"re"} \cup FieldSetT(ty) |->
                IF f = "re" THEN GenVal(ty.inner, b * 5, pres)
                ELSE LET i == CHOOSE i \in 1..Len(fs) : fs[i] = f
                     IN  IF IsVecK(ty.k)
                         THEN IF pres[f]
                              THEN LET d == PartDimsT(ty, f)
                                   IN  [p |-> TRUE,
                                        m |-> [r \in 1..d[1] |-> [c \in 1..d[2] |->
                                                 GenVal(ty.inner, b * 5 + 11 * i + 4 * r + c, pres)]]]
                              ELSE [p |-> FALSE]
                         ELSE GenVal(ty.inner, b * 5 + 2 * i + 1, pres)]

PresSetT(ty) == IF IsVecK(ty.k) THEN [FieldSetT(ty) -> BOOLEAN]
                ELSE {[f \in FieldSetT(ty) |-> TRUE]}
=============================================================================
