------------------------------- MODULE RingX -------------------------------
(***************************************************************************)
(* The scalar interpretation "X": rationals extended by the IEEE-754       *)
(* special values, with the IEEE rules for the operations that create and  *)
(* propagate them:                                                         *)
(*     x / 0 = +-inf (x # 0),  0 / 0 = NaN,  0 * inf = NaN,  inf - inf =   *)
(*     NaN,  inf / inf = NaN,  0^negative = +inf,  0^0 = 1,  x / inf = 0   *)
(* At the enumerated special points of C10 no rounding is involved, so     *)
(* evaluating the B-formulas over X computes exactly what the floating     *)
(* point code computes there and decides "no NaN or infinity arises from   *)
(* an intermediate 0 * inf or 0 / 0".  Zero is +0 (the special points have *)
(* non-negative-zero real parts; their float neighbours are covered by the *)
(* harness).                                                               *)
(***************************************************************************)
EXTENDS Rat, TLC

XQ(q)   == <<"q", q>>
XInf(s) == IF s > 0 THEN <<"pinf">> ELSE <<"ninf">>
XNaN    == <<"nan">>
XIsQ(x)   == x[1] = "q"
XIsNaN(x) == x[1] = "nan"
XIsInf(x) == x[1] \in {"pinf", "ninf"}
XFinite(x) == XIsQ(x)
XSgn(x) == IF x[1] = "pinf" THEN 1 ELSE IF x[1] = "ninf" THEN -1 ELSE QSign(x[2])
XIsZeroV(x) == XIsQ(x) /\ QIsZero(x[2])
X0 == XQ(Q0)
X1 == XQ(Q1)

XNeg(x) == CASE XIsQ(x) -> XQ(QNeg(x[2])) [] XIsNaN(x) -> XNaN [] OTHER -> XInf(-XSgn(x))
XAdd(a, b) ==
    CASE XIsNaN(a) \/ XIsNaN(b) -> XNaN
      [] XIsQ(a) /\ XIsQ(b) -> XQ(QAdd(a[2], b[2]))
      [] XIsInf(a) /\ XIsInf(b) -> IF XSgn(a) = XSgn(b) THEN a ELSE XNaN        \* inf - inf
      [] XIsInf(a) -> a
      [] OTHER -> b
XSub(a, b) == XAdd(a, XNeg(b))
\* |x| >= SqBig stands for "x * x overflows" (1.3e154 for f64, 1.8e19 for f32)
SqBig == <<4096, 1>>
XIsSqBig(a) == XIsQ(a) /\ (IF a[2][1] < 0 THEN -a[2][1] ELSE a[2][1]) \div a[2][2] >= SqBig[1]    \* (no cross-multiplication: TLC's integers)
\* 0 < |x| <= 1/SqBig stands for "x * x underflows to 0"
XIsSqTiny(a) == XIsQ(a) /\ ~QIsZero(a[2]) /\ a[2][2] \div (IF a[2][1] < 0 THEN -a[2][1] ELSE a[2][1]) >= SqBig[1]
XMul(a, b) ==
    CASE XIsNaN(a) \/ XIsNaN(b) -> XNaN
      [] XIsSqBig(a) /\ XIsSqBig(b) -> XInf(XSgn(a) * XSgn(b))                  \* overflow
      [] XIsSqTiny(a) /\ XIsSqTiny(b) -> X0                                     \* underflow
      [] XIsQ(a) /\ XIsQ(b) -> XQ(QMul(a[2], b[2]))
      [] XIsZeroV(a) \/ XIsZeroV(b) -> XNaN                                      \* 0 * inf
      [] OTHER -> XInf(XSgn(a) * XSgn(b))
XRecip(a) ==
    CASE XIsNaN(a) -> XNaN
      [] XIsInf(a) -> X0
      [] XIsZeroV(a) -> XInf(1)                                                   \* 1 / +0
      [] OTHER -> XQ(QInv(a[2]))
XDiv(a, b) ==
    CASE XIsNaN(a) \/ XIsNaN(b) -> XNaN
      [] XIsInf(a) /\ XIsInf(b) -> XNaN
      [] XIsZeroV(a) /\ XIsZeroV(b) -> XNaN                                      \* 0 / 0
      [] OTHER -> XMul(a, XRecip(b))
XPowi(a, n) ==
    CASE XIsNaN(a) -> XNaN
      [] n = 0 -> X1
      [] XIsZeroV(a) -> IF n > 0 THEN X0 ELSE XInf(1)
      [] XIsInf(a) -> IF n < 0 THEN X0 ELSE XInf(IF n % 2 = 0 THEN 1 ELSE XSgn(a))
      [] OTHER -> XQ(QPow(a[2], n))
\* real power at the points we evaluate: base 0 (any exponent) or integral exponents
XPowf(a, q) ==
    CASE XIsNaN(a) -> XNaN
      [] QIsZero(q) -> X1
      [] XIsZeroV(a) -> IF QSign(q) > 0 THEN X0 ELSE XInf(1)
      [] QIsInt(q) -> XPowi(a, q[1])
      [] a = X1 -> X1
      [] OTHER -> Assert(FALSE, <<"XPowf: no exact value", a, q>>)
\* elementary functions at the special points (value at 0 resp. 1)
\* |x| >= Huge stands for "exp(|x|) overflows" (710 for f64, 89 for f32): the saturation points
Huge == <<1000, 1>>
XIsHuge(a) == XIsQ(a) /\ ~QLt(QAbs(a[2]), Huge)
XFun(fn, a) ==
    CASE XIsHuge(a) /\ fn \in {"exp", "exp2", "cosh"} -> IF fn = "cosh" \/ QSign(a[2]) > 0 THEN XInf(1) ELSE X0
      [] XIsHuge(a) /\ fn = "sinh" -> XInf(QSign(a[2]))
      [] XIsHuge(a) /\ fn = "tanh" -> XQ(QInt(QSign(a[2])))
      [] XIsHuge(a) /\ fn = "exp_m1" -> IF QSign(a[2]) > 0 THEN XInf(1) ELSE XQ(QInt(-1))
      \* a finite irrational value (pi/2, ln 2x): the real part is not compared at these points
      [] XIsSqBig(a) /\ fn \in {"atan", "asinh", "acosh"} -> XQ(QInt(XSgn(a)))
      [] fn \in {"sin", "sinh", "asin", "atan", "asinh", "atanh", "exp_m1", "ln_1p", "tan", "tanh"} /\ XIsZeroV(a) -> X0
      [] fn \in {"cos", "cosh", "exp", "exp2"} /\ XIsZeroV(a) -> X1
      [] fn \in {"ln", "log2", "log10"} /\ a = X1 -> X0
      [] fn = "sqrt" /\ XIsQ(a) /\ QHasSqrt(a[2]) -> XQ(QSqrt(a[2]))
      [] fn = "sqrt" /\ a = <<"pinf">> -> a
      [] OTHER -> Assert(FALSE, <<"XFun: no exact value", fn, a>>)
XLt(a, b) == XIsQ(a) /\ XIsQ(b) /\ QLt(a[2], b[2])
XAbs(a) == CASE XIsQ(a) -> XQ(QAbs(a[2])) [] XIsNaN(a) -> a [] OTHER -> XInf(1)
=============================================================================
