------------------------------- MODULE DerivOps -------------------------------
(***************************************************************************)
(* C07 at the source: every public operator of the container               *)
(*   Derivative<T, F, R, C>(Option<OMatrix<T, R, C>>)      (derivative.rs) *)
(* -- Mul<T>, Div<T> (owned and borrowed), &a * &b, tr_mul, the three Add  *)
(* and three Sub impls, two Neg impls, AddAssign, SubAssign, MulAssign<T>, *)
(* DivAssign<T>, unwrap_generic, derivative_generic -- for every           *)
(* combination of absent / present operands.  The refinement mapping is    *)
(* Dense (absent |-> zeros); DenseOK states that each operator commutes    *)
(* with it.  Every case is exported with its result and replayed on the    *)
(* real container for statically and dynamically sized matrices.           *)
(***************************************************************************)
EXTENDS RingQ, Sequences, FiniteSets, Json

B == INSTANCE DualB WITH
        SAdd <- QAdd, SSub <- QSub, SMul <- QMul, SDiv <- QDiv, SNeg <- QNeg, SRecip <- QInv,
        SZero <- Q0, SOne <- Q1, SOfQ <- LAMBDA q : q,
        SMulF <- QMul, SDivF <- QDiv, SAddF <- QAdd, SSubF <- QSub,
        SFun <- QFun, SPowi <- QPow, SPowf <- QPowf, SLog <- QLog, SAtan2 <- QAtan2,
        SRe <- LAMBDA t : t,
        SIsZero <- QIsZero, SIsOne <- LAMBDA t : t = Q1,
        SIsPositive <- LAMBDA t : QSign(t) >= 0, SIsNegative <- LAMBDA t : QSign(t) < 0,
        FLt <- QLt, FEps <- <<1, 1048576>>, FAbs <- QAbs, FOfQ <- LAMBDA q : q

\* two fixed matrices per shape (distinct entries, mixed signs) and the zero matrix
MatA(r, c) == B!Mat(r, c, LAMBDA i, j : <<2 * i + 3 * j - 4, 1>>)
MatB(r, c) == B!Mat(r, c, LAMBDA i, j : QMake((5 * i - 2 * j) + 1, 2))
Derivs(r, c) == {B!None, B!Some(MatA(r, c)), B!Some(MatB(r, c)), B!Some(B!MatZeros(r, c))}
Shapes == {<<2, 1>>, <<1, 2>>, <<2, 2>>, <<1, 1>>, <<3, 1>>}
Scal == {<<2, 1>>, <<-1, 2>>}

SameShapeOps == {"add_oo", "add_or", "add_rr", "sub_oo", "sub_or", "sub_rr", "add_assign", "sub_assign"}
ScalarOps == {"mul_t", "mul_t_ref", "div_t", "div_t_ref", "mul_assign_t", "div_assign_t"}
UnaryOps == {"neg", "neg_ref", "unwrap_generic"}

Apply(op, a, b, s, sh) ==
    CASE op \in {"add_oo"} -> B!DAdd_oo(a, b) [] op = "add_or" -> B!DAdd_or(a, b) [] op = "add_rr" -> B!DAdd_rr(a, b)
      [] op = "sub_oo" -> B!DSub_oo(a, b) [] op = "sub_or" -> B!DSub_or(a, b) [] op = "sub_rr" -> B!DSub_rr(a, b)
      [] op = "add_assign" -> B!DAddAssign(a, b) [] op = "sub_assign" -> B!DSubAssign(a, b)
      [] op \in {"mul_t", "mul_t_ref"} -> B!DMulT(a, s) [] op \in {"div_t", "div_t_ref"} -> B!DDivT(a, s)
      [] op = "mul_assign_t" -> B!DMulAssignT(a, s) [] op = "div_assign_t" -> B!DDivAssignT(a, s)
      [] op \in {"neg", "neg_ref"} -> B!DNeg(a)
      [] op = "unwrap_generic" -> B!Some(B!DUnwrap(a, sh[1], sh[2]))
      [] op = "mul" -> B!DMul(a, b)            \* (r x 1) * (1 x c)
      [] op = "tr_mul" -> B!DTrMul(a, b)       \* (1 x r)^T (1 x c)

VARIABLE c
Init ==
    \/ \E sh \in Shapes, op \in SameShapeOps : \E a \in Derivs(sh[1], sh[2]), b \in Derivs(sh[1], sh[2]) :
          c = [op |-> op, sh |-> sh, sh2 |-> sh, a |-> a, b |-> b, s |-> Q1]
    \/ \E sh \in Shapes, op \in ScalarOps, s \in Scal : \E a \in Derivs(sh[1], sh[2]) :
          c = [op |-> op, sh |-> sh, sh2 |-> sh, a |-> a, b |-> a, s |-> s]
    \/ \E sh \in Shapes, op \in UnaryOps : \E a \in Derivs(sh[1], sh[2]) :
          c = [op |-> op, sh |-> sh, sh2 |-> sh, a |-> a, b |-> a, s |-> Q1]
    \/ \E r \in 1..3, cc \in 1..3 : \E a \in Derivs(r, 1), b \in Derivs(1, cc) :
          c = [op |-> "mul", sh |-> <<r, 1>>, sh2 |-> <<1, cc>>, a |-> a, b |-> b, s |-> Q1]
    \/ \E r \in 1..3, cc \in 1..3 : \E a \in Derivs(1, r), b \in Derivs(1, cc) :
          c = [op |-> "tr_mul", sh |-> <<1, r>>, sh2 |-> <<1, cc>>, a |-> a, b |-> b, s |-> Q1]
Next == UNCHANGED c
Spec == Init /\ [][Next]_c

ResShape(cc) == CASE cc.op = "mul" -> <<cc.sh[1], cc.sh2[2]>> [] cc.op = "tr_mul" -> <<cc.sh[2], cc.sh2[2]>> [] OTHER -> cc.sh
D(x, sh) == B!Dense(x, sh[1], sh[2])
Full(x, sh) == B!Some(D(x, sh))
\* the operator commutes with the refinement mapping absent |-> zeros
DenseOK ==
    D(Apply(c.op, c.a, c.b, c.s, c.sh), ResShape(c)) = D(Apply(c.op, Full(c.a, c.sh), Full(c.b, c.sh2), c.s, c.sh), ResShape(c))
ExportDeriv == PrintT(<<"DERIV", ToJson([case |-> c, result |-> Apply(c.op, c.a, c.b, c.s, c.sh), rshape |-> ResShape(c)])>>)
\* derivative_generic(r, c, i): exactly one entry is one, at nalgebra's column-major linear index i
DerivGenericOK ==
    \A sh \in Shapes : \A i \in 0..(sh[1] * sh[2] - 1) :
        LET m == B!DDerivGeneric(sh[1], sh[2], i).m
        IN  \A ii \in 1..sh[1], jj \in 1..sh[2] : m[ii][jj] = (IF (jj - 1) * sh[1] + (ii - 1) = i THEN Q1 ELSE Q0)
DerivGenericInv == c.op = "neg" => DerivGenericOK
=============================================================================
