------------------------------- MODULE DualB -------------------------------
(***************************************************************************)
(* Layer B -- IMPLEMENTATION SHAPED: one operator per function of the      *)
(* Rust code, transcribed from                                             *)
(*   derivative.rs (the Derivative(Option<matrix>) container),             *)
(*   dual.rs dual_vec.rs dual2.rs dual2_vec.rs dual3.rs hyperdual.rs       *)
(*   hyperdual_vec.rs hyperhyperdual.rs (chain_rule, Mul, Div per type),   *)
(*   derivatives.rs (impl_derivatives!: the closed forms f0..f3 and the    *)
(*   composite functions), macros.rs (impl_dual!: Add/Sub/Neg/assign/      *)
(*   scalar/Signed/Zero/One ...).                                          *)
(* Nothing here is "simplified mathematics": the case analysis on absent   *)
(* parts, the order of the factors, T::one()+T::one(), 1/x versus recip,   *)
(* the order gating second!/third! are kept, so that a discrepancy between *)
(* this layer and layer A (JetA) is a statement about the code.            *)
(*                                                                         *)
(* The scalar type T: DualNum<F> is a module parameter (operators below);  *)
(* instantiating it with the B-operators of another type gives nesting.    *)
(***************************************************************************)
EXTENDS Integers, Sequences, FiniteSets, FiniteSetsExt, Rat

CONSTANTS
    SAdd(_, _), SSub(_, _), SMul(_, _), SDiv(_, _), SNeg(_), SRecip(_),
    SZero, SOne,
    SOfQ(_),            \* T::from(f) for a float f given as a rational
    SMulF(_, _),        \* T * F         (second argument a rational)
    SDivF(_, _),        \* T / F
    SAddF(_, _),        \* T + F
    SSubF(_, _),        \* T - F
    SFun(_, _),         \* SFun(name, t): unary elementary function of T
    SPowi(_, _),        \* t.powi(n)
    SPowf(_, _),        \* t.powf(q)
    SLog(_, _),         \* t.log(base)
    SAtan2(_, _),       \* t.atan2(u)
    SRe(_),             \* t.re(): the innermost real part as a rational-like value
    SIsZero(_), SIsOne(_), SIsPositive(_), SIsNegative(_),
    FLt(_, _),          \* comparison of two re() values:  a < b
    FEps,               \* F::epsilon() as a re() value
    FAbs(_),            \* |re() value|
    FOfQ(_)             \* a rational as a re() value

a (+) b == SAdd(a, b)
a (-) b == SSub(a, b)
a (.) b == SMul(a, b)
a (/) b == SDiv(a, b)

NA == "NA"      \* poison: a tower entry that the order of the type must not consume

---------------------------------------------------------------------------
(* type descriptors *)
TDual            == [k |-> "Dual"]
TDualVec(n)      == [k |-> "DualVec", n |-> n]
TDual2           == [k |-> "Dual2"]
TDual2Vec(n)     == [k |-> "Dual2Vec", n |-> n]
TDual3           == [k |-> "Dual3"]
THyperDual       == [k |-> "HyperDual"]
THyperDualVec(m, n) == [k |-> "HyperDualVec", m |-> m, n |-> n]
THHD             == [k |-> "HHD"]

IsVec(ty) == ty.k \in {"DualVec", "Dual2Vec", "HyperDualVec"}

Fields(ty) ==
    CASE ty.k \in {"Dual", "DualVec"}            -> <<"eps">>
      [] ty.k \in {"Dual2", "Dual2Vec"}          -> <<"v1", "v2">>
      [] ty.k = "Dual3"                          -> <<"v1", "v2", "v3">>
      [] ty.k \in {"HyperDual", "HyperDualVec"}  -> <<"eps1", "eps2", "eps1eps2">>
      [] ty.k = "HHD" -> <<"eps1", "eps2", "eps3", "eps1eps2", "eps1eps3", "eps2eps3", "eps1eps2eps3">>
FieldSet(ty) == {Fields(ty)[i] : i \in 1..Len(Fields(ty))}

\* impl_first_derivatives / impl_second_derivatives / impl_third_derivatives
Order(ty) ==
    CASE ty.k \in {"Dual", "DualVec"} -> 1
      [] ty.k \in {"Dual2", "Dual2Vec", "HyperDual", "HyperDualVec"} -> 2
      [] ty.k \in {"Dual3", "HHD"} -> 3

\* <<rows, cols>> of the matrix stored in an optional part
PartDims(ty, f) ==
    CASE ty.k = "DualVec"  -> <<ty.n, 1>>
      [] ty.k = "Dual2Vec" -> IF f = "v1" THEN <<1, ty.n>> ELSE <<ty.n, ty.n>>
      [] ty.k = "HyperDualVec" ->
            IF f = "eps1" THEN <<ty.m, 1>>
            ELSE IF f = "eps2" THEN <<1, ty.n>> ELSE <<ty.m, ty.n>>

---------------------------------------------------------------------------
(* matrices as sequences of rows *)
Mat(r, c, e(_, _)) == [i \in 1..r |-> [j \in 1..c |-> e(i, j)]]
MatMap(m, f(_)) == [i \in 1..Len(m) |-> [j \in 1..Len(m[i]) |-> f(m[i][j])]]
MatZip(a, b, f(_, _)) == [i \in 1..Len(a) |-> [j \in 1..Len(a[i]) |-> f(a[i][j], b[i][j])]]
SSumIdx(S, t(_)) == FoldSet(LAMBDA k, acc : SAdd(acc, t(k)), SZero, S)
\* a (r x c) * b (c x c2); only used with c >= 1
MatMul(a, b) ==
    [i \in 1..Len(a) |-> [j \in 1..Len(b[1]) |->
        SSumIdx(1..Len(b), LAMBDA k : SMul(a[i][k], b[k][j]))]]
\* transpose(a) * b with a (r x c), b (r x c2); only used with r >= 1
MatTrMul(a, b) ==
    [i \in 1..Len(a[1]) |-> [j \in 1..Len(b[1]) |->
        SSumIdx(1..Len(a), LAMBDA k : SMul(a[k][i], b[k][j]))]]
MatTranspose(a, r, c) == [j \in 1..c |-> [i \in 1..r |-> a[i][j]]]
MatZeros(r, c) == Mat(r, c, LAMBDA i, j : SZero)
MatEntries(m) == {<<i, j>> : i \in 1..Len(m), j \in 1..(IF Len(m) = 0 THEN 0 ELSE Len(m[1]))}

---------------------------------------------------------------------------
(* derivative.rs : struct Derivative(Option<OMatrix<T, R, C>>) *)
Some(m) == [p |-> TRUE, m |-> m]
None    == [p |-> FALSE]

\* impl Mul<T> for Derivative / for &Derivative :  self.0.map(|x| x * rhs)
DMulT(d, s) == IF d.p THEN Some(MatMap(d.m, LAMBDA x : SMul(x, s))) ELSE None
\* impl Div<T> for Derivative / for &Derivative
DDivT(d, s) == IF d.p THEN Some(MatMap(d.m, LAMBDA x : SDiv(x, s))) ELSE None
\* impl Mul<&Derivative> for &Derivative :  zip(..).map(|(s, r)| s * r)
DMul(a, b) == IF a.p /\ b.p THEN Some(MatMul(a.m, b.m)) ELSE None
\* fn tr_mul
DTrMul(a, b) == IF a.p /\ b.p THEN Some(MatTrMul(a.m, b.m)) ELSE None
\* impl Add for Derivative (three variants: owned+owned, owned+&, &+&; same match)
DAddMatch(a, b) ==
    CASE a.p /\ b.p   -> Some(MatZip(a.m, b.m, LAMBDA x, y : SAdd(x, y)))
      [] a.p /\ ~b.p  -> a
      [] ~a.p /\ b.p  -> b
      [] OTHER        -> None
DAdd_oo(a, b) == DAddMatch(a, b)
DAdd_or(a, b) == DAddMatch(a, b)
DAdd_rr(a, b) == DAddMatch(a, b)
\* impl Sub for Derivative (three variants)
DSubMatch(a, b) ==
    CASE a.p /\ b.p   -> Some(MatZip(a.m, b.m, LAMBDA x, y : SSub(x, y)))
      [] a.p /\ ~b.p  -> a
      [] ~a.p /\ b.p  -> Some(MatMap(b.m, LAMBDA y : SNeg(y)))
      [] OTHER        -> None
DSub_oo(a, b) == DSubMatch(a, b)
DSub_or(a, b) == DSubMatch(a, b)
DSub_rr(a, b) == DSubMatch(a, b)
\* impl Neg for Derivative / &Derivative
DNeg(a) == IF a.p THEN Some(MatMap(a.m, LAMBDA x : SNeg(x))) ELSE None
\* impl AddAssign :  (Some,Some) s += r ; (None,Some(r)) self = Some(r) ; (_,None) ()
DAddAssign(a, b) ==
    CASE a.p /\ b.p   -> Some(MatZip(a.m, b.m, LAMBDA x, y : SAdd(x, y)))
      [] ~a.p /\ b.p  -> b
      [] OTHER        -> a
\* impl SubAssign :  (None,Some(r)) self = Some(-&r)
DSubAssign(a, b) ==
    CASE a.p /\ b.p   -> Some(MatZip(a.m, b.m, LAMBDA x, y : SSub(x, y)))
      [] ~a.p /\ b.p  -> Some(MatMap(b.m, LAMBDA y : SNeg(y)))
      [] OTHER        -> a
\* impl MulAssign<T> / DivAssign<T> :  if let Some(s) = &mut self.0 { *s *= rhs }
DMulAssignT(a, s) == IF a.p THEN Some(MatMap(a.m, LAMBDA x : SMul(x, s))) ELSE a
DDivAssignT(a, s) == IF a.p THEN Some(MatMap(a.m, LAMBDA x : SDiv(x, s))) ELSE a
\* fn unwrap_generic(self, r, c) :  unwrap_or_else(zeros)
DUnwrap(d, r, c) == IF d.p THEN d.m ELSE MatZeros(r, c)
\* fn derivative_generic(r, c, i): zeros with m[i] = one; i is nalgebra's linear
\* (column-major, 0-based) index
DDerivGeneric(r, c, i) ==
    Some(Mat(r, c, LAMBDA ii, jj : IF (jj - 1) * r + (ii - 1) = i THEN SOne ELSE SZero))
\* the refinement mapping of C07: an absent part stands for zeros
Dense(d, r, c) == DUnwrap(d, r, c)

---------------------------------------------------------------------------
(* constructors *)
\* from_re: scalar types fill T::zero(), vector types Derivative::none()
FromRe(ty, re) ==
    [f \in {"re"} \cup FieldSet(ty) |->
        IF f = "re" THEN re ELSE IF IsVec(ty) THEN None ELSE SZero]

---------------------------------------------------------------------------
(* chain_rule, Mul<&Self> for &Self, Div<&Self> for &Self : one block per file *)

\* ---- dual.rs
ChainDual(x, f0, f1) == [re |-> f0, eps |-> x.eps (.) f1]
MulDual(a, b) ==
    [re  |-> a.re (.) b.re,
     eps |-> (a.eps (.) b.re) (+) (b.eps (.) a.re)]
DivDual(a, b) ==
    LET inv == SRecip(b.re)
    IN  [re  |-> a.re (.) inv,
         eps |-> (((a.eps (.) b.re) (-) (b.eps (.) a.re)) (.) inv) (.) inv]

\* ---- dual_vec.rs
ChainDualVec(x, f0, f1) == [re |-> f0, eps |-> DMulT(x.eps, f1)]
MulDualVec(a, b) ==
    [re  |-> a.re (.) b.re,
     eps |-> DAdd_oo(DMulT(a.eps, b.re), DMulT(b.eps, a.re))]
DivDualVec(a, b) ==
    LET inv == SRecip(b.re)
    IN  [re  |-> a.re (.) inv,
         eps |-> DMulT(DMulT(DSub_oo(DMulT(a.eps, b.re), DMulT(b.eps, a.re)), inv), inv)]

\* ---- dual2.rs
ChainDual2(x, f0, f1, f2) ==
    [re |-> f0,
     v1 |-> x.v1 (.) f1,
     v2 |-> (x.v2 (.) f1) (+) ((x.v1 (.) x.v1) (.) f2)]
MulDual2(a, b) ==
    [re |-> a.re (.) b.re,
     v1 |-> (b.v1 (.) a.re) (+) (a.v1 (.) b.re),
     v2 |-> (((b.v2 (.) a.re) (+) (a.v1 (.) b.v1)) (+) (b.v1 (.) a.v1)) (+) (a.v2 (.) b.re)]
DivDual2(a, b) ==
    LET inv  == SRecip(b.re)
        inv2 == inv (.) inv
    IN  [re |-> a.re (.) inv,
         v1 |-> ((a.v1 (.) b.re) (-) (b.v1 (.) a.re)) (.) inv2,
         v2 |-> ((a.v2 (.) inv)
                  (-) ((((b.v2 (.) a.re) (+) (a.v1 (.) b.v1)) (+) (b.v1 (.) a.v1)) (.) inv2))
                (+) ((b.v1 (.) b.v1) (.) ((((SOne (+) SOne) (.) a.re) (.) inv2) (.) inv))]

\* ---- dual2_vec.rs
ChainDual2Vec(x, f0, f1, f2) ==
    [re |-> f0,
     v1 |-> DMulT(x.v1, f1),
     v2 |-> DAdd_oo(DMulT(x.v2, f1), DMulT(DTrMul(x.v1, x.v1), f2))]
MulDual2Vec(a, b) ==
    [re |-> a.re (.) b.re,
     v1 |-> DAdd_oo(DMulT(b.v1, a.re), DMulT(a.v1, b.re)),
     v2 |-> DAdd_oo(DAdd_oo(DAdd_oo(DMulT(b.v2, a.re), DTrMul(a.v1, b.v1)),
                            DTrMul(b.v1, a.v1)),
                    DMulT(a.v2, b.re))]
DivDual2Vec(a, b) ==
    LET inv  == SRecip(b.re)
        inv2 == inv (.) inv
    IN  [re |-> a.re (.) inv,
         v1 |-> DMulT(DSub_oo(DMulT(a.v1, b.re), DMulT(b.v1, a.re)), inv2),
         v2 |-> DAdd_oo(
                  DSub_oo(DMulT(a.v2, inv),
                          DMulT(DAdd_oo(DAdd_oo(DMulT(b.v2, a.re), DTrMul(a.v1, b.v1)),
                                        DTrMul(b.v1, a.v1)),
                                inv2)),
                  DMulT(DTrMul(b.v1, b.v1), (((SOne (+) SOne) (.) a.re) (.) inv2) (.) inv))]

\* ---- dual3.rs
ChainDual3(x, f0, f1, f2, f3) ==
    LET three == (SOne (+) SOne) (+) SOne
    IN  [re |-> f0,
         v1 |-> f1 (.) x.v1,
         v2 |-> ((f2 (.) x.v1) (.) x.v1) (+) (f1 (.) x.v2),
         v3 |-> ((((f3 (.) x.v1) (.) x.v1) (.) x.v1) (+) (((three (.) f2) (.) x.v1) (.) x.v2))
                (+) (f1 (.) x.v3)]
MulDual3(a, b) ==
    LET two   == SOne (+) SOne
        three == SOne (+) two
    IN  [re |-> a.re (.) b.re,
         v1 |-> (a.v1 (.) b.re) (+) (a.re (.) b.v1),
         v2 |-> ((a.v2 (.) b.re) (+) ((two (.) a.v1) (.) b.v1)) (+) (a.re (.) b.v2),
         v3 |-> ((a.v3 (.) b.re) (+) (three (.) ((a.v2 (.) b.v1) (+) (a.v1 (.) b.v2))))
                (+) (a.re (.) b.v3)]
DivDual3(a, b) ==
    LET rec == SOne (/) b.re
        f0  == rec
        f1  == SNeg(f0) (.) rec
        f2  == SMulF(f1 (.) rec, QInt(-2))
        f3  == SMulF(f2 (.) rec, QInt(-3))
    IN  MulDual3(a, ChainDual3(b, f0, f1, f2, f3))

\* ---- hyperdual.rs
ChainHyperDual(x, f0, f1, f2) ==
    [re       |-> f0,
     eps1     |-> x.eps1 (.) f1,
     eps2     |-> x.eps2 (.) f1,
     eps1eps2 |-> (x.eps1eps2 (.) f1) (+) ((x.eps1 (.) x.eps2) (.) f2)]
MulHyperDual(a, b) ==
    [re       |-> a.re (.) b.re,
     eps1     |-> (b.eps1 (.) a.re) (+) (a.eps1 (.) b.re),
     eps2     |-> (b.eps2 (.) a.re) (+) (a.eps2 (.) b.re),
     eps1eps2 |-> (((b.eps1eps2 (.) a.re) (+) (a.eps1 (.) b.eps2)) (+) (b.eps1 (.) a.eps2))
                  (+) (a.eps1eps2 (.) b.re)]
DivHyperDual(a, b) ==
    LET inv  == SRecip(b.re)
        inv2 == inv (.) inv
    IN  [re       |-> a.re (.) inv,
         eps1     |-> ((a.eps1 (.) b.re) (-) (b.eps1 (.) a.re)) (.) inv2,
         eps2     |-> ((a.eps2 (.) b.re) (-) (b.eps2 (.) a.re)) (.) inv2,
         eps1eps2 |-> ((a.eps1eps2 (.) inv)
                        (-) ((((b.eps1eps2 (.) a.re) (+) (a.eps1 (.) b.eps2))
                              (+) (b.eps1 (.) a.eps2)) (.) inv2))
                      (+) ((b.eps1 (.) b.eps2) (.) ((((SOne (+) SOne) (.) a.re) (.) inv2) (.) inv))]

\* ---- hyperdual_vec.rs
ChainHyperDualVec(x, f0, f1, f2) ==
    [re       |-> f0,
     eps1     |-> DMulT(x.eps1, f1),
     eps2     |-> DMulT(x.eps2, f1),
     eps1eps2 |-> DAdd_oo(DMulT(x.eps1eps2, f1), DMulT(DMul(x.eps1, x.eps2), f2))]
MulHyperDualVec(a, b) ==
    [re       |-> a.re (.) b.re,
     eps1     |-> DAdd_oo(DMulT(b.eps1, a.re), DMulT(a.eps1, b.re)),
     eps2     |-> DAdd_oo(DMulT(b.eps2, a.re), DMulT(a.eps2, b.re)),
     eps1eps2 |-> DAdd_oo(DAdd_oo(DAdd_oo(DMulT(b.eps1eps2, a.re), DMul(a.eps1, b.eps2)),
                                  DMul(b.eps1, a.eps2)),
                          DMulT(a.eps1eps2, b.re))]
DivHyperDualVec(a, b) ==
    LET inv  == SRecip(b.re)
        inv2 == inv (.) inv
    IN  [re       |-> a.re (.) inv,
         eps1     |-> DMulT(DSub_oo(DMulT(a.eps1, b.re), DMulT(b.eps1, a.re)), inv2),
         eps2     |-> DMulT(DSub_oo(DMulT(a.eps2, b.re), DMulT(b.eps2, a.re)), inv2),
         eps1eps2 |-> DAdd_oo(
                        DSub_oo(DMulT(a.eps1eps2, inv),
                                DMulT(DAdd_oo(DAdd_oo(DMulT(b.eps1eps2, a.re),
                                                      DMul(a.eps1, b.eps2)),
                                              DMul(b.eps1, a.eps2)),
                                      inv2)),
                        DMulT(DMul(b.eps1, b.eps2),
                              (((SOne (+) SOne) (.) a.re) (.) inv2) (.) inv))]

\* ---- hyperhyperdual.rs
ChainHHD(x, f0, f1, f2, f3) ==
    [re   |-> f0,
     eps1 |-> f1 (.) x.eps1,
     eps2 |-> f1 (.) x.eps2,
     eps3 |-> f1 (.) x.eps3,
     eps1eps2 |-> (f1 (.) x.eps1eps2) (+) ((f2 (.) x.eps1) (.) x.eps2),
     eps1eps3 |-> (f1 (.) x.eps1eps3) (+) ((f2 (.) x.eps1) (.) x.eps3),
     eps2eps3 |-> (f1 (.) x.eps2eps3) (+) ((f2 (.) x.eps2) (.) x.eps3),
     eps1eps2eps3 |->
        ((f1 (.) x.eps1eps2eps3)
         (+) (f2 (.) (((x.eps1 (.) x.eps2eps3) (+) (x.eps2 (.) x.eps1eps3))
                      (+) (x.eps3 (.) x.eps1eps2))))
        (+) (((f3 (.) x.eps1) (.) x.eps2) (.) x.eps3)]
MulHHD(a, b) ==
    [re   |-> a.re (.) b.re,
     eps1 |-> (a.eps1 (.) b.re) (+) (a.re (.) b.eps1),
     eps2 |-> (a.eps2 (.) b.re) (+) (a.re (.) b.eps2),
     eps3 |-> (a.eps3 (.) b.re) (+) (a.re (.) b.eps3),
     eps1eps2 |-> (((a.eps1eps2 (.) b.re) (+) (a.eps1 (.) b.eps2)) (+) (a.eps2 (.) b.eps1))
                  (+) (a.re (.) b.eps1eps2),
     eps1eps3 |-> (((a.eps1eps3 (.) b.re) (+) (a.eps1 (.) b.eps3)) (+) (a.eps3 (.) b.eps1))
                  (+) (a.re (.) b.eps1eps3),
     eps2eps3 |-> (((a.eps2eps3 (.) b.re) (+) (a.eps2 (.) b.eps3)) (+) (a.eps3 (.) b.eps2))
                  (+) (a.re (.) b.eps2eps3),
     eps1eps2eps3 |->
        (((((((a.eps1eps2eps3 (.) b.re)
              (+) (a.eps1 (.) b.eps2eps3))
             (+) (a.eps2 (.) b.eps1eps3))
            (+) (a.eps3 (.) b.eps1eps2))
           (+) (a.eps2eps3 (.) b.eps1))
          (+) (a.eps1eps3 (.) b.eps2))
         (+) (a.eps1eps2 (.) b.eps3))
        (+) (a.re (.) b.eps1eps2eps3)]
DivHHD(a, b) ==
    LET rec == SOne (/) b.re
        f0  == rec
        f1  == SNeg(f0) (.) rec
        f2  == SMulF(f1 (.) rec, QInt(-2))
        f3  == SMulF(f2 (.) rec, QInt(-3))
    IN  MulHHD(a, ChainHHD(b, f0, f1, f2, f3))

---------------------------------------------------------------------------
(* dispatch on the type; f is the tower <<f0, f1, f2, f3>> and the          *)
(* chain_rule! macro passes only what the order of the type consumes        *)
ChainB(ty, x, f) ==
    CASE ty.k = "Dual"         -> ChainDual(x, f[1], f[2])
      [] ty.k = "DualVec"      -> ChainDualVec(x, f[1], f[2])
      [] ty.k = "Dual2"        -> ChainDual2(x, f[1], f[2], f[3])
      [] ty.k = "Dual2Vec"     -> ChainDual2Vec(x, f[1], f[2], f[3])
      [] ty.k = "Dual3"        -> ChainDual3(x, f[1], f[2], f[3], f[4])
      [] ty.k = "HyperDual"    -> ChainHyperDual(x, f[1], f[2], f[3])
      [] ty.k = "HyperDualVec" -> ChainHyperDualVec(x, f[1], f[2], f[3])
      [] ty.k = "HHD"          -> ChainHHD(x, f[1], f[2], f[3], f[4])
MulB(ty, a, b) ==
    CASE ty.k = "Dual"         -> MulDual(a, b)
      [] ty.k = "DualVec"      -> MulDualVec(a, b)
      [] ty.k = "Dual2"        -> MulDual2(a, b)
      [] ty.k = "Dual2Vec"     -> MulDual2Vec(a, b)
      [] ty.k = "Dual3"        -> MulDual3(a, b)
      [] ty.k = "HyperDual"    -> MulHyperDual(a, b)
      [] ty.k = "HyperDualVec" -> MulHyperDualVec(a, b)
      [] ty.k = "HHD"          -> MulHHD(a, b)
DivB(ty, a, b) ==
    CASE ty.k = "Dual"         -> DivDual(a, b)
      [] ty.k = "DualVec"      -> DivDualVec(a, b)
      [] ty.k = "Dual2"        -> DivDual2(a, b)
      [] ty.k = "Dual2Vec"     -> DivDual2Vec(a, b)
      [] ty.k = "Dual3"        -> DivDual3(a, b)
      [] ty.k = "HyperDual"    -> DivHyperDual(a, b)
      [] ty.k = "HyperDualVec" -> DivHyperDualVec(a, b)
      [] ty.k = "HHD"          -> DivHHD(a, b)

---------------------------------------------------------------------------
(* macros.rs : impl_dual! -- generic over the field list [$($im),*]          *)
ImMap2(ty, a, b, sop(_, _), dop(_, _)) ==
    [f \in DOMAIN a |->
        IF f = "re" THEN sop(a.re, b.re)
        ELSE IF IsVec(ty) THEN dop(a[f], b[f]) ELSE sop(a[f], b[f])]
ImMap1(ty, a, reop(_), sop(_), dop(_)) ==
    [f \in DOMAIN a |->
        IF f = "re" THEN reop(a.re)
        ELSE IF IsVec(ty) THEN dop(a[f]) ELSE sop(a[f])]

\* impl_add_sub_rem!:  new(self.re.clone() + &other.re, self.im.clone() + &other.im ...)
AddB(ty, a, b) == ImMap2(ty, a, b, LAMBDA x, y : SAdd(x, y), LAMBDA x, y : DAdd_or(x, y))
SubB(ty, a, b) == ImMap2(ty, a, b, LAMBDA x, y : SSub(x, y), LAMBDA x, y : DSub_or(x, y))
\* impl_neg!:  new(-self.re.clone(), -self.im.clone() ...)
NegB(ty, a) == ImMap1(ty, a, LAMBDA x : SNeg(x), LAMBDA x : SNeg(x), LAMBDA d : DNeg(d))
\* impl_assign_ops!
MulAssignB(ty, a, b) == MulB(ty, a, b)            \* *self = self.clone() * other
DivAssignB(ty, a, b) == DivB(ty, a, b)
AddAssignB(ty, a, b) == ImMap2(ty, a, b, LAMBDA x, y : SAdd(x, y), LAMBDA x, y : DAddAssign(x, y))
SubAssignB(ty, a, b) == ImMap2(ty, a, b, LAMBDA x, y : SSub(x, y), LAMBDA x, y : DSubAssign(x, y))
\* impl_scalar_op!  (s is a float, given as a rational)
MulAssignFB(ty, a, s) ==           \* self.re *= other; self.im *= T::from(other)
    ImMap1(ty, a, LAMBDA x : SMulF(x, s), LAMBDA x : SMul(x, SOfQ(s)),
           LAMBDA d : DMulAssignT(d, SOfQ(s)))
DivAssignFB(ty, a, s) ==
    ImMap1(ty, a, LAMBDA x : SDivF(x, s), LAMBDA x : SDiv(x, SOfQ(s)),
           LAMBDA d : DDivAssignT(d, SOfQ(s)))
MulFB(ty, a, s) == MulAssignFB(ty, a, s)          \* self *= other; self
DivFB(ty, a, s) == DivAssignFB(ty, a, s)
AddFB(ty, a, s) == [a EXCEPT !.re = SAddF(a.re, s)]   \* self.re += other
SubFB(ty, a, s) == [a EXCEPT !.re = SSubF(a.re, s)]
AddAssignFB(ty, a, s) == AddFB(ty, a, s)
SubAssignFB(ty, a, s) == SubFB(ty, a, s)
\* impl_from_f!, impl_zero_one!
FromFB(ty, s) == FromRe(ty, SOfQ(s))
ZeroB(ty) == FromRe(ty, SZero)
OneB(ty)  == FromRe(ty, SOne)
IsZeroB(a) == SIsZero(a.re)
IsOneB(a)  == SIsOne(a.re)
ReB(a) == SRe(a.re)
\* impl_signed!
IsPositiveB(a) == SIsPositive(a.re)
IsNegativeB(a) == SIsNegative(a.re)
\* PartialEq, PartialOrd (and the approx traits) of the four field-compatible types: self.re.eq(&other.re),
\* self.re.partial_cmp(&other.re)
EqB(a, b) == a.re = b.re
LtB(a, b) == FLt(ReB(a), ReB(b))
AbsB(ty, a) == IF IsPositiveB(a) THEN a ELSE NegB(ty, a)
AbsSubB(ty, a, b) == IF FLt(ReB(b), ReB(a)) THEN SubB(ty, a, b) ELSE ZeroB(ty)
SignumB(ty, a) ==
    IF IsPositiveB(a) THEN OneB(ty)
    ELSE IF IsZeroB(a) THEN ZeroB(ty) ELSE NegB(ty, OneB(ty))
\* impl_iterator!:  fold(zero, acc + c) / fold(one, acc * c)   (owned forms forward to &,&)
RECURSIVE SumB(_, _), ProductB(_, _)
SumB(ty, xs)     == IF xs = <<>> THEN ZeroB(ty)
                    ELSE AddB(ty, SumB(ty, SubSeq(xs, 1, Len(xs) - 1)), xs[Len(xs)])
ProductB(ty, xs) == IF xs = <<>> THEN OneB(ty)
                    ELSE MulB(ty, ProductB(ty, SubSeq(xs, 1, Len(xs) - 1)), xs[Len(xs)])
\* lib.rs default methods
MulAddB(ty, x, a, b) == AddB(ty, MulB(ty, x, a), b)     \* self.clone() * a + b

---------------------------------------------------------------------------
(* derivatives.rs : impl_derivatives! -- closed forms, second!/third! gated *)
G2(ord, v) == IF ord >= 2 THEN v ELSE NA
G3(ord, v) == IF ord >= 3 THEN v ELSE NA
Half  == <<1, 2>>
Third == <<1, 3>>      \* F::from(1.0/3.0): the rational stands for the rounded float

TowerB(fn, re, ord) ==
    CASE fn = "recip" ->
            LET rec == SRecip(re)
                f0 == rec
                f1 == SNeg(f0) (.) rec
                f2 == G2(ord, SMulF(f1 (.) rec, QInt(-2)))
                f3 == G3(ord, SMulF(f2 (.) rec, QInt(-3)))
            IN  <<f0, f1, f2, f3>>
      [] fn = "sqrt" ->
            LET rec == SRecip(re)
                f0 == SFun("sqrt", re)
                f1 == SMulF(f0 (.) rec, Half)
                f2 == G2(ord, SMulF(SNeg(f1) (.) rec, Half))
                f3 == G3(ord, SMulF(f2 (.) rec, <<-3, 2>>))       \* (-1 - half)
            IN  <<f0, f1, f2, f3>>
      [] fn = "cbrt" ->
            LET rec == SRecip(re)
                f0 == SFun("cbrt", re)
                f1 == SMulF(f0 (.) rec, Third)
                f2 == G2(ord, SMulF(f1 (.) rec, <<-2, 3>>))       \* (third - 1)
                f3 == G3(ord, SMulF(f2 (.) rec, <<-5, 3>>))       \* (third - 1 - 1)
            IN  <<f0, f1, f2, f3>>
      [] fn = "exp" ->
            LET f == SFun("exp", re) IN <<f, f, G2(ord, f), G3(ord, f)>>
      [] fn = "exp2" ->
            LET f0 == SFun("exp2", re)
                f1 == SMul(f0, SFun("const", "ln2"))
                f2 == G2(ord, SMul(f1, SFun("const", "ln2")))
                f3 == G3(ord, SMul(f2, SFun("const", "ln2")))
            IN  <<f0, f1, f2, f3>>
      [] fn = "exp_m1" ->
            LET f0 == SFun("exp_m1", re)
                f1 == SFun("exp", re)
            IN  <<f0, f1, G2(ord, f1), G3(ord, f1)>>
      [] fn = "ln" ->
            LET rec == SRecip(re)
                f0 == SFun("ln", re)
                f1 == rec
                f2 == G2(ord, SNeg(f1) (.) rec)
                f3 == G3(ord, SMulF(f2 (.) rec, QInt(-2)))
            IN  <<f0, f1, f2, f3>>
      [] fn \in {"log2", "log10"} ->
            LET rec == SRecip(re)
                f0 == SFun(fn, re)
                f1 == SDiv(rec, SFun("const", IF fn = "log2" THEN "ln2" ELSE "ln10"))
                f2 == G2(ord, SNeg(f1) (.) rec)
                f3 == G3(ord, SMulF(f2 (.) rec, QInt(-2)))
            IN  <<f0, f1, f2, f3>>
      [] fn = "ln_1p" ->
            LET rec == SRecip(SAddF(re, Q1))
                f0 == SFun("ln_1p", re)
                f1 == rec
                f2 == G2(ord, SNeg(f1) (.) rec)
                f3 == G3(ord, SMulF(f2 (.) rec, QInt(-2)))
            IN  <<f0, f1, f2, f3>>
      [] fn = "sin" ->
            LET s == SFun("sin", re)  c == SFun("cos", re)
            IN  <<s, c, G2(ord, SNeg(s)), G3(ord, SNeg(c))>>
      [] fn = "cos" ->
            LET s == SFun("sin", re)  c == SFun("cos", re)
            IN  <<c, SNeg(s), G2(ord, SNeg(c)), G3(ord, s)>>
      [] fn = "sinh" ->
            LET s == SFun("sinh", re)  c == SFun("cosh", re)
            IN  <<s, c, G2(ord, s), G3(ord, c)>>
      [] fn = "cosh" ->
            LET s == SFun("sinh", re)  c == SFun("cosh", re)
            IN  <<c, s, G2(ord, c), G3(ord, s)>>
      \* fn tanh: f0 = tanh(re); f1 = 1 - f0*f0; f2 = -f0*f1*2; f3 = (f0*f0*4 - f1*2)*f1
      \* (since the repair "fix: tanh returned NaN once cosh overflows"; before: self.sinh() / self.cosh(),
      \*  which is inf/inf = NaN for |re| > 710.4 (f64), 89.4 (f32) -- Special.tla, case "saturate")
      [] fn = "tanh" ->
            LET f0 == SFun("tanh", re)
                f1 == SOne (-) (f0 (.) f0)
                f2 == G2(ord, SMulF(SNeg(f0) (.) f1, QInt(2)))
                f3 == G3(ord, (SMulF(f0 (.) f0, QInt(4)) (-) SMulF(f1, QInt(2))) (.) f1)
            IN  <<f0, f1, f2, f3>>
      [] fn = "asin" ->
            LET rec == SRecip(SOne (-) (re (.) re))
                f0 == SFun("asin", re)
                f1 == SFun("sqrt", rec)
                f2 == G2(ord, (re (.) f1) (.) rec)
                f3 == G3(ord, ((SAddF(SMulF(re (.) re, QInt(2)), Q1) (.) f1) (.) rec) (.) rec)
            IN  <<f0, f1, f2, f3>>
      [] fn = "acos" ->
            LET rec == SRecip(SOne (-) (re (.) re))
                f0 == SFun("acos", re)
                f1 == SNeg(SFun("sqrt", rec))
                f2 == G2(ord, (re (.) f1) (.) rec)
                f3 == G3(ord, ((SAddF(SMulF(re (.) re, QInt(2)), Q1) (.) f1) (.) rec) (.) rec)
            IN  <<f0, f1, f2, f3>>
      \* atan, asinh, acosh (since the repair "fix: derivatives of atan, asinh, acosh where x*x overflows"):
      \*   big = |re()| > 1 (acosh: re() > 2);  r = if big { re.recip() } else { re };  den = 1 + r*r (acosh: 1 - r*r resp. r*r - 1)
      \*   xr = r/den  ( = x/(1 +- x^2) in both branches),  rec = if big { r*r/den resp. r*xr } else { den.recip() }
      \* before: rec = (1 +- re*re).recip(), f1 = rec resp. rec.sqrt(), f3 = (c re*re -+ 1) * f1 * rec * rec  -- inf * 0 = NaN and
      \* f1 = 0 once re*re overflows (Special.tla, cases "sqoverflow", "sqoverflow4")
      [] fn = "atan" ->
            LET big == FLt(FOfQ(Q1), FAbs(SRe(re)))
                r   == IF big THEN SRecip(re) ELSE re
                den == SOne (+) (r (.) r)
                rec == IF big THEN (r (.) r) (/) den ELSE SRecip(den)
                f0 == SFun("atan", re)
                f1 == rec
                xr == r (/) den
                f2 == G2(ord, SMulF(SNeg(xr) (.) rec, QInt(2)))
                f3 == G3(ord, (SMulF(xr (.) xr, QInt(6)) (-) SMulF(rec (.) rec, QInt(2))) (.) f1)
            IN  <<f0, f1, f2, f3>>
      [] fn = "asinh" ->
            LET big == FLt(FOfQ(Q1), FAbs(SRe(re)))
                r   == IF big THEN SRecip(re) ELSE re
                den == SOne (+) (r (.) r)
                f0 == SFun("asinh", re)
                f1 == IF big THEN (IF SIsPositive(r) THEN r ELSE SNeg(r)) (/) SFun("sqrt", den) ELSE SRecip(SFun("sqrt", den))
                xr == r (/) den
                f2 == G2(ord, SNeg(xr) (.) f1)
                rec == IF big THEN r (.) xr ELSE SRecip(den)
                f3 == G3(ord, (SMulF(xr (.) xr, QInt(2)) (-) (rec (.) rec)) (.) f1)
            IN  <<f0, f1, f2, f3>>
      [] fn = "acosh" ->
            LET big == FLt(FOfQ(<<2, 1>>), SRe(re))
                r   == IF big THEN SRecip(re) ELSE re
                den == IF big THEN SOne (-) (r (.) r) ELSE SSubF(r (.) r, Q1)
                f0 == SFun("acosh", re)
                f1 == IF big THEN r (/) SFun("sqrt", den) ELSE SRecip(SFun("sqrt", den))
                xr == r (/) den
                f2 == G2(ord, SNeg(xr) (.) f1)
                rec == IF big THEN r (.) xr ELSE SRecip(den)
                f3 == G3(ord, (SMulF(xr (.) xr, QInt(2)) (+) (rec (.) rec)) (.) f1)
            IN  <<f0, f1, f2, f3>>
      [] fn = "atanh" ->
            LET rec == SRecip(SOne (-) (re (.) re))
                f0 == SFun("atanh", re)
                f1 == rec
                f2 == G2(ord, SMulF((re (.) f1) (.) rec, QInt(2)))
                f3 == G3(ord, ((SAddF(SMulF(re (.) re, QInt(6)), QInt(2)) (.) f1) (.) rec) (.) rec)
            IN  <<f0, f1, f2, f3>>

TowerFns == {"recip", "sqrt", "cbrt", "exp", "exp2", "exp_m1", "ln", "log2", "log10", "ln_1p",
             "sin", "cos", "sinh", "cosh", "tanh", "asin", "acos", "atan", "asinh", "acosh", "atanh"}

\* fn log(&self, base: F)
TowerLogB(re, base, ord) ==
    LET rec == SRecip(re)
        f0 == SLog(re, base)
        f1 == SDiv(rec, SFun("lnF", base))           \* rec / base.ln()
        f2 == G2(ord, SNeg(f1) (.) rec)
        f3 == G3(ord, SMulF(f2 (.) rec, QInt(-2)))
    IN  <<f0, f1, f2, f3>>

ElemB(ty, fn, x) == ChainB(ty, x, TowerB(fn, x.re, Order(ty)))
LogB(ty, x, base) == ChainB(ty, x, TowerLogB(x.re, base, Order(ty)))

\* fn powi(&self, exp: i32).  exp - 3 is formed in i32 (Power.tla), the coefficients
\* exp, exp*(exp-1), exp*(exp-1)*(exp-2) as products in F (since the repair "fix: powi
\* coefficients overflowed i32").
PowiTowerB(re, n, ord) ==
    LET pow3 == SPowi(re, n - 3)
        f0 == ((pow3 (.) re) (.) re) (.) re
        f1 == SMulF((pow3 (.) re) (.) re, QInt(n))
        f2 == G2(ord, SMulF(pow3 (.) re, QMul(QInt(n), QInt(n - 1))))
        f3 == G3(ord, SMulF(pow3, QMul(QMul(QInt(n), QInt(n - 1)), QInt(n - 2))))
    IN  <<f0, f1, f2, f3>>
PowiB(ty, x, n) ==
    CASE n = 0 -> OneB(ty)
      [] n = 1 -> x
      [] n = 2 -> MulB(ty, x, x)
      [] OTHER -> ChainB(ty, x, PowiTowerB(x.re, n, Order(ty)))

\* fn powf(&self, n: F); nq is the exponent as a rational, near2 tells whether
\* |n - 2| < F::epsilon() (decided by the caller, who knows the float format).
\* One power per order (since the repair "fix: powf returned NaN at zero ..."; before,
\* every entry was x^(n-3) multiplied back up by x, i.e. infinity * 0 at x = 0).
PowfTowerB(re, nq, ord) ==
    LET n1 == QSub(nq, Q1)
        n2 == QSub(n1, Q1)
        f0 == SPowf(re, nq)
        f1 == SMulF(SPowf(re, n1), nq)
        f2 == G2(ord, SMulF(SMulF(SPowf(re, n2), nq), n1))
        f3 == G3(ord, SMulF(SMulF(SMulF(SPowf(re, QSub(n2, Q1)), nq), n1), n2))
    IN  <<f0, f1, f2, f3>>
PowfB(ty, x, nq, near2) ==
    CASE QIsZero(nq) -> OneB(ty)
      [] nq = Q1     -> x
      [] near2       -> MulB(ty, x, x)
      [] OTHER       -> ChainB(ty, x, PowfTowerB(x.re, nq, Order(ty)))

RecipB(ty, x) == ElemB(ty, "recip", x)
SinCosB(ty, x) == <<ElemB(ty, "sin", x), ElemB(ty, "cos", x)>>
TanB(ty, x)  == LET sc == SinCosB(ty, x) IN DivB(ty, sc[1], sc[2])
TanhB(ty, x) == ElemB(ty, "tanh", x)
\* fn atan2(&self, other):
\*   res = if |self.re()| > |other.re()| { -(other / self).atan() } else { (self / other).atan() };
\*   res.re = self.re.atan2(other.re)
\* (before the repair "fix: atan2 returned NaN derivatives on the y axis" only the second
\*  branch existed; Special.tla evaluates it over the extended rationals at x.re = 0)
Atan2B(ty, y, x) ==
    LET res == IF FLt(FAbs(ReB(x)), FAbs(ReB(y)))
               THEN NegB(ty, ElemB(ty, "atan", DivB(ty, x, y)))
               ELSE ElemB(ty, "atan", DivB(ty, y, x))
    IN  [res EXCEPT !.re = SAtan2(y.re, x.re)]
\* lib.rs: powd = (self.ln() * exp).exp()
PowdB(ty, x, e) == ElemB(ty, "exp", MulB(ty, ElemB(ty, "ln", x), e))
\* Inv
InvB(ty, x) == RecipB(ty, x)

\* sph_j0/1/2 : branch on  self.re().abs() < F::epsilon()
\* (before the repair "fix: sph_j0/sph_j1/sph_j2 ..." the code tested re() < epsilon; TLC
\*  reported every negative sample point of Towers.tla as a counterexample)
SphSmall(x) == FLt(FAbs(ReB(x)), FOfQ(<<3, 10>>))
\* small-argument branches: since the repair "fix: sph_j0/sph_j1/sph_j2 lose all accuracy below ~1e-2" the
\* switch is |re()| < 0.3 and the branch is the ascending series in z = x*x by Horner's rule,
\*   j0 = ((((((-z c7 + c6) z - c5) z + c4) z - c3) z + c2) z - c1) z + 1,   c_k = 1/(2k+1)!
\*   j1 = ( ...                                               z + 1/3) x,   c_k = 1/(2^k k! (2k+3)!!)
\*   j2 = ( ...                                               z + 1/15) z,  c_k = 1/(2^k k! (2k+5)!!)
\* with eight terms.  The denominators of c5, c6, c7 (up to 4.2e14) are beyond TLC's integers; the model keeps
\* the terms through c4 -- the dropped terms are multiples of x^10, so every derivative of order <= 9 AT 0,
\* where the models evaluate this branch, is the same.  (Float harness: all terms, all arguments.)
\* History: the first version switched on re() < eps and kept one non-constant term ("fix: sph_j0/1/2 for
\* negative arguments", "fix: small-argument series of sph_j0/..."); the closed forms below cancelled
\* catastrophically for eps <= |x| < 1e-2 (finding sph-small-arg, now repaired).
SphHorner(ty, z, dens) ==       \* dens = <<d1, d2, d3, d4>>:  (((z/d4 - 1/d3) z + 1/d2) z - 1/d1)
    LET s4 == DivFB(ty, z, QInt(dens[4]))
        s3 == SubFB(ty, s4, <<1, dens[3]>>)
        s2 == AddFB(ty, MulB(ty, s3, z), <<1, dens[2]>>)
    IN  SubFB(ty, MulB(ty, s2, z), <<1, dens[1]>>)
SphJ0B(ty, x) ==
    IF SphSmall(x)
    THEN LET z == MulB(ty, x, x)
         IN  AddFB(ty, MulB(ty, SphHorner(ty, z, <<6, 120, 5040, 362880>>), z), Q1)
    ELSE DivB(ty, ElemB(ty, "sin", x), x)
SphJ1B(ty, x) ==
    IF SphSmall(x)
    THEN LET z == MulB(ty, x, x)
         IN  MulB(ty, AddFB(ty, MulB(ty, SphHorner(ty, z, <<30, 840, 45360, 3991680>>), z), <<1, 3>>), x)
    ELSE LET sc == SinCosB(ty, x)
         IN  DivB(ty, SubB(ty, sc[1], MulB(ty, x, sc[2])), MulB(ty, x, x))
SphJ2B(ty, x) ==
    IF SphSmall(x)
    THEN LET z == MulB(ty, x, x)
         IN  MulB(ty, AddFB(ty, MulB(ty, SphHorner(ty, z, <<210, 7560, 498960, 51891840>>), z), <<1, 15>>), z)
    ELSE LET sc == SinCosB(ty, x)
             s2 == MulB(ty, x, x)
         IN  DivB(ty, SubB(ty, MulFB(ty, SubB(ty, sc[1], MulB(ty, x, sc[2])), QInt(3)),
                           MulB(ty, s2, sc[1])),
                  MulB(ty, s2, x))

---------------------------------------------------------------------------
(* bessel.rs : trait BesselDual -- branch structure and the closed small-argument    *)
(* branches (the rational / asymptotic branches evaluate float-coefficient           *)
(* polynomials in dual arithmetic and are checked in float mode)                     *)
\* bessel_j0: negate a negative argument, then  re <= 5 ? (re < 1e-5 ? series : rational)
\*            : asymptotic.   bessel_j1: |x|.re <= 5 ? rational : asymptotic (odd through
\*            signum).   bessel_j2: re == 0 ? series : recurrence 2 J1 / x - J0.
\* argument classes are given by the caller as strings
BesselJ0Branch(cls) ==
    CASE cls \in {"zero", "tiny+", "tiny-"} -> "series"
      [] cls \in {"small+", "small-", "five+", "five-"} -> "rational"
      [] cls \in {"large+", "large-"} -> "asymptotic"
BesselJ1Branch(cls) ==
    IF cls \in {"large+", "large-"} THEN "asymptotic" ELSE "rational"
\* (since "fix: bessel_j2 lost all accuracy ... near zero": |re| < 0.3 takes the series)
BesselJ2Branch(cls) == IF cls \in {"zero", "tiny+", "tiny-", "below03+", "below03-"} THEN "series" ELSE "recurrence"
\* one - z/4 + z*z/64    (z = x*x)   [before "fix: bessel_j0 lost its third ...": one - z/4]
BesselJ0SeriesB(ty, x) ==
    LET z == MulB(ty, x, x)
    IN  AddB(ty, SubB(ty, OneB(ty), DivFB(ty, z, QInt(4))), DivFB(ty, MulB(ty, z, z), QInt(64)))
\* z/8 * ((((((z/59454259200 - 1/309657600) z + 1/2211840) z - 1/23040) z + 1/384) z - 1/12) z + 1)
\* with z = x*x.  The two leading Horner constants exceed TLC's 32-bit integers; they multiply
\* x^12 and x^14 and therefore cannot influence any derivative of order < 12 at x = 0, which
\* is all that Special.tla evaluates with this operator: the transcription starts at 1/2211840.
\* [before the repairs: x*x/8 * (x*x/24 + 1), at re == 0 only]
BesselJ2SeriesB(ty, x) ==
    LET z  == MulB(ty, x, x)
        h1 == SubFB(ty, DivFB(ty, z, QInt(2211840)), <<1, 23040>>)
        h2 == AddFB(ty, MulB(ty, h1, z), <<1, 384>>)
        h3 == SubFB(ty, MulB(ty, h2, z), <<1, 12>>)
        h4 == AddFB(ty, MulB(ty, h3, z), Q1)
    IN  MulB(ty, DivFB(ty, z, QInt(8)), h4)
=============================================================================
