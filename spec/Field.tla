------------------------------- MODULE Field -------------------------------
(***************************************************************************)
(* C11: nalgebra's RealField / ComplexField / SimdValue on the four        *)
(* field-compatible types (Dual, DualVec, Dual2, Dual2Vec).                *)
(*  (i)   the constant table: every RealField constant, transcribed from   *)
(*        the impls (which FloatConst item it forwards to), must denote    *)
(*        the mathematical constant of its name; constants are monomials   *)
(*        in the symbols pi, e, ln2, ln10, sqrt2, sqrtpi, so consistency   *)
(*        (two_pi = 2 pi, 2 frac_pi_2 = pi, ...) is decided by equality    *)
(*  (ii)  the forwarding table: field method |-> generic dual operation    *)
(*        and |-> its real-field meaning; exported to the harness          *)
(*  (iii) selection methods (min, max, clamp, copysign, abs) return one of *)
(*        the operands AS A WHOLE, decided by real parts; ties resolved as *)
(*        coded                                                            *)
(*  (iv)  the one-lane SIMD view: splat / extract / replace / select with  *)
(*        the Option case analysis of Derivative (auto-upgrade of an       *)
(*        absent part in replace, all-zero filter in extract_unchecked)    *)
(*        round-trips values (numerically: absent = zeros)                 *)
(***************************************************************************)
EXTENDS RingP, Json, SequencesExt

VARIABLE st
---------------------------------------------------------------------------
(* (i) constants *)
Sy(v, k) == PTerm(Q1, MPow(v, k))
\* the value of each item of num_traits::FloatConst
FloatConstVal(c) ==
    CASE c = "PI" -> Sy("pi", 1) [] c = "TAU" -> PMulQ(Sy("pi", 1), QInt(2))
      [] c = "FRAC_PI_2" -> PMulQ(Sy("pi", 1), <<1, 2>>) [] c = "FRAC_PI_3" -> PMulQ(Sy("pi", 1), <<1, 3>>)
      [] c = "FRAC_PI_4" -> PMulQ(Sy("pi", 1), <<1, 4>>) [] c = "FRAC_PI_6" -> PMulQ(Sy("pi", 1), <<1, 6>>)
      [] c = "FRAC_PI_8" -> PMulQ(Sy("pi", 1), <<1, 8>>)
      [] c = "FRAC_1_PI" -> Sy("pi", -1) [] c = "FRAC_2_PI" -> PMulQ(Sy("pi", -1), QInt(2))
      [] c = "FRAC_2_SQRT_PI" -> PMulQ(Sy("sqrtpi", -1), QInt(2))
      [] c = "E" -> Sy("e", 1) [] c = "LOG2_E" -> Sy("ln2", -1) [] c = "LOG10_E" -> Sy("ln10", -1)
      [] c = "LN_2" -> Sy("ln2", 1) [] c = "LN_10" -> Sy("ln10", 1)
      [] c = "SQRT_2" -> Sy("sqrt2", 1) [] c = "FRAC_1_SQRT_2" -> Sy("sqrt2", -1)
\* impl RealField: which FloatConst item each constant forwards to (transcribed from dual.rs,
\* dual_vec.rs, dual2.rs, dual2_vec.rs -- the four impls are textually the same)
RealFieldForward ==
    [pi |-> "PI", two_pi |-> "TAU",
     frac_pi_2 |-> "FRAC_PI_2",      \* since "fix: RealField::frac_pi_2 returned pi/4" (was FRAC_PI_4)
     frac_pi_3 |-> "FRAC_PI_3", frac_pi_4 |-> "FRAC_PI_4", frac_pi_6 |-> "FRAC_PI_6", frac_pi_8 |-> "FRAC_PI_8",
     frac_1_pi |-> "FRAC_1_PI", frac_2_pi |-> "FRAC_2_PI", frac_2_sqrt_pi |-> "FRAC_2_SQRT_PI",
     e |-> "E", log2_e |-> "LOG2_E", log10_e |-> "LOG10_E", ln_2 |-> "LN_2", ln_10 |-> "LN_10"]
\* what the name of each constant means
RealFieldMeaning ==
    [pi |-> Sy("pi", 1), two_pi |-> PMulQ(Sy("pi", 1), QInt(2)),
     frac_pi_2 |-> PMulQ(Sy("pi", 1), <<1, 2>>), frac_pi_3 |-> PMulQ(Sy("pi", 1), <<1, 3>>),
     frac_pi_4 |-> PMulQ(Sy("pi", 1), <<1, 4>>), frac_pi_6 |-> PMulQ(Sy("pi", 1), <<1, 6>>),
     frac_pi_8 |-> PMulQ(Sy("pi", 1), <<1, 8>>), frac_1_pi |-> Sy("pi", -1), frac_2_pi |-> PMulQ(Sy("pi", -1), QInt(2)),
     frac_2_sqrt_pi |-> PMulQ(Sy("sqrtpi", -1), QInt(2)), e |-> Sy("e", 1), log2_e |-> Sy("ln2", -1),
     log10_e |-> Sy("ln10", -1), ln_2 |-> Sy("ln2", 1), ln_10 |-> Sy("ln10", 1)]
\* the two bounds of the field: the bounds of the component type as constants (Some(from_re(T::min_value())) / max)
BoundForward == [min_value |-> "MIN", max_value |-> "MAX"]
ConstNames == DOMAIN RealFieldForward
ConstantsCorrect == st = "tables" => \A c \in ConstNames : FloatConstVal(RealFieldForward[c]) = RealFieldMeaning[c]
\* consistency relations between the constants as the code defines them
CV(c) == FloatConstVal(RealFieldForward[c])
ConstantsConsistent == st = "tables" =>
    /\ CV("two_pi") = PMulQ(CV("pi"), QInt(2))
    /\ PMulQ(CV("frac_pi_2"), QInt(2)) = CV("pi") /\ PMulQ(CV("frac_pi_3"), QInt(3)) = CV("pi")
    /\ PMulQ(CV("frac_pi_4"), QInt(4)) = CV("pi") /\ PMulQ(CV("frac_pi_6"), QInt(6)) = CV("pi")
    /\ PMulQ(CV("frac_pi_8"), QInt(8)) = CV("pi")
    /\ PMul(CV("frac_1_pi"), CV("pi")) = P1 /\ PMul(CV("frac_2_pi"), CV("pi")) = PInt(2)
    /\ PMul(CV("log2_e"), CV("ln_2")) = P1 /\ PMul(CV("log10_e"), CV("ln_10")) = P1

---------------------------------------------------------------------------
(* (ii) forwarding table: <<field method, kind, generic operation>>
   kind: "un" unary, "bin" binary (second operand a dual number), "int" integer argument,
         "id" identity, "zero" constant zero, "panic" panics by design, "sel" selection (iii) *)
Forwarding ==
    << <<"sin", "un", "sin">>, <<"cos", "un", "cos">>, <<"tan", "un", "tan">>, <<"asin", "un", "asin">>,
       <<"acos", "un", "acos">>, <<"atan", "un", "atan">>, <<"sinh", "un", "sinh">>, <<"cosh", "un", "cosh">>,
       <<"tanh", "un", "tanh">>, <<"asinh", "un", "asinh">>, <<"acosh", "un", "acosh">>, <<"atanh", "un", "atanh">>,
       <<"log2", "un", "log2">>, <<"log10", "un", "log10">>, <<"ln", "un", "ln">>, <<"ln_1p", "un", "ln_1p">>,
       <<"sqrt", "un", "sqrt">>, <<"exp", "un", "exp">>, <<"exp2", "un", "exp2">>, <<"exp_m1", "un", "exp_m1">>,
       <<"cbrt", "un", "cbrt">>, <<"recip", "un", "recip">>, <<"abs", "un", "abs">>, <<"modulus", "un", "abs">>,
       <<"norm1", "un", "abs">>, <<"modulus_squared", "un", "square">>,
       <<"real", "id", "">>, <<"conjugate", "id", "">>, <<"from_real", "id", "">>,
       <<"imaginary", "zero", "">>, <<"argument", "arg", "">>,
       <<"powi", "int", "powi">>, <<"powf", "bin", "powd">>, <<"powc", "bin", "powd">>, <<"log", "bin", "ln/ln">>,
       <<"hypot", "bin", "hypot">>, <<"scale", "bin", "mul">>, <<"unscale", "bin", "div">>, <<"atan2", "bin", "atan2">>,
       <<"mul_add", "tern", "mul_add">>, <<"try_sqrt", "opt", "sqrt">>, <<"sin_cos", "pair", "sin_cos">>,
       <<"floor", "panic", "">>, <<"ceil", "panic", "">>, <<"round", "panic", "">>, <<"trunc", "panic", "">>,
       <<"fract", "panic", "">>,
       <<"max", "sel", "">>, <<"min", "sel", "">>, <<"clamp", "sel", "">>, <<"copysign", "sel", "">>,
       <<"is_finite", "pred", "">>, <<"is_sign_positive", "pred", "">>, <<"is_sign_negative", "pred", "">> >>
\* fn argument(self): zero for a non-negative real part, pi otherwise   (since "fix: ComplexField::argument ...")
ArgumentOf(reSign) == IF reSign >= 0 THEN "zero" ELSE "pi"

---------------------------------------------------------------------------
(* (iii) selection and (iv) lanes on abstract values: a value is [re, d] with a real part (an
   integer) and a derivative payload d that is either NoneD or a tuple of integers *)
NoneD == <<>>            \* an absent derivative part
Payloads == {NoneD, <<0, 0>>, <<1, -2>>, <<3, 5>>}
Res == {-1, 0, 2}
Vals == {[re |-> r, d |-> p] : r \in Res, p \in Payloads}
\* RealField::max / min / clamp / copysign as coded
MaxB(a, b) == IF b.re > a.re THEN b ELSE a
MinB(a, b) == IF b.re < a.re THEN b ELSE a
ClampB(x, lo, hi) == IF x.re < lo.re THEN lo ELSE IF x.re > hi.re THEN hi ELSE x
NegV(a) == [re |-> -a.re, d |-> IF a.d = NoneD THEN NoneD ELSE <<-a.d[1], -a.d[2]>>]
AbsV(a) == IF a.re >= 0 THEN a ELSE NegV(a)           \* (sign bit; +0 only in this model)
CopysignB(a, s) == IF s.re >= 0 THEN AbsV(a) ELSE NegV(AbsV(a))
SelectsAnOperand == st = "tables" =>
    \A a, b \in Vals :
        /\ MaxB(a, b) \in {a, b} /\ MaxB(a, b).re = (IF a.re >= b.re THEN a.re ELSE b.re)
        /\ MinB(a, b) \in {a, b} /\ MinB(a, b).re = (IF a.re <= b.re THEN a.re ELSE b.re)
        /\ (a.re = b.re => MaxB(a, b) = a /\ MinB(a, b) = a)                 \* ties keep self
        /\ AbsV(a) \in {a, NegV(a)} /\ AbsV(a).re >= 0
        /\ CopysignB(a, b) \in {a, NegV(a)}
        /\ \A c \in Vals : (b.re <= c.re) => ClampB(a, b, c) \in {a, b, c}

\* Derivative lanes for LANES = 1 (T = f64): NoneD | tuple
Dense(d) == IF d = NoneD THEN <<0, 0>> ELSE d
SplatD(d) == d                                                      \* val.map(T::splat)
ExtractD(d) == d                                                    \* map_borrowed(T::extract(e, 0))
ExtractUncheckedD(d) == IF d = NoneD \/ d = <<0, 0>> THEN NoneD ELSE d   \* + filter(any non-zero)
ReplaceD(ours, theirs) ==
    CASE ours # NoneD /\ theirs # NoneD -> theirs                 \* zip_apply(e.replace(0, r))
      [] ours = NoneD /\ theirs # NoneD -> theirs                 \* zeros, then replaced
      [] ours # NoneD /\ theirs = NoneD -> <<0, 0>>               \* every lane replaced by zero
      [] OTHER -> NoneD
SelectD(ours, cond, other) == IF cond THEN ours ELSE other          \* cond.all() / cond.none() for bool
Splat(v) == [re |-> v.re, d |-> SplatD(v.d)]
Extract(v) == [re |-> v.re, d |-> ExtractD(v.d)]
ExtractUnchecked(v) == [re |-> v.re, d |-> ExtractUncheckedD(v.d)]
Replace(v, w) == [re |-> w.re, d |-> ReplaceD(v.d, w.d)]
Select(v, cond, w) == [re |-> IF cond THEN v.re ELSE w.re, d |-> SelectD(v.d, cond, w.d)]
NumEq(v, w) == v.re = w.re /\ Dense(v.d) = Dense(w.d)
LanesRoundTrip == st = "tables" =>
    \A v, w \in Vals :
        /\ Extract(Splat(v)) = v
        /\ NumEq(ExtractUnchecked(Splat(v)), v)
        /\ NumEq(Extract(Replace(v, w)), w)
        /\ Select(v, TRUE, w) = v /\ Select(v, FALSE, w) = w

---------------------------------------------------------------------------
Init == st = "tables"
Next == UNCHANGED st
Spec == Init /\ [][Next]_st
ExportField == st = "tables" =>
    /\ PrintT(<<"FIELDCONST", ToJson([c \in ConstNames \cup DOMAIN BoundForward |->
                                          IF c \in ConstNames THEN RealFieldForward[c] ELSE BoundForward[c]])>>)
    /\ PrintT(<<"FIELDFWD", ToJson(Forwarding)>>)
=============================================================================
