------------------------------- MODULE Render -------------------------------
(***************************************************************************)
(* C18: Display as a token sequence.  Transcribed from the fmt::Display    *)
(* impls of the eight types and Derivative::fmt:                           *)
(*   scalar kinds   "{re} + {part}{symbol} + ..."       every part printed *)
(*   vector kinds   "{re}" then, for each PRESENT part in declaration      *)
(*                  order, " + " part symbol; the part is a bare value for *)
(*                  a 1x1 shape, "[a, b, ..]" for a row or column, and     *)
(*                  nalgebra's matrix box otherwise; absent parts omitted  *)
(*   nested types   inner values are rendered in place by the same rule    *)
(* A token is <<"+">>, <<"[">>, <<",">>, <<"]">>, <<"n", q>>, <<"s", symbol>> or *)
(* <<"M", rows, cols>> (matrix box; entries follow row by row).            *)
(* TLC enumerates types x presence patterns x values and emits             *)
(* (descriptor, value, tokens); the harness formats the real value,        *)
(* tokenises the string and requires the same tokens with every number     *)
(* parsing back to exactly the stored value.                               *)
(***************************************************************************)
EXTENDS Shapes, Json, TLC

CONSTANTS TypeSet, Variants

RECURSIVE Tokens(_, _), ListToks(_, _, _)
ListToks(ty, xs, i) ==
    IF i > Len(xs) THEN <<>>
    ELSE (IF i > 1 THEN << <<",">> >> ELSE <<>>) \o Tokens(ty, xs[i]) \o ListToks(ty, xs, i + 1)
Flatten(rows) ==   \* row by row
    LET Acc[i \in 0..Len(rows)] == IF i = 0 THEN <<>> ELSE Acc[i - 1] \o rows[i] IN Acc[Len(rows)]
RECURSIVE MatToks(_, _, _)
MatToks(ty, xs, i) == IF i > Len(xs) THEN <<>> ELSE Tokens(ty, xs[i]) \o MatToks(ty, xs, i + 1)

\* Derivative::fmt
PartToks(ty, f, d) ==
    IF ~d.p THEN <<>>
    ELSE LET dm == PartDimsT(ty, f)
             body == IF dm = <<1, 1>> THEN Tokens(ty.inner, d.m[1][1])
                     ELSE IF dm[1] = 1 THEN << <<"[">> >> \o ListToks(ty.inner, d.m[1], 1) \o << <<"]">> >>
                     ELSE IF dm[2] = 1
                          THEN << <<"[">> >> \o ListToks(ty.inner, [r \in 1..dm[1] |-> d.m[r][1]], 1) \o << <<"]">> >>
                     ELSE << <<"M", dm[1], dm[2]>> >> \o MatToks(ty.inner, Flatten(d.m), 1)
         IN  body

RECURSIVE FieldToks(_, _, _)
FieldToks(ty, v, i) ==
    LET fs == FieldsK(ty.k) IN
    IF i > Len(fs) THEN <<>>
    ELSE LET f == fs[i]
             sym == << <<"s", SymbolsK(ty.k)[i]>> >>
             this == IF IsVecK(ty.k)
                     THEN (IF v[f].p THEN << <<"+">> >> \o PartToks(ty, f, v[f]) \o sym ELSE <<>>)
                     ELSE << <<"+">> >> \o Tokens(ty.inner, v[f]) \o sym
         IN  this \o FieldToks(ty, v, i + 1)

Tokens(ty, v) ==
    IF ty.k = "F" THEN << <<"n", v>> >>
    ELSE Tokens(ty.inner, v.re) \o FieldToks(ty, v, 1)

VARIABLE c
Init == \E ty \in TypeSet, k \in Variants : \E pres \in PresSetT(ty) :
            c = [ty |-> ty, v |-> GenVal(ty, k, pres)]
Next == UNCHANGED c
Spec == Init /\ [][Next]_c

\* Formatter flags: every Display impl writes its parts with "{}" (write!(f, "{}", part)), so precision, width, fill and
\* alignment requested by the caller never reach a number: the rendering is a function of the type and the value only,
\* and "every printed number parses back to the stored value" holds under every format spec, not only "{}".
FormatSpecs == <<"{}", "{:.2}", "{:>40}", "{:<40.1}", "{:^9.0}", "{:012.3}">>
RenderWith(spec, ty, v) == Tokens(ty, v)
SpecIndependent == \A i \in 1..Len(FormatSpecs) : RenderWith(FormatSpecs[i], c.ty, c.v) = Tokens(c.ty, c.v)
Emit == PrintT(<<"RENDER", ToJson([ty |-> c.ty, v |-> c.v, tokens |-> Tokens(c.ty, c.v), specs |-> FormatSpecs])>>)

\* model-level sanity: number of numeric tokens = number of stored scalars of present parts
RECURSIVE Leaves(_, _)
Leaves(ty, v) ==
    IF ty.k = "F" THEN 1
    ELSE Leaves(ty.inner, v.re)
         + LET fs == FieldsK(ty.k)
               cnt(f) == IF IsVecK(ty.k)
                         THEN IF v[f].p
                              THEN LET d == PartDimsT(ty, f)
                                       S[i \in 0..(d[1] * d[2])] ==
                                           IF i = 0 THEN 0
                                           ELSE S[i - 1] + Leaves(ty.inner, v[f].m[((i - 1) \div d[2]) + 1][((i - 1) % d[2]) + 1])
                                   IN  S[d[1] * d[2]]
                              ELSE 0
                         ELSE Leaves(ty.inner, v[f])
               T[i \in 0..Len(fs)] == IF i = 0 THEN 0 ELSE T[i - 1] + cnt(fs[i])
           IN  T[Len(fs)]
NumToks(ts) == Cardinality({i \in 1..Len(ts) : ts[i][1] = "n"})
EveryPartPrintedOnce == NumToks(Tokens(c.ty, c.v)) = Leaves(c.ty, c.v) /\ SpecIndependent

---------------------------------------------------------------------------
ScalarKinds == {"Dual", "Dual2", "Dual3", "HyperDual", "HHD"}
TypesBase(maxn) ==
    {TD(k, F) : k \in ScalarKinds}
    \cup {TDV(k, n, F) : k \in {"DualVec", "Dual2Vec"}, n \in 1..maxn}
    \cup {TDH(m, n, F) : m \in 1..2, n \in 1..maxn}
TypesNested ==
    {TD("Dual", TD("Dual", F)), TD("Dual", TD("Dual", TD("Dual", F))), TD("Dual2", TD("Dual", F)),
     TD("Dual3", TD("Dual", F)), TD("HyperDual", TD("Dual", F)), TD("Dual", TD("Dual2", F)),
     TD("Dual2", TD("Dual2", F)), TD("HHD", TD("Dual", F)), TD("Dual", TDV("DualVec", 2, F)),
     TDV("DualVec", 2, TD("Dual", F)), TDV("Dual2Vec", 2, TD("Dual", F))}
TypesQuick == TypesBase(3) \cup TypesNested
TypesThorough == TypesBase(3) \cup TypesNested
VariantsQuick == {1, 2, 7}
VariantsThorough == 1..23
=============================================================================
