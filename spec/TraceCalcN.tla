------------------------------- MODULE TraceCalcN -------------------------------
(***************************************************************************)
(* Trace validation (implementation -> specification).                     *)
(* The Rust harness runs seeded random programs on the REAL crate and logs *)
(* one NDJSON record per public call (arguments + full projected result).  *)
(* This specification replays the log against the calculator of Calc.tla:  *)
(* for every event that the exact model can decide (Enabled) the logged    *)
(* result must be what the B-model prescribes (numerically, absent parts   *)
(* standing for zeros); the registers then continue with the LOGGED value, *)
(* i.e. with the implementation's own representation.  Events outside the  *)
(* exact fragment are adopted unchecked and counted.                       *)
(* Acceptance: POSTCONDITION Accepted (all lines consumed).                *)
(***************************************************************************)
EXTENDS CalcN, Json, IOUtils

CONSTANTS Kind, N, M, NR

Ty == CASE Kind = "Dual" -> B!TDual
        [] Kind = "DualVec" -> B!TDualVec(N)
        [] Kind = "Dual2" -> B!TDual2
        [] Kind = "Dual2Vec" -> B!TDual2Vec(N)
        [] Kind = "Dual3" -> B!TDual3
        [] Kind = "HyperDual" -> B!THyperDual
        [] Kind = "HyperDualVec" -> B!THyperDualVec(M, N)
        [] Kind = "HHD" -> B!THHD

Rec == ndJsonDeserialize(IOEnv.TRACE)

VARIABLES regs, l, checked, adopted
vars == <<regs, l, checked, adopted>>

ZeroFill(v) ==
    IF ~B!IsVec(Ty) THEN v
    ELSE [f \in DOMAIN v |->
            IF f = "re" THEN v.re
            ELSE LET d == B!PartDims(Ty, f) IN B!Some(B!Dense(v[f], d[1], d[2]))]

\* the logged value in the model's shape (JSON objects carry exactly the model's fields)
Norm(v) ==
    IF ~B!IsVec(Ty) THEN v
    ELSE [f \in {"re"} \cup B!FieldSet(Ty) |->
            IF f = "re" THEN v.re ELSE IF v[f].p THEN B!Some(v[f].m) ELSE B!None]

Matches(ev, res, post) ==
    IF IsObs(ev.op) THEN res = post ELSE ZeroFill(res) = ZeroFill(Norm(post))

Init == /\ regs = [r \in 1..NR |-> B!ZeroB(Ty)]
        /\ l = 1 /\ checked = 0 /\ adopted = 0

Step ==
    /\ l <= Len(Rec)
    /\ l' = l + 1
    /\ LET e  == Rec[l]
           ev == e.ev
       IN  IF Enabled(Ty, regs, ev)
           THEN /\ Matches(ev, Result(Ty, regs, ev), e.post)          \* the verdict
                /\ checked' = checked + 1 /\ adopted' = adopted
                /\ regs' = IF IsObs(ev.op) THEN regs ELSE [regs EXCEPT ![ev.d] = Norm(e.post)]
           ELSE /\ checked' = checked /\ adopted' = adopted + 1
                /\ regs' = IF IsObs(ev.op) THEN regs ELSE [regs EXCEPT ![ev.d] = Norm(e.post)]

Spec == Init /\ [][Step]_vars

Done == l = Len(Rec) + 1 => PrintT(<<"TRACE-DONE", ToJson([lines |-> Len(Rec), checked |-> checked, adopted |-> adopted])>>)

Accepted ==
    LET d == TLCGet("stats").diameter
    IN  IF d - 1 = Len(Rec) THEN TRUE
        ELSE PrintT(<<"TRACE-REJECTED", ToJson([line |-> d, event |-> Rec[d]])>>) /\ FALSE
=============================================================================
