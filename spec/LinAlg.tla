------------------------------- MODULE LinAlg -------------------------------
(***************************************************************************)
(* C12: linalg.rs -- LU::new as a step machine over matrices whose entries *)
(* are first-order dual numbers with rational parts.                       *)
(*   pc = "pivot": search the pivot of column i (largest |re|, first one   *)
(*                 wins), Fail if the whole remaining column is zero in    *)
(*                 the real part                                           *)
(*   pc = "swap" : exchange rows i and imax, p[i] <-> p[imax], p_count++   *)
(*   pc = "elim" : a[j,i] /= a[i,i]; a[j,k] -= a[j,i]*a[i,k]               *)
(*   pc = "done" / "fail"                                                  *)
(* At "done" the invariants relate the factorisation, solve(b), inverse()  *)
(* and determinant() -- all transcribed -- to the ORIGINAL matrix in dual  *)
(* arithmetic: P A = L U, A x = b, A A^-1 = I, det = Leibniz expansion     *)
(* (whose dual part is Jacobi's formula), sign from the parity of p_count. *)
(* "fail" is reached iff the real part of the matrix is singular with an   *)
(* all-zero remaining pivot column; then no division has been performed.   *)
(* The last section is the selection sort that ends jacobi_eigenvalue.     *)
(***************************************************************************)
EXTENDS RingQ, Sequences, FiniteSets, FiniteSetsExt, Json

CONSTANTS NN,          \* matrix size
          ReSet        \* real parts of the entries

B == INSTANCE DualB WITH
        SAdd <- QAdd, SSub <- QSub, SMul <- QMul, SDiv <- QDiv, SNeg <- QNeg, SRecip <- QInv,
        SZero <- Q0, SOne <- Q1, SOfQ <- LAMBDA q : q,
        SMulF <- QMul, SDivF <- QDiv, SAddF <- QAdd, SSubF <- QSub,
        SFun <- QFun, SPowi <- QPow, SPowf <- QPowf, SLog <- QLog, SAtan2 <- QAtan2,
        SRe <- LAMBDA t : t,
        SIsZero <- QIsZero, SIsOne <- LAMBDA t : t = Q1,
        SIsPositive <- LAMBDA t : QSign(t) >= 0, SIsNegative <- LAMBDA t : QSign(t) < 0,
        FLt <- QLt, FEps <- <<1, 1048576>>, FAbs <- QAbs, FOfQ <- LAMBDA q : q

TY == B!TDual
D(re, eps) == [re |-> re, eps |-> eps]
Zero == B!ZeroB(TY)
One  == B!OneB(TY)
a (+) b == B!AddB(TY, a, b)
a (-) b == B!SubB(TY, a, b)
a (.) b == B!MulB(TY, a, b)
a (/) b == B!DivB(TY, a, b)
Idx == 1..NN

\* distinct small derivative parts per position, and a right-hand side
EpsOf(i, j) == <<((3 * i + 5 * j) % 7) - 3, 1>>
RHS == [i \in Idx |-> D(<<i, 1>>, <<2 - i, 1>>)]
MatOfRe(m) == [i \in Idx |-> [j \in Idx |-> D(<<m[i][j], 1>>, EpsOf(i, j))]]

VARIABLES a0,      \* the original matrix
          a, p, pcount, i, imax, pc,
          dy       \* history: every entry computed so far is a dyadic rational, i.e. the float run is exact
vars == <<a0, a, p, pcount, i, imax, pc, dy>>

\* the matrices explored: by default every matrix over ReSet; for n = 4 (too many) the configuration overrides
\* InitMats <- Family4: every row order (pivoting path) of three fixed matrices, one of them with a zero column
InitMats == [Idx -> [Idx -> ReSet]]
Base4 == << << <<4, 1, 0, 1>>, <<1, 2, 1, 0>>, <<0, 1, 2, 1>>, <<2, 0, 1, 4>> >>,
            << <<-4, 1, 2, 0>>, <<1, -2, 0, 1>>, <<2, 0, 4, -1>>, <<0, 1, -1, 2>> >>,
            << <<2, 0, 1, 1>>, <<1, 0, 2, 0>>, <<4, 0, 1, 2>>, <<1, 0, 0, 1>> >> >>
PermsOfIdx == {f \in [Idx -> Idx] : \A x, y \in Idx : x # y => f[x] # f[y]}
Family4 == {[r \in Idx |-> Base4[k][f[r]]] : f \in PermsOfIdx, k \in 1..Len(Base4)}
Init ==
    /\ \E m \in InitMats : a0 = MatOfRe(m)
    /\ a = a0 /\ p = [k \in Idx |-> k] /\ pcount = NN /\ i = 1 /\ imax = 1 /\ pc = "pivot" /\ dy = TRUE

\* for k in i..n { if |a[k,i]|.re > max_a { max_a = ..; imax = k } }  : first strict maximum
PivotRow(m, col) ==
    LET absre(k) == QAbs(m[k][col].re)
        best == CHOOSE k \in col..NN : /\ \A l \in col..NN : QLe(absre(l), absre(k))
                                       /\ \A l \in col..(k - 1) : QLt(absre(l), absre(k))
    IN  best
Pivot ==
    /\ pc = "pivot"
    /\ IF i > NN THEN pc' = "done" /\ UNCHANGED <<a, p, pcount, i, imax>>
       ELSE LET r == PivotRow(a, i)
            IN  IF QIsZero(a[r][i].re)
                THEN pc' = "fail" /\ UNCHANGED <<a, p, pcount, i, imax>>
                ELSE /\ imax' = r
                     /\ pc' = IF r # i THEN "swap" ELSE "elim"
                     /\ UNCHANGED <<a, p, pcount, i>>
    /\ UNCHANGED <<a0, dy>>
Swap ==
    /\ pc = "swap"
    /\ p' = [p EXCEPT ![i] = p[imax], ![imax] = p[i]]
    /\ a' = [a EXCEPT ![i] = a[imax], ![imax] = a[i]]
    /\ pcount' = pcount + 1
    /\ pc' = "elim"
    /\ UNCHANGED <<a0, i, imax, dy>>
\* for j in i+1..n { a[j,i] = a[j,i] / a[i,i]; for k in i+1..n { a[j,k] = a[j,k] - a[j,i] * a[i,k] } }
Elim ==
    /\ pc = "elim"
    /\ a' = [r \in Idx |-> [c \in Idx |->
                IF r <= i THEN a[r][c]
                ELSE LET l == a[r][i] (/) a[i][i]
                     IN  IF c = i THEN l ELSE IF c < i THEN a[r][c] ELSE a[r][c] (-) (l (.) a[i][c])]]
    /\ dy' = (dy /\ \A r \in Idx, c \in Idx : QIsDyadic(a'[r][c].re) /\ QIsDyadic(a'[r][c].eps))
    /\ i' = i + 1
    /\ pc' = "pivot"
    /\ UNCHANGED <<a0, p, pcount, imax>>
Next == Pivot \/ Swap \/ Elim
Spec == Init /\ [][Next]_vars

---------------------------------------------------------------------------
(* transcriptions of solve / determinant / inverse on the finished factorisation *)
DSum(S, t(_)) == FoldSet(LAMBDA k, acc : acc (+) t(k), Zero, S)
\* forward substitution with the permuted right-hand side, then back substitution
RECURSIVE FwdCol(_, _)
FwdCol(rhs, r) ==       \* x[r] = rhs[r] - sum_{k<r} a[r,k] x[k]
    IF r = 0 THEN <<>>
    ELSE LET prev == FwdCol(rhs, r - 1)
         IN  Append(prev, rhs[r] (-) DSum(1..(r - 1), LAMBDA k : a[r][k] (.) prev[k]))
RECURSIVE BackCol(_, _)
BackCol(y, r) ==        \* returns the function over r..NN
    IF r > NN THEN [k \in {} |-> Zero]
    ELSE LET rest == BackCol(y, r + 1)
             xr == (y[r] (-) DSum((r + 1)..NN, LAMBDA k : a[r][k] (.) rest[k])) (/) a[r][r]
         IN  [k \in r..NN |-> IF k = r THEN xr ELSE rest[k]]
SolveB(b) == BackCol(FwdCol([r \in Idx |-> b[p[r]]], NN), 1)
InverseColB(j) == BackCol(FwdCol([r \in Idx |-> IF p[r] = j THEN One ELSE Zero], NN), 1)
DetB ==
    LET prod == FoldSet(LAMBDA k, acc : acc (.) a[k][k], One, Idx)          \* (0..n).map(|i| a[(i,i)]).product()
    IN  IF (pcount - NN) % 2 = 0 THEN prod ELSE B!NegB(TY, prod)

(* references *)
Perms == {f \in [Idx -> Idx] : \A x, y \in Idx : x # y => f[x] # f[y]}
Inversions(f) == Cardinality({<<x, y>> \in Idx \X Idx : x < y /\ f[x] > f[y]})
DetLeibniz(m) ==
    FoldSet(LAMBDA f, acc :
                LET term == FoldSet(LAMBDA r, t : t (.) m[r][f[r]], One, Idx)
                IN  IF Inversions(f) % 2 = 0 THEN acc (+) term ELSE acc (-) term,
            Zero, Perms)
MatVec(m, x) == [r \in Idx |-> DSum(Idx, LAMBDA k : m[r][k] (.) x[k])]

LUCorrect ==
    pc = "done" =>
        \A r \in Idx, c \in Idx :
            DSum(1..(IF r < c THEN r ELSE c), LAMBDA k : (IF k = r THEN One ELSE a[r][k]) (.) a[k][c]) = a0[p[r]][c]
SolveCorrect == pc = "done" => MatVec(a0, SolveB(RHS)) = RHS
InverseCorrect ==
    pc = "done" => \A j \in Idx : MatVec(a0, InverseColB(j)) = [r \in Idx |-> IF r = j THEN One ELSE Zero]
DetCorrect == pc = "done" => DetB = DetLeibniz(a0)                  \* incl. sign (parity) and Jacobi's formula (eps part)
FailIffSingularColumn ==
    /\ pc = "fail" => (QIsZero(DetLeibniz(a0).re) /\ \A k \in i..NN : QIsZero(a[k][i].re))
    /\ pc = "done" => ~QIsZero(DetLeibniz(a0).re)
PermIsPermutation == \A x, y \in Idx : x # y => p[x] # p[y]

---------------------------------------------------------------------------
(* the selection sort at the end of jacobi_eigenvalue: ascending eigenvalues, columns of V follow *)
SortStep(d, v, k) ==        \* m = index of the smallest d[l].re for l in k..n (first one wins); swap k and m
    LET m == CHOOSE m \in k..Len(d) : /\ \A l \in k..Len(d) : d[m] <= d[l]
                                     /\ \A l \in k..(m - 1) : d[l] > d[m]
    IN  IF m = k THEN <<d, v>>
        ELSE <<[d EXCEPT ![k] = d[m], ![m] = d[k]], [v EXCEPT ![k] = v[m], ![m] = v[k]]>>
RECURSIVE SortFrom(_, _, _)
SortFrom(d, v, k) == IF k >= Len(d) THEN <<d, v>> ELSE LET s == SortStep(d, v, k) IN SortFrom(s[1], s[2], k + 1)
SortOK ==
    \A d \in [1..3 -> {-1, 0, 2}] :
        LET s == SortFrom(d, <<"c1", "c2", "c3">>, 1)
        IN  /\ \A k \in 1..2 : s[1][k] <= s[1][k + 1]                                   \* ascending
            /\ \A k \in 1..3 : \E l \in 1..3 : s[2][k] = <<"c1", "c2", "c3">>[l] /\ s[1][k] = d[l]   \* columns moved along
SortedAscending == pc = "pivot" /\ i = 1 => SortOK
\* replay cases for the real LU: matrix, outcome, permutation, determinant, solution of A x = RHS
ExportLU ==
    pc \in {"done", "fail"} =>
        PrintT(<<"LU", ToJson([a |-> a0, b |-> RHS, status |-> pc, dyadic |-> dy,
                              p |-> IF pc = "done" THEN p ELSE <<>>,
                              swaps |-> pcount - NN,
                              det |-> IF pc = "done" THEN DetB ELSE Zero,
                              x |-> IF pc = "done" THEN [r \in Idx |-> SolveB(RHS)[r]] ELSE <<>>,
                              \* inverse()[r][j]: column j solves A x = e_j
                              inv |-> IF pc = "done" THEN [r \in Idx |-> [j \in Idx |-> InverseColB(j)[r]]] ELSE <<>>])>>)
ReSetN2 == {-2, -1, 0, 1, 2}
ReSetN3 == {-1, 0, 1}
ReSetN3T == {-1, 0, 1, 2}
=============================================================================
