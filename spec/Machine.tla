------------------------------- MODULE Machine -------------------------------
(***************************************************************************)
(* The calculator as a state machine: a register file of dual numbers of   *)
(* one type and one action per public operation / syntactic form.  TLC     *)
(* explores it exhaustively (small constants) or by simulation and prints  *)
(* every behaviour of length Depth as one JSON line; the Rust harness      *)
(* replays the line through the real crate and compares every part of      *)
(* every register after every step (bit-exactly: Enabled guarantees that   *)
(* IEEE arithmetic with Mant mantissa bits cannot round).                  *)
(*                                                                         *)
(* Invariants checked on the way (they are statements about the B-model):  *)
(*   ReTransparent  the real part of every result equals the same          *)
(*                  operation on plain rationals (C06)                     *)
(*   AbsentIsZero   zero-filling every operand leaves the dense result     *)
(*                  unchanged (C07)                                        *)
(***************************************************************************)
EXTENDS Calc, Json, SequencesExt

CONSTANTS Kind, N, M,     \* the type: Kind in {"Dual","DualVec",...}, dimensions
          NR,             \* number of registers
          Depth,          \* behaviours of exactly this many events are emitted
          Mode,           \* "bfs" | "sim"
          LoadSet,        \* values a register can be loaded with ("bfs" mode)
          ReGrid, PartGrid, \* grids for pseudo-random loads ("sim" mode)
          ScalarGrid, PowSet,
          OpFilter        \* names of the operations this run explores

Ty == CASE Kind = "Dual" -> B!TDual
        [] Kind = "DualVec" -> B!TDualVec(N)
        [] Kind = "Dual2" -> B!TDual2
        [] Kind = "Dual2Vec" -> B!TDual2Vec(N)
        [] Kind = "Dual3" -> B!TDual3
        [] Kind = "HyperDual" -> B!THyperDual
        [] Kind = "HyperDualVec" -> B!THyperDualVec(M, N)
        [] Kind = "HHD" -> B!THHD

VARIABLES regs, hist,
          rnd      \* "sim" mode: the pseudo-random numbers that select the next event (drawn one
                   \* step ahead, so that the selected event is a function of the state)
vars == <<regs, hist, rnd>>

Regs == 1..NR
\* destination registers: in "bfs" mode results go to register 1 (the choice of the
\* destination adds nothing there); simulation uses all of them
Dests == IF Mode = "bfs" THEN {1} ELSE Regs

---------------------------------------------------------------------------
(* value generators *)
RECURSIVE DepFuns(_)
\* all functions g with DOMAIN g = DOMAIN cod and g[f] \in cod[f]
DepFuns(cod) ==
    IF DOMAIN cod = {} THEN {<<>>}
    ELSE LET f == CHOOSE f \in DOMAIN cod : TRUE
             rest == [g \in DOMAIN cod \ {f} |-> cod[g]]
         IN  {[g \in DOMAIN cod |-> IF g = f THEN x ELSE h[g]] : h \in DepFuns(rest), x \in cod[f]}

FieldIdx(f) == CHOOSE i \in 1..Len(B!Fields(Ty)) : B!Fields(Ty)[i] = f
\* a stored scalar: a rational, or (nested types) an inner number with that real part and small integer parts
IntVals == << <<1, 1>>, <<-2, 1>>, <<3, 1>>, <<-1, 1>>, <<2, 1>>, <<-3, 1>> >>
InnerIdx(f) == CHOOSE i \in 1..Len(I!Fields(Inner)) : I!Fields(Inner)[i] = f
Lift(q, k) == IF IsF THEN q
              ELSE [f \in {"re"} \cup I!FieldSet(Inner) |->
                        IF f = "re" THEN q ELSE IntVals[((k + 3 * InnerIdx(f)) % Len(IntVals)) + 1]]
\* selection by the random numbers held in the state
NRnd == 60
RandVec(t) == [i \in 1..NRnd |-> RandomElement(0..(99999 + t - t))]
PickS(S, i) == LET q == SetToSeq(S) IN q[(rnd[i] % Len(q)) + 1]
RandValue ==
    [f \in {"re"} \cup B!FieldSet(Ty) |->
        IF f = "re" THEN Lift(PickS(ReGrid, 11), rnd[12])
        ELSE LET fi == FieldIdx(f) IN
             IF B!IsVec(Ty)
             THEN LET d == B!PartDims(Ty, f)
                  IN  IF rnd[11 + fi] % 4 = 0 THEN B!None
                      ELSE B!Some([i \in 1..d[1] |-> [j \in 1..d[2] |->
                                      Lift(PickS(PartGrid, 20 + ((7 * fi + 3 * i + j) % 40)), rnd[13] + i + j)]])
             ELSE Lift(PickS(PartGrid, 20 + fi), rnd[14] + fi)]

---------------------------------------------------------------------------
Init == /\ regs = [r \in Regs |-> B!ZeroB(Ty)]
        /\ hist = <<>>
        /\ rnd = IF Mode = "sim" THEN RandVec(0) ELSE <<>>

\* perform event ev: an observation leaves the registers alone
Do(ev) ==
    /\ Len(hist) < Depth
    /\ ev.op \in OpFilter
    /\ Enabled(Ty, regs, ev)
    /\ LET res == Result(Ty, regs, ev)
       IN  /\ regs' = IF IsObs(ev.op) THEN regs ELSE [regs EXCEPT ![ev.d] = res]
           /\ hist' = Append(hist, [ev |-> ev, post |-> res])

NoRs == <<>>
\* "bfs": programs are  load r1; ...; load rNR; op; op; ...   "sim": free mix
Loading == Mode = "bfs" /\ Len(hist) < NR
Load ==
    \E d \in Regs :
        IF Mode = "bfs"
        THEN /\ d = Len(hist) + 1
             /\ \E v \in LoadSet :
                Do([op |-> "load", form |-> "", a |-> d, b |-> d, c |-> d, d |-> d,
                    s |-> Q0, n |-> 0, rs |-> NoRs, v |-> v])
        ELSE Do([op |-> "load", form |-> "", a |-> d, b |-> d, c |-> d, d |-> d,
                 s |-> Q0, n |-> 0, rs |-> NoRs, v |-> RandValue])
Bin ==
    \E op \in BinOps, form \in BinForms, a \in Regs, b \in Regs, d \in Dests :
        /\ Do(Ev(op, form, a, b, a, IF form = "assign" THEN a ELSE d, Q0, 0, NoRs))
BinF ==
    \E op \in FOps, form \in FForms, a \in Regs, d \in Dests, s \in ScalarGrid :
        /\ Do(Ev(op, form, a, a, a, IF form = "assign" THEN a ELSE d, s, 0, NoRs))
Un ==
    \E op \in UnOps, a \in Regs, d \in Dests : Do(Ev(op, "", a, a, a, d, Q0, 0, NoRs))
Powi ==
    \E n \in PowSet, a \in Regs, d \in Dests : Do(Ev("powi", "", a, a, a, d, Q0, n, NoRs))
Powf ==
    \E q \in {QInt(n) : n \in PowSet} \cup {<<1, 2>>, <<3, 2>>, <<5, 2>>, <<-1, 2>>},
       a \in Regs, d \in Dests :
        Do(Ev("powf", "", a, a, a, d, q, 0, NoRs))
Bin2 ==
    \E op \in {"powd", "atan2", "abs_sub"}, a \in Regs, b \in Regs, d \in Dests :
        Do(Ev(op, "", a, b, a, d, Q0, 0, NoRs))
MulAdd ==
    \E a \in Regs, b \in Regs, c \in Regs, d \in Dests :
        Do(Ev("mul_add", "", a, b, c, d, Q0, 0, NoRs))
Fold ==
    \E op \in {"sum", "product"}, form \in {"owned", "ref"}, k \in 0..3, d \in Dests :
        \E rs \in [1..k -> Regs] : Do(Ev(op, form, d, d, d, d, Q0, 0, rs))
Const ==
    \/ \E op \in {"zero", "one"}, d \in Dests : Do(Ev(op, "", d, d, d, d, Q0, 0, NoRs))
    \/ \E s \in ScalarGrid, d \in Dests : Do(Ev("from_f", "", d, d, d, d, s, 0, NoRs))
Obs ==
    \/ \E op \in Preds \cup {"re"}, a \in Regs : Do(Ev(op, "", a, a, a, a, Q0, 0, NoRs))
    \* PartialOrd / real-part PartialEq exist on the four field-compatible types only
    \/ /\ Kind \in {"Dual", "DualVec", "Dual2", "Dual2Vec"}
       /\ \E op \in Cmps, a \in Regs, b \in Regs : Do(Ev(op, "", a, b, a, a, Q0, 0, NoRs))

Next == /\ \/ Load
           \/ ~Loading /\ (Bin \/ BinF \/ Un \/ Powi \/ Powf \/ Bin2 \/ MulAdd \/ Fold \/ Const \/ Obs)
        /\ UNCHANGED rnd
Spec == Init /\ [][Next]_vars

\* Sampling ("sim" mode): one pseudo-random instance of an event per step instead of TLC's
\* enumeration of all successors; an event that is not enabled is replaced by a load.
\* The event is a function of the random numbers in the state (rnd), so it is the same
\* event wherever the action mentions it; rnd is redrawn for the next step.
PR(S, i) == PickS(S, i)
RandEv ==
    LET cat == (rnd[1] % 20) + 1
        a == PR(Regs, 2)  b == PR(Regs, 3)  c == PR(Regs, 4)  d == PR(Regs, 5)
    IN  CASE cat \in 1..5   -> LET f == PR(BinForms, 6) IN Ev(PR(BinOps, 7), f, a, b, a, IF f = "assign" THEN a ELSE d, Q0, 0, NoRs)
          [] cat \in 6..7   -> LET f == PR(FForms, 6) IN Ev(PR(FOps, 7), f, a, a, a, IF f = "assign" THEN a ELSE d, PR(ScalarGrid, 8), 0, NoRs)
          [] cat \in 8..11  -> Ev(PR(UnOps, 7), "", a, a, a, d, Q0, 0, NoRs)
          [] cat = 12       -> Ev("powi", "", a, a, a, d, Q0, PR(PowSet, 8), NoRs)
          [] cat = 13       -> Ev("powf", "", a, a, a, d, PR({QInt(n) : n \in PowSet} \cup {<<1, 2>>, <<3, 2>>, <<5, 2>>, <<-1, 2>>}, 8), 0, NoRs)
          [] cat = 14       -> Ev(PR({"powd", "atan2", "abs_sub"}, 7), "", a, b, a, d, Q0, 0, NoRs)
          [] cat = 15       -> Ev("mul_add", "", a, b, c, d, Q0, 0, NoRs)
          [] cat = 16       -> LET k == rnd[8] % 4 IN Ev(PR({"sum", "product"}, 7), PR({"owned", "ref"}, 6), d, d, d, d, Q0, 0, [i \in 1..k |-> PR(Regs, 8 + i)])
          [] cat = 17       -> Ev(PR({"zero", "one", "from_f"}, 7), "", d, d, d, d, PR(ScalarGrid, 8), 0, NoRs)
          [] cat = 18       -> Ev(PR(Preds \cup {"re"}, 7), "", a, a, a, a, Q0, 0, NoRs)
          [] cat \in 19..20 -> [op |-> "load", form |-> "", a |-> d, b |-> d, c |-> d, d |-> d,
                                s |-> Q0, n |-> 0, rs |-> NoRs, v |-> RandValue]
SimStep ==
    /\ LET ev == RandEv
       IN  IF ev.op \in OpFilter /\ Enabled(Ty, regs, ev) THEN Do(ev)
           ELSE LET d == PR(Regs, 5) IN
                Do([op |-> "load", form |-> "", a |-> d, b |-> d, c |-> d, d |-> d,
                    s |-> Q0, n |-> 0, rs |-> NoRs, v |-> RandValue])
    /\ rnd' = RandVec(Len(hist))
SpecSim == Init /\ [][SimStep]_vars

---------------------------------------------------------------------------
(* emission of behaviours (spec -> implementation) *)
Emit ==
    Len(hist) = Depth =>
        PrintT(<<"BEH", ToJson([ty |-> (IF IsF THEN Ty ELSE Ty @@ [inner |-> Inner]), mant |-> Mant, nr |-> NR, events |-> hist])>>)

\* history is hidden from the fingerprint except for its last event, so every
\* distinct transition is reached (and emitted) but paths are not multiplied
View == <<regs, Len(hist), IF hist = <<>> THEN <<>> ELSE hist[Len(hist)]>>

---------------------------------------------------------------------------
(* model-level invariants *)
\* plain-rational meaning of the real part of the last event (C06)
PlainRe(ev, r) ==
    LET a == r[ev.a].re  b == r[ev.b].re  c == r[ev.c].re
    IN  CASE ev.op = "add" -> QAdd(a, b) [] ev.op = "sub" -> QSub(a, b)
          [] ev.op = "mul" -> QMul(a, b) [] ev.op = "div" -> QDiv(a, b)
          [] ev.op = "add_f" -> QAdd(a, ev.s) [] ev.op = "sub_f" -> QSub(a, ev.s)
          [] ev.op = "mul_f" -> QMul(a, ev.s) [] ev.op = "div_f" -> QDiv(a, ev.s)
          [] ev.op \in {"neg", "neg_ref"} -> QNeg(a)
          [] ev.op = "abs" -> QAbs(a)
          [] ev.op = "signum" -> QInt(QSign(a))
          [] ev.op = "inv" -> QInv(a)
          [] ev.op \in ExactElemFns \ {"recip"} -> QFun(ev.op, a)
          [] ev.op = "recip" -> QInv(a)
          [] ev.op \in {"tan", "tanh"} -> Q0
          [] ev.op = "powi" -> QPow(a, ev.n)
          [] ev.op = "powf" -> QPowf(a, ev.s)
          [] ev.op = "powd" -> Q1                       \* only enabled at base 1
          [] ev.op = "atan2" -> Q0
          [] ev.op = "mul_add" -> QAdd(QMul(a, b), c)
          [] ev.op = "abs_sub" -> IF QLt(b, a) THEN QSub(a, b) ELSE Q0
          [] ev.op = "from_f" -> ev.s
          [] ev.op = "zero" -> Q0 [] ev.op = "one" -> Q1
          [] ev.op = "load" -> ev.v.re
          [] OTHER -> "skip"

\* C06 as an action property: the real part of every result is the plain-rational
\* operation on the real parts of the operands (pre-state registers)
ReTransparentStep(pre, h) ==
    IsObs(h.ev.op) \/ h.ev.op \in {"sum", "product"} \/ PlainRe(h.ev, pre) = h.post.re
ReTransparent ==
    [][hist' # hist => ReTransparentStep(regs, hist'[Len(hist')])]_vars

\* C07 as an action property: zero-filling every register (explicit zeros instead
\* of absent parts) leaves every result numerically unchanged
ZeroFill(v) ==
    IF ~B!IsVec(Ty) THEN v
    ELSE [f \in DOMAIN v |->
            IF f = "re" THEN v.re
            ELSE LET d == B!PartDims(Ty, f) IN B!Some(B!Dense(v[f], d[1], d[2]))]
AbsentIsZeroStep(pre, h) ==
    \/ h.ev.op = "load"
    \/ LET zf == [r \in Regs |-> ZeroFill(pre[r])]
           res == Result(Ty, zf, h.ev)
       IN  IF IsObs(h.ev.op) THEN res = h.post ELSE ZeroFill(res) = ZeroFill(h.post)
AbsentIsZero ==
    [][hist' # hist => AbsentIsZeroStep(regs, hist'[Len(hist')])]_vars
\* C08 as an action property: every syntactic form equals the canonical operation
\* between dual numbers with the scalar lifted to a constant
DerivPartsZero(v) ==
    \A f \in B!FieldSet(Ty) :
        IF B!IsVec(Ty) THEN (\A q \in DScalars(v[f]) : QIsZero(q)) ELSE QIsZero(v[f])
BinCanon(op, x, y) ==
    CASE op \in {"add", "add_f"} -> B!AddB(Ty, x, y)
      [] op \in {"sub", "sub_f"} -> B!SubB(Ty, x, y)
      [] op \in {"mul", "mul_f"} -> B!MulB(Ty, x, y)
      [] op \in {"div", "div_f"} -> B!DivB(Ty, x, y)
FormsAgreeStep(pre, h) ==
    LET ev == h.ev  a == pre[ev.a]  b == pre[ev.b]  c == pre[ev.c]
        same(x) == ZeroFill(x) = ZeroFill(h.post)
    IN  CASE ev.op \in BinOps -> same(BinCanon(ev.op, a, b))
          [] ev.op \in FOps   -> same(BinCanon(ev.op, a, B!FromFB(Ty, ev.s)))
          [] ev.op \in {"neg", "neg_ref"} -> same(B!SubB(Ty, B!ZeroB(Ty), a))
          [] ev.op \in {"inv", "recip"} -> same(B!DivB(Ty, B!OneB(Ty), a))
          [] ev.op = "mul_add" -> same(B!AddB(Ty, B!MulB(Ty, a, b), c))
          [] ev.op \in {"zero", "one", "from_f"} ->
                /\ DerivPartsZero(h.post)
                /\ h.post.re = (IF ev.op = "zero" THEN Q0 ELSE IF ev.op = "one" THEN Q1 ELSE ev.s)
          [] ev.op = "sum" ->
                same(B!SumB(Ty, [i \in 1..Len(ev.rs) |-> pre[ev.rs[i]]]))
          [] ev.op = "product" ->
                same(B!ProductB(Ty, [i \in 1..Len(ev.rs) |-> pre[ev.rs[i]]]))
          [] OTHER -> TRUE
FormsAgree ==
    [][hist' # hist => FormsAgreeStep(regs, hist'[Len(hist')])]_vars

---------------------------------------------------------------------------
(* grids used by the configs (overridden via  X <- Name) *)
\* a small set of "generic" values: all parts pairwise distinct, mixed signs, one
\* value per presence pattern of the optional parts plus variants with zeros
\* small values keep every operation inside TLC's 32-bit integers (and inside the f32
\* mantissa when Mant = 24): see ExactOK in Calc.tla
SmallVals == IF Mant >= 53
             THEN << <<1, 1>>, <<-2, 1>>, <<3, 1>>, <<-1, 2>>, <<2, 1>>, <<-3, 1>>, <<3, 2>>, <<-1, 1>>,
                     <<1, 2>>, <<-3, 2>> >>
             ELSE << <<1, 1>>, <<-2, 1>>, <<3, 1>>, <<-1, 1>>, <<2, 1>>, <<-3, 1>> >>
GenQ(k) == IF IsF THEN SmallVals[(k % Len(SmallVals)) + 1] ELSE IntVals[(k % Len(IntVals)) + 1]
GenScalar(k) == Lift(GenQ(k), k)
GenValue(k, pres, re0) ==
    LET re == Lift(re0, k + 1) IN
    [f \in {"re"} \cup B!FieldSet(Ty) |->
        IF f = "re" THEN re
        ELSE IF B!IsVec(Ty)
             THEN IF pres[f]
                  THEN LET d == B!PartDims(Ty, f)
                       IN  B!Some(B!Mat(d[1], d[2],
                               LAMBDA i, j : GenScalar(k + 7 * FieldIdx(f) + 3 * i + j)))
                  ELSE B!None
             ELSE GenScalar(k + 2 * FieldIdx(f))]
PresSet == IF B!IsVec(Ty) THEN [B!FieldSet(Ty) -> BOOLEAN] ELSE {[f \in B!FieldSet(Ty) |-> TRUE]}
LoadSetQuick ==
    {GenValue(1, p, <<2, 1>>) : p \in PresSet}
    \cup {GenValue(3, [f \in B!FieldSet(Ty) |-> TRUE], <<2, 1>>)}   \* same real part, other parts
    \cup {GenValue(4, [f \in B!FieldSet(Ty) |-> TRUE], IF Mant >= 53 THEN <<-1, 2>> ELSE <<-1, 1>>)}
    \cup {GenValue(2, [f \in B!FieldSet(Ty) |-> TRUE], r) : r \in {<<0, 1>>, <<1, 1>>, <<4, 1>>}}
\* nested types: a value whose derivative parts have a ZERO real part and non-zero inner parts (first and second
\* derivative of the divisor vanish at the point, the third does not): the predicates is_zero / is_one of a dual number
\* look at the real part only, so a part like 0 + 2 eps "is zero" -- shortcuts guarded by them must not drop it
GenValueZ(k, re0) ==
    [f \in {"re"} \cup B!FieldSet(Ty) |->
        IF f = "re" THEN Lift(re0, k + 1)
        ELSE IF B!IsVec(Ty)
             THEN LET d == B!PartDims(Ty, f) IN B!Some(B!Mat(d[1], d[2], LAMBDA i, j : Lift(Q0, k + 7 * FieldIdx(f) + 3 * i + j)))
             ELSE Lift(Q0, k + 2 * FieldIdx(f))]
\* nested types: integers only (the degree of a nested operation leaves room for two bits per operand scalar)
LoadSetNested ==
    {GenValue(1, p, <<2, 1>>) : p \in PresSet}
    \cup {GenValue(3, [f \in B!FieldSet(Ty) |-> TRUE], <<2, 1>>)}
    \cup {GenValue(4, [f \in B!FieldSet(Ty) |-> TRUE], <<-1, 1>>)}
    \cup {GenValue(2, [f \in B!FieldSet(Ty) |-> TRUE], r) : r \in {<<0, 1>>, <<1, 1>>, <<4, 1>>}}
    \cup {GenValueZ(1, <<2, 1>>), GenValueZ(2, <<-1, 1>>)}
LoadSetNestedQuick ==
    {GenValue(1, [f \in B!FieldSet(Ty) |-> TRUE], <<2, 1>>), GenValue(4, [f \in B!FieldSet(Ty) |-> TRUE], <<-1, 1>>),
     GenValue(2, [f \in B!FieldSet(Ty) |-> TRUE], <<4, 1>>), GenValueZ(1, <<2, 1>>)}
LoadSetGeneric ==
    {GenValue(1, p, <<2, 1>>) : p \in PresSet}
    \cup {GenValue(3, [f \in B!FieldSet(Ty) |-> TRUE], <<2, 1>>)}
    \cup {GenValue(4, p, IF Mant >= 53 THEN <<-1, 2>> ELSE <<-1, 1>>) : p \in PresSet}
    \cup {GenValue(2, [f \in B!FieldSet(Ty) |-> TRUE], r) : r \in {<<0, 1>>, <<1, 1>>, <<4, 1>>}}
ReGridSmall   == {<<1, 1>>, <<-2, 1>>, <<1, 2>>, <<0, 1>>, <<4, 1>>}
PartGridSmall == {<<1, 1>>, <<-3, 1>>, <<0, 1>>, <<1, 2>>}
ScalarGridSmall == {<<2, 1>>, <<-1, 2>>, <<3, 1>>}
PowSetSmall   == {-2, 0, 1, 2, 3, 5}
OpsArith == {"load", "add", "sub", "mul", "div", "neg", "neg_ref", "powi", "recip", "inv"}
OpsForms == {"load"} \cup BinOps \cup FOps \cup {"neg", "neg_ref", "inv", "recip", "sum", "product",
                                               "mul_add", "from_f", "zero", "one", "abs_sub"}
OpsPow == {"load", "powi", "powf", "powd", "recip", "inv", "mul", "div", "sqrt", "product"}
OpsElem == {"load"} \cup UnOps \cup {"atan2", "recip", "powd"}
AllOps == {"load"} \cup BinOps \cup FOps \cup UnOps \cup Preds \cup Cmps
          \cup {"powi", "powf", "powd", "atan2", "abs_sub", "mul_add", "sum", "product",
                "from_f", "zero", "one", "re"}
=============================================================================
