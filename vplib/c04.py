"""C04 -- all number types, nestings and storage variants agree on shared derivatives."""
from .common import *
from .floatlib import *

K_TOL = 64


def views_run(name="views"):
    return run_tlc("Views.tla", cfg(spec="VSpec", overrides={"TypeSet": "TypesQuick"},
                                    invariants=["ViewsAgree", "OrderIsSumOfLevels", "ExportViews"]), name, workers=6, timeout=900)


def refine_nested_run(name="refine_nested"):
    return run_tlc("RefineN.tla", cfg(invariants=["RefinesNested", "OrderIsSum"]), name, workers=4, timeout=900)


def run(tier):
    chk = Check("C04", tier, "model_checking")
    build_harness("hcore")
    nprog = 120 if tier == "quick" else 3000
    rn, vw, tw, tb, p1, p2, p1b, p3 = parallel([refine_nested_run, views_run, towers_run, tables_run,
                                            lambda: programs_run(1, 6, nprog, "prog4_1_6"), lambda: programs_run(2, 8, nprog, "prog4_2_8"),
                                            lambda: programs_run(1, 12, nprog, "prog4_1_12"),
                                            lambda: programs_run(3, 9, nprog, "prog4_3_9")], max_par=8)
    chk.add_tlc(rn, "nested dual numbers refine layer A symbolically: layer B instantiated over layer B (13 scalar type pairs of total "
                    "order <= 4) against Leibniz / Faa di Bruno / the implicit quotient on the flattened jet; tower of towers for the "
                    "chain rule; from_inner; NDERIV = sum over levels")
    if rn.violated or rn.distinct < 450:
        chk.model_violation(rn, "RefineN")
    chk.add_tlc(vw, "correspondence table: every read (type, seeding, location) = formal partial derivative of the generic polynomial, "
                    "proved on the flattened layer-A jets; NDERIV = sum over levels")
    chk.add_tlc(tw, "towers")
    chk.add_tlc(tb, "layer-A tables; NDerivIsMaxSlotLength")
    for r, nm in ((vw, "Views"), (tw, "Towers"), (tb, "Tables"), (p1, "Programs"), (p2, "Programs"), (p1b, "Programs"), (p3, "Programs")):
        if r.violated:
            chk.model_violation(r, nm)
    if chk.violations:
        return chk.finish()
    chk.cov["correspondence_members"] = vw.distinct
    for pr in (p1, p2, p1b, p3):
        chk.add_tlc(pr, "program skeletons")
        rep = run_harness("hcore", ["float-cross", "--tables", ",".join([tb.out_path, tw.out_path, vw.out_path]), "--programs",
                                    pr.out_path, "--seed", str(seed()), "--k", str(K_TOL)], timeout=3000)
        chk.cov["evaluations"] += rep["comparisons"]
        chk.cov["traces_validated_against_impl"] += rep["points"]
        for k in rep["per_pair"]:
            chk.distinct.add(k)
        for s in rep["samples"]:
            chk.sample(s)
        chk.cov["worst_error_over_bound"] = max(chk.cov.get("worst_error_over_bound", 0), rep["worst_ratio"])
        chk.cov["nderiv_types_checked"] = len(rep["nderiv_checked"])
        for v in rep["violations"]:
            chk.violation("cross-type: %s" % json.dumps({k: v[k] for k in v if k != "program"})[:500], {"kind": "float-case", **v})
    if len(chk.distinct) < 40:
        raise ToolError("vacuity: only %d type pairs compared" % len(chk.distinct))
    return chk.finish(rule="one case = pair (concrete configuration, reference configuration) compared on a shared partial derivative; "
                           "programs from Programs.tla with 1, 2 and 3 inputs (three inputs: one direction per variable, the only seeding under which "
                           "the three mixed second-order parts of a third-order type hold different derivatives), one common f32-representable point per program; members: "
                           "Dual3 / Dual<Dual<Dual>> / HHD (third order), Dual2 / Dual2Vec / HyperDual / HyperDualVec / Dual<Dual> "
                           "(second and mixed), DualVec vs Dual, fourth order via Dual2<Dual2>, Dual3<Dual>, HHD<Dual>; each in "
                           "f32/f64 and static/dynamic storage")
