"""C10 / C14 / C15 share the special-point machinery."""
from .common import *
from .floatlib import *


def special_run(name="special"):
    return run_tlc("Special.tla", cfg(invariants=["FiniteWhereSmooth", "SeriesWellDefined", "ExportSeries", "ExportBesselClasses"]), name,
                   workers=4, timeout=900)


def report_known(chk, rep, pid, how="comparisons in the listed range exceed the strict tolerance but stay within what the cause explains"):
    """known findings: only those committed in KNOWN_FINDINGS for this property may be downgraded"""
    listed = {kv.get("key"): line for kv, line in known_findings().get(pid, [])}
    for key, cnt in rep.get("known", {}).items():
        if key in listed:
            desc = listed[key].split("--", 1)[-1].strip()[:300]
            msg = "key=%s (%d %s) %s" % (key, cnt, how, desc)
            if msg not in chk.known:
                chk.known.append(msg)
        else:
            chk.violation("finding %s is not listed for %s in KNOWN_FINDINGS" % (key, pid), {"kind": "float-case", "key": key, "count": cnt})


def sweep(chk, what, files, samples):
    rep = run_harness("hcore", ["float-special", "--tables", ",".join(files), "--what", what, "--samples", str(samples),
                                "--seed", str(seed())], timeout=3000)
    absorb_float(chk, rep, what + " functions vs series / closed-form towers")
    chk.cov.setdefault("float_parts_compared", 0)
    chk.cov["float_parts_compared"] += rep["parts_compared"]
    return rep
