"""C07 -- absent derivative parts behave exactly like all-zero derivative parts."""
from .common import *
from .machine import *

OPS = ["add", "sub", "mul", "div", "add_f", "sub_f", "mul_f", "div_f", "neg", "abs", "signum", "inv", "sqrt", "exp",
       "sin", "ln", "powi", "powf", "mul_add", "abs_sub", "sum", "product", "powd"]
VEC_QUICK = [("DualVec", 2, 1), ("Dual2Vec", 2, 1), ("HyperDualVec", 3, 2)]
VEC_THOROUGH = VEC_QUICK + [("DualVec", 1, 1), ("DualVec", 3, 1), ("Dual2Vec", 1, 1), ("Dual2Vec", 3, 1),
                            ("HyperDualVec", 1, 1), ("HyperDualVec", 2, 2), ("HyperDualVec", 1, 2)]


def derivops_run():
    return run_tlc("DerivOps.tla", cfg(invariants=["DenseOK", "ExportDeriv", "DerivGenericInv"]), "derivops", workers=3, timeout=600)


# DerivAlgP.tla repeats the container's match expressions of DualB.tla over an abstract module; the copy must not go stale
_ALG = {"DAddMatch": "DAdd", "DSubMatch": "DSub", "DNeg": "DNeg", "DAddAssign": "DAddAssign", "DSubAssign": "DSubAssign",
        "DMulT": "DMulT", "DDivT": "DDivT", "DMulAssignT": "DMulAssignT", "DDivAssignT": "DDivAssignT", "DMul": "DMul"}


def _defn(text, name):
    m = re.search(r"^%s\([^)]*\) ==(.*?)(?=^\S)" % re.escape(name), text, re.S | re.M)
    if not m:
        raise ToolError("definition %s not found" % name)
    body = re.sub(r"\\\*[^\n]*", "", m.group(1))
    return " ".join(body.split())


def derivalg_in_sync():
    b = open(os.path.join(SPEC, "DualB.tla")).read()
    a = open(os.path.join(SPEC, "DerivAlgP.tla")).read()
    subs = [(r"MatZip\(a\.m, b\.m, LAMBDA x, y : SAdd\(x, y\)\)", "MAdd(a.m, b.m)"),
            (r"MatZip\(a\.m, b\.m, LAMBDA x, y : SSub\(x, y\)\)", "MSub(a.m, b.m)"),
            (r"MatMap\((\w)\.m, LAMBDA \w : SNeg\(\w\)\)", r"MNeg(\1.m)"),
            (r"MatMap\((\w)\.m, LAMBDA x : SMul\(x, s\)\)", r"MScale(\1.m, s)"),
            (r"MatMap\((\w)\.m, LAMBDA x : SDiv\(x, s\)\)", r"MDivS(\1.m, s)"),
            (r"MatMul\(a\.m, b\.m\)", "MMul(a.m, b.m)")]
    for nb, na in _ALG.items():
        x = _defn(b, nb)
        for pat, rep in subs:
            x = re.sub(pat, rep, x)
        y = _defn(a, na)
        if x != y:
            raise ToolError("DerivAlgP.%s is not the abstract form of DualB.%s:\n  %s\n  %s" % (na, nb, x, y))
    return len(_ALG)


def run(tier):
    kinds = VEC_QUICK if tier == "quick" else VEC_THOROUGH
    chk, extra = machine_check("C07", tier, "AllOps", OPS, kinds, ["AbsentIsZero"], "zerofill",
                           "zero-fill replay (absent parts as explicit zeros)",
                           "one case = (concrete vector type, operation, form); operands range over all 2^k presence patterns; "
                           "TLC checks AbsentIsZero on every transition; the harness replays every behaviour with the model's "
                           "representation and with every absent part replaced by explicit zeros: all parts must agree; "
                           "random accumulator histories recorded on the real crate are validated by TraceCalc.tla",
                           traces=(kinds, 2500 if tier == "quick" else 30000),
                           extra_jobs=[derivops_run, lambda: run_tlapm("DerivAlgP.tla", "tlaps_derivalg")] + [lambda k=k, n=n, m=m, i=i: machine_run(k, n, m, "AllOps", depth=3, mant=53, props=False, inner=i,
                                                                                               loadset="LoadSetNested", workers=3, tag="_zf")
                                                        for (k, n, m, i) in NESTED_THOROUGH if k.endswith("Vec")])
    dv, tl = extra[0], extra[1]
    nsync = derivalg_in_sync()
    chk.cov["tlaps_DerivAlgP"] = {"status": tl["status"], "obligations": tl["obligations"], "wall_s": tl["wall_s"], "definitions_in_sync_with_DualB": nsync,
                                  "what": "every container operator commutes with absent |-> zeros for EVERY matrix value (abstract module with a zero; proof)"}
    if tl["status"] == "failed":
        raise ToolError("tlapm: the proof of DerivAlgP.tla does not go through: " + tl["tail"][-600:])
    if tl["status"] == "unavailable":
        chk.assumptions.append("tlapm could not be run: the unbounded companion proof DerivAlgP.tla was not re-checked (TLC's DenseOK stands)")
    # nested vector types (DualVec<Dual64>, Dual2Vec<Dual64>): zero-fill replay with zeros of the inner number type
    for res in extra[2:]:
        chk.add_tlc(res, "calculator behaviours of a nested vector type, all presence patterns")
        if res.violated:
            chk.model_violation(res, "MachineN")
            continue
        rep = replay(res, mode="zerofill")
        absorb_replay(chk, rep, "zero-fill replay (nested vector type)")
    chk.add_tlc(dv, "every public operator of the Derivative container x all absent/present operand combinations: DenseOK "
                    "(the operator commutes with absent |-> zeros), derivative_generic indexing")
    if dv.violated:
        chk.model_violation(dv, "DerivOps")
    else:
        rep = run_harness("hcore", ["derivops", dv.out_path])
        chk.cov["traces_validated_against_impl"] += rep["cases"]
        chk.cov["evaluations"] += rep["checks"]
        chk.cov["derivative_operator_cases"] = rep["distinct_cases"]
        for k in rep["per_case"]:
            chk.distinct.add("Derivative|" + k)
        for v in rep["violations"]:
            chk.violation("Derivative operator: %s" % json.dumps(v)[:500], {"kind": "derivative-case", **v})
        if rep["distinct_cases"] < 110:
            raise ToolError("vacuity: %d Derivative operator cases" % rep["distinct_cases"])
    # conversions (the property names them): values of the vector types with absent parts through the subset / superset
    # conversions -- membership, checked and unchecked narrowing, widening must treat an absent part as a part of zeros
    crep = run_harness("hcore", ["convert", "--seed", str(seed()), "--samples", "40" if tier == "quick" else "1000"], timeout=3000)
    nconv = sum(cnt for k, cnt in crep["per_case"].items() if "Vec" in k)
    chk.cov["evaluations"] += nconv
    chk.cov["conversion_checks_on_vector_types"] = nconv
    for v in crep["violations"]:
        blob = json.dumps(v)
        if '"p": false' in blob or '"p":false' in blob:
            chk.violation("conversion of a value with an absent part: %s" % blob[:500], {"kind": "convert-case", **v})
    if nconv < 1000:
        raise ToolError("vacuity: %d conversion checks on vector types" % nconv)
    return chk.finish(extra={"exhaustive": True})
