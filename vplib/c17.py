"""C17 -- Python bindings are a transparent view of the Rust operations."""
from .common import *
from .c05 import drivers_run
from .floatlib import programs_run


def pybind_run():
    return run_tlc("PyBind.tla", cfg(invariants=["ModelOK", "ExportPy"]), "pybind", workers=2, timeout=600)


def pyarrays_run():
    return run_tlc("PyArrays.tla", cfg(constants={"Depth": 2}, overrides={"Shapes": "ShapesDefault", "WithDeviation": "Off"},
                                       invariants=["ModelOK", "Export"], properties=["Immutable"]), "pyarrays", workers=3, timeout=900)


def pyarrays_deviation_run():
    """non-vacuity of Immutable: with the crate's original in-place treatment of object arrays as an action the property must fail"""
    try:
        r = run_tlc("PyArrays.tla", cfg(constants={"Depth": 2}, overrides={"Shapes": "ShapesDefault", "WithDeviation": "On"},
                                        invariants=["ModelOK"], properties=["Immutable"]), "pyarrays_dev", workers=2, timeout=900)
    except ToolError as e:
        raise
    if "Immutable" not in r.violated:
        raise ToolError("vacuity: Immutable is not violated by the in-place deviation (PyArrays.tla)")
    return r


def replay_one(rep):
    """re-run one recorded Python case through the real bindings and show what Python returns now"""
    build_harness("hpy")
    code = rep.get("code")
    if not code:
        print(json.dumps(rep, indent=1, ensure_ascii=False)[:4000])
        return 0
    os.makedirs(WORK, exist_ok=True)
    f = os.path.join(WORK, "replay_c17.py")
    tail = "print(__out)\n" if "__out" in code else "print(rr)\n"
    open(f, "w").write(code + "\n" + tail)
    exe = os.path.join(HARNESS, "target", "debug", "hpy")
    p = subprocess.run([exe, "--exec", f], stdout=subprocess.PIPE, stderr=subprocess.PIPE, text=True, timeout=600,
                       env=dict(os.environ, PYTHONIOENCODING="utf-8"))
    print("python now returns:", p.stdout.strip()[:3000] or p.stderr.strip()[:1500])
    for k in ("python_repr", "rust_display", "first_differing_object", "python", "fresh"):
        if k in rep:
            print("recorded %s: %s" % (k, json.dumps(rep[k], ensure_ascii=False)[:1500]))
    return 0


def run(tier):
    chk = Check("C17", tier, "model_checking")
    build_harness("hpy")
    nprog = 150 if tier == "quick" else 3000
    pb, dr, pa, pdev, pg2, pg3 = parallel([pybind_run, lambda: drivers_run("num", 3, 3, "drivers_py", caseset="py"), pyarrays_run,
                                           pyarrays_deviation_run, lambda: programs_run(2, 8, nprog, "prog17_2_8", excluded="PyExcluded"),
                                           lambda: programs_run(3, 12, nprog, "prog17_3_12", excluded="PyExcluded")], 6)
    chk.add_tlc(pb, "forwarding table python method/operator -> program of Rust operations; reflected operators mean l-x, l/x, l+x, l*x "
                    "(checked over exact rationals on the five scalar kinds); driver dispatch on the input length")
    chk.add_tlc(dr, "driver cases for input lengths 1..12 (closures, points, expected outputs by formal differentiation)")
    chk.add_tlc(pa, "Python heap of dual scalars, float arrays and object arrays (shapes (3,), (2,2), (0,)): every behaviour of two operator "
                    "applications over every pair of heap objects; Elementwise, Kinds, Immutable (operands never change, results are new objects)")
    chk.cov["deviation_run"] = "PyArrays with the in-place action InPlaceObj added violates Immutable (expected; non-vacuity)"
    for pg in (pg2, pg3):
        chk.add_tlc(pg, "program skeletons (expression DAGs) sampled from Programs.tla, written against the Python classes with PyBind.ProgSyntax")
    for r, nm in ((pb, "PyBind"), (dr, "Drivers"), (pa, "PyArrays"), (pg2, "Programs"), (pg3, "Programs")):
        if r.violated:
            chk.model_violation(r, nm)
    if chk.violations:
        return chk.finish()
    exe = os.path.join(HARNESS, "target", "debug", "hpy")
    progs = os.path.join(WORK, "prog17_all.txt")
    with open(progs, "w") as f:
        for pg in (pg2, pg3):
            f.write(open(pg.out_path).read())
    p = subprocess.run([exe, "--table", pb.out_path, "--drivers", dr.out_path, "--programs", progs, "--arrays", pa.out_path, "--stride",
                        "20" if tier == "quick" else "1", "--seed", str(seed()), "--samples", "3" if tier == "quick" else "150"], stdout=subprocess.PIPE, stderr=subprocess.PIPE, text=True, timeout=3000,
                       env=dict(os.environ, PYTHONIOENCODING="utf-8"))
    if p.returncode != 0:
        raise ToolError("hpy failed rc=%d: %s" % (p.returncode, p.stderr[-1500:]))
    rep = json.loads(p.stdout)
    chk.cov["traces_validated_against_impl"] = rep["checks"]
    chk.cov["evaluations"] = rep["checks"]
    for k in rep["per_case"]:
        chk.distinct.add(k)
    for s in rep["samples"]:
        chk.sample(s)
    chk.cov["numpy"] = rep.get("numpy", "")
    narr = len([k for k in rep["per_case"] if "|array " in k])
    if rep.get("numpy", "").startswith("unavailable"):
        chk.assumptions.append("NumPy could not be imported by the embedded interpreter: the array behaviours of PyArrays.tla were NOT replayed (%s)"
                               % rep["numpy"][:200])
    elif narr < 256:
        raise ToolError("vacuity: %d (class, operand kinds, operator) array cases, expected 256" % narr)
    chk.cov["array_cases"] = narr
    chk.cov["programs_replayed_note"] = rep.get("programs", "")
    nprogcases = len([k for k in rep["per_case"] if "|program n" in k])
    nprogops = len([k for k in rep["per_case"] if k.startswith("prog-op|")])
    if nprogcases < 16 or nprogops < 30:
        raise ToolError("vacuity: whole programs replayed on %d (class, arity) cases with %d distinct operations" % (nprogcases, nprogops))
    chk.cov["program_cases"] = sum(v for k, v in rep["per_case"].items() if "|program n" in k)
    chk.cov["programs"] = chk.cov["program_cases"] // 8
    nvec = len([k for k in rep["per_case"] if k.startswith("vec-class|")])
    if nvec < 24:
        raise ToolError("vacuity: %d vector-class capture cases, expected 24" % nvec)
    chk.cov["vector_class_cases"] = nvec
    if rep["distinct_cases"] - narr - nvec - nprogcases - nprogops < 470:
        raise ToolError("vacuity: %d (class, expression / getter / driver) cases" % (rep["distinct_cases"] - narr - nvec - nprogcases - nprogops))
    for v in rep["violations"]:
        chk.violation("python binding: %s" % json.dumps(v, ensure_ascii=False)[:600], {"kind": "python-case", **v})
    chk.assumptions.append("only the eight scalar / nested classes are registered in the module; the fixed-size and dynamic vector "
                           "classes are reached through the driver functions (lengths 1..12): the drivers' results are compared exactly, and "
                           "an intermediate object captured inside the closure is compared (value, repr, getters in the layout of PyBind.VecClasses)")
    return chk.finish(rule="one case = (Python class, expression from the TLC table) / (class, getter) / (driver, input length): the "
                           "expression is evaluated by the embedded CPython through the real bindings and by the Rust program of the "
                           "table; repr must equal the Rust Display string (round-trip exact rendering, so equality of text is "
                           "equality of every part bit for bit) and every getter must return the same bits; array behaviours (PyArrays.tla): after every step "
                           "the whole Python heap (every element of every object, dtype, shape, freshness of the result) equals the model's heap with "
                           "the terms evaluated by the Rust programs")
