"""C17 -- Python bindings are a transparent view of the Rust operations."""
from .common import *
from .c05 import drivers_run


def pybind_run():
    return run_tlc("PyBind.tla", cfg(invariants=["ModelOK", "ExportPy"]), "pybind", workers=2, timeout=600)


def run(tier):
    chk = Check("C17", tier, "model_checking")
    build_harness("hpy")
    pb, dr = parallel([pybind_run, lambda: drivers_run("num", 3, 3, "drivers_py", caseset="py")], 2)
    chk.add_tlc(pb, "forwarding table python method/operator -> program of Rust operations; reflected operators mean l-x, l/x, l+x, l*x "
                    "(checked over exact rationals on the five scalar kinds); driver dispatch on the input length")
    chk.add_tlc(dr, "driver cases for input lengths 1..12 (closures, points, expected outputs by formal differentiation)")
    for r, nm in ((pb, "PyBind"), (dr, "Drivers")):
        if r.violated:
            chk.model_violation(r, nm)
    if chk.violations:
        return chk.finish()
    exe = os.path.join(HARNESS, "target", "debug", "hpy")
    p = subprocess.run([exe, "--table", pb.out_path, "--drivers", dr.out_path, "--seed", str(seed()), "--samples",
                        "3" if tier == "quick" else "150"], stdout=subprocess.PIPE, stderr=subprocess.PIPE, text=True, timeout=3000,
                       env=dict(os.environ, PYTHONIOENCODING="utf-8"))
    if p.returncode != 0:
        raise ToolError("hpy failed rc=%d: %s" % (p.returncode, p.stderr[-1500:]))
    rep = json.loads(p.stdout)
    chk.cov["traces_validated_against_impl"] = rep["checks"]
    chk.cov["evaluations"] = rep["checks"]
    for k in rep["per_case"]:
        chk.distinct.add(k)
    for s in rep["samples"]:
        chk.sample(s)
    if rep["distinct_cases"] < 470:
        raise ToolError("vacuity: %d (class, expression / getter / driver) cases" % rep["distinct_cases"])
    for v in rep["violations"]:
        chk.violation("python binding: %s" % json.dumps(v, ensure_ascii=False)[:600], {"kind": "python-case", **v})
    chk.assumptions.append("only the eight scalar / nested classes are registered in the module; the fixed-size and dynamic vector "
                           "classes are reached through the driver functions (lengths 1..12), where their results are compared exactly")
    return chk.finish(rule="one case = (Python class, expression from the TLC table) / (class, getter) / (driver, input length): the "
                           "expression is evaluated by the embedded CPython through the real bindings and by the Rust program of the "
                           "table; repr must equal the Rust Display string (round-trip exact rendering, so equality of text is "
                           "equality of every part bit for bit) and every getter must return the same bits")
