"""TLC-exported tables (Towers.tla, Tables.tla, Programs.tla) and the float harness."""
from .common import *
from .machine import *


def towers_run(name="towers"):
    return run_tlc("Towers.tla", cfg(invariants=["TowersAgree", "Export"]), name, workers=4, timeout=600)


def tables_run(name="tables", typeset="TypesQuick"):
    return run_tlc("Tables.tla", cfg(overrides={"TypeSet": typeset},
                                     invariants=["Export", "TablesConsistent", "NDerivIsMaxSlotLength"]),
                   name, workers=6, timeout=900)


def programs_run(nin, maxnodes, num, name, excluded=None):
    c = cfg(spec="SpecSim", constants={"NIn": nin, "MaxNodes": maxnodes}, invariants=["WellFormed", "Emit"],
            properties=["StepIsGrow"], overrides=({"Excluded": excluded} if excluded else None))
    return run_tlc("Programs.tla", c, name, workers=1, simulate=num, depth=maxnodes + 1, timeout=600)


def absorb_float(chk, rep, what, key_cases="per_case"):
    chk.cov["evaluations"] += rep.get("evaluations", rep.get("evaluated", 0))
    for c in rep.get(key_cases, {}):
        chk.distinct.add(c)
    for s in rep.get("samples", []):
        chk.sample(s)
    for v in rep["violations"]:
        chk.violation("%s: %s" % (what, json.dumps({k: v[k] for k in v if k not in ("program", "inputs", "operand")})[:500]),
                      {"kind": "float-case", "what": what, **v})
    if rep["n_violations"] > len(rep["violations"]):
        chk.cov["further_violations_not_listed"] = rep["n_violations"] - len(rep["violations"])
