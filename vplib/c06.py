"""C06 -- the real part is transparent and alone decides comparisons and branches."""
from .common import *
from .machine import *
from .special import report_known
from .c11 import field_run

OPS = ["add", "sub", "mul", "div", "add_f", "mul_f", "neg", "abs", "signum", "inv", "sqrt", "exp", "sin", "ln",
       "powi", "powf", "mul_add", "abs_sub", "sum", "product", "is_zero", "is_one", "is_positive", "is_negative", "re"]


def transparent_run():
    return run_tlc("Transparent.tla", cfg(invariants=["NoPartInRe", "ReIsProgram", "PredOnRe", "PartsDoDepend", "ExportTransp"]),
                   "transparent", workers=4, timeout=600)


def run(tier):
    kinds = KINDS_QUICK if tier == "quick" else KINDS_THOROUGH
    chk, extra = machine_check("C06", tier, "AllOps", OPS, kinds, ["ReTransparent"], "tworun",
                           "two-run replay (same real parts, different derivative parts)",
                           "one case = (concrete type, operation, form); TLC checks ReTransparent (real part of every result = "
                           "the operation on plain rationals) on every transition; the harness replays every behaviour twice "
                           "with identical real parts and different derivative parts: real parts must agree bit for bit, "
                           "predicates and comparisons must agree, and both must equal the model; Transparent.tla proves on "
                           "symbolic derivative parts that no part can occur in a real part and exports the operation table "
                           "swept over random and special floats (NaN / infinite / absent parts, plain-float instances)",
                           extra_jobs=[transparent_run] + [lambda k=k, n=n, m=m, i=i: machine_run(k, n, m, "AllOps", depth=3, mant=53, props=False, inner=i,
                                                                                                   loadset="LoadSetNestedQuick", workers=3, tag="_tworun")
                                                           for (k, n, m, i) in NESTED_THOROUGH])
    tp = extra[0]
    # nested types: two-run replay (same innermost real parts, every derivative scalar of both levels changed)
    for res in extra[1:]:
        chk.add_tlc(res, "calculator behaviours of a nested type")
        if res.violated:
            chk.model_violation(res, "MachineN")
            continue
        rep = replay(res, mode="tworun")
        absorb_replay(chk, rep, "two-run replay (nested type)")
    chk.add_tlc(tp, "symbolic operands (constant real part, every derivative scalar an indeterminate): NoPartInRe, ReIsProgram, "
                    "PredOnRe for every type x operation x presence pattern")
    if tp.violated:
        chk.model_violation(tp, "Transparent")
    else:
        rep = run_harness("hcore", ["transparent", tp.out_path, "--seed", str(seed()), "--samples", "20" if tier == "quick" else "400"])
        chk.cov["evaluations"] += rep["evaluations"]
        chk.cov["traces_validated_against_impl"] += rep["transparency_comparisons"]
        for k in ("transparency_comparisons", "plain_comparisons", "predicate_checks", "comparison_checks", "bit_identical_to_std",
                  "same_call_rows_not_bit_identical"):
            chk.cov[k] = rep[k]
        chk.cov["float_sweep_types"] = rep["types"]
        for o in rep["ops"]:
            chk.distinct.add("sweep|" + o)
        report_known(chk, rep, "C06", how="evaluations, one per type, at exactly the listed input with exactly the listed result")
        for v in rep["violations"]:
            chk.violation("%s: %s %s" % (v.get("what"), v.get("key"), v.get("op")), {"kind": "transparent-case", **v})
        if rep["types"] < 45 or len(rep["ops"]) < 40 or rep["plain_comparisons"] < 20000:
            raise ToolError("vacuity: transparency sweep covered %d types, %d operations" % (rep["types"], len(rep["ops"])))
    # min / max / clamp / copysign / abs / sign predicates of the four field types take the branch of the float evaluation,
    # also at +0.0 / -0.0 real parts and ties (the field harness of C11, judged here on the decision methods)
    fr = field_run("field_c06")
    chk.add_tlc(fr, "selection methods return an operand as a whole (Field.tla)")
    if fr.violated:
        chk.model_violation(fr, "Field")
    else:
        frep = run_harness("hcore", ["field", fr.out_path, "--seed", str(seed()), "--samples", "4" if tier == "quick" else "200"], timeout=3000)
        decisions = ("|max", "|min", "|clamp", "|copysign", "|abs", "|modulus", "|norm1", "|is_sign_positive", "|is_sign_negative", "|is_finite")
        n = 0
        for k, cnt in frep["per_case"].items():
            if any(d in k for d in decisions):
                chk.distinct.add("field" + k[k.index("|"):] if False else "field|" + k)
                n += cnt
        chk.cov["evaluations"] += n
        chk.cov["field_decision_checks"] = n
        for v in frep["violations"]:
            if any(d in str(v.get("case", "")) for d in decisions):
                chk.violation("decision method of a field type: %s" % json.dumps(v)[:500], {"kind": "field-case", **v})
        if n < 200:
            raise ToolError("vacuity: %d decision-method checks" % n)
    return chk.finish(extra={"exhaustive": True})
