"""C06 -- the real part is transparent and alone decides comparisons and branches."""
from .common import *
from .machine import *

OPS = ["add", "sub", "mul", "div", "add_f", "mul_f", "neg", "abs", "signum", "inv", "sqrt", "exp", "sin", "ln",
       "powi", "powf", "mul_add", "abs_sub", "sum", "product", "is_zero", "is_one", "is_positive", "is_negative", "re"]


def run(tier):
    kinds = KINDS_QUICK if tier == "quick" else KINDS_THOROUGH
    chk, _ = machine_check("C06", tier, "AllOps", OPS, kinds, ["ReTransparent"], "tworun",
                           "two-run replay (same real parts, different derivative parts)",
                           "one case = (concrete type, operation, form); TLC checks ReTransparent (real part of every result = "
                           "the operation on plain rationals) on every transition; the harness replays every behaviour twice "
                           "with identical real parts and different derivative parts: real parts must agree bit for bit, "
                           "predicates and comparisons must agree, and both must equal the model")
    return chk.finish(extra={"exhaustive": True})
