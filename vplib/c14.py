"""C14 -- cylindrical Bessel functions J0, J1, J2 are accurate with derivatives everywhere."""
from .common import *
from .floatlib import *
from .special import *


def run(tier):
    chk = Check("C14", tier, "exploration")
    build_harness("hcore")
    sp, tw, tb = parallel([special_run, towers_run, tables_run], max_par=3)
    chk.add_tlc(sp, "J_n series from Bessel's ODE; the small-argument branches of bessel_j0/bessel_j2 through 4th order at 0")
    chk.add_tlc(tw, "towers of J0, J1, J2 = 2 J1/x - J0 from D j0 = -j1, D j1 = j0 - j1/x")
    chk.add_tlc(tb, "layer-A tables")
    for r, nm in ((sp, "Special"), (tw, "Towers"), (tb, "Tables")):
        if r.violated:
            chk.model_violation(r, nm)
    if chk.violations:
        return chk.finish()
    rep = sweep(chk, "bessel", [tb.out_path, tw.out_path, sp.out_path], 3 if tier == "quick" else 80)
    chk.cov["bessel_argument_classes"] = rep.get("bessel_classes", [])
    if len(rep.get("bessel_classes", [])) < 11:
        raise ToolError("vacuity: the argument classes of Special.tla (BesselClasses) were not all swept: %d" % len(rep.get("bessel_classes", [])))
    report_known(chk, rep, "C14")
    par = run_harness("hcore", ["bessel-parity", "--seed", str(seed()), "--samples", "300" if tier == "quick" else "20000"])
    chk.cov["evaluations"] += par["evaluations"]
    chk.cov["parity_and_relation_checks"] = par["evaluations"]
    for v in par["violations"]:
        chk.violation("bessel parity/relations: %s" % json.dumps(v)[:400], {"kind": "float-case", **v})
    if rep["distinct_cases"] < 75:
        raise ToolError("vacuity: %d (type, function) cases" % rep["distinct_cases"])
    chk.cov["explanation"] = ("values: TLC-derived ascending series for |x| <= 10 (abs. error <= 2e-13), the crate's own scalar "
                              "values beyond (only the derivative structure is then checked, plus ODE residual and cross "
                              "relations); tolerances per derivative order calibrated as 8 x the worst error on the repaired tree")
    return chk.finish(rule="one case = (f64 type incl. nested to 4th order, function); 65 arguments in [-60, 60]: 0, denormals, +-1e-5 and "
                           "+-5 with neighbours, zeros, large; derivative parts vs Faa di Bruno over the tower in (j0, j1, 1/x)")
