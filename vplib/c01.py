"""C01 -- elementary functions carry exact derivatives on every dual number type."""
from .common import *
from .machine import *
from .floatlib import *
from .c02 import refine_run

K_TOL = 256      # 8 x the worst ratio err / (u * sum|terms|) observed over 2.1e6 evaluations (27.9)
ELEM_OPS = ["recip", "sqrt", "exp", "exp_m1", "sin", "cos", "sinh", "cosh", "asin", "atan", "asinh", "atanh", "ln_1p",
            "ln", "abs", "signum"]   # (tan, tanh, atan2 are exact only on the low-order types: float sweep)


def run(tier):
    chk = Check("C01", tier, "model_checking")
    build_harness("hcore")
    kinds = KINDS_QUICK if tier == "quick" else KINDS_THOROUGH
    jobs = [lambda: refine_run(tier, "refine_c01"), towers_run, tables_run]
    for (k, n, m) in kinds:
        jobs.append(lambda k=k, n=n, m=m: machine_run(k, n, m, "OpsElem", depth=3, mant=53, props=False,
                                                      loadset="LoadSetQuick" if tier == "quick" else "LoadSetGeneric"))
    nfirst = len(jobs)
    # nested types: the chain rule of the outer level runs on towers that are themselves dual numbers
    for (k, n, m, inner) in NESTED_THOROUGH:
        jobs.append(lambda k=k, n=n, m=m, inner=inner: machine_run(k, n, m, "OpsElem", depth=3, mant=53, props=False, inner=inner,
                                                                   loadset="LoadSetNested", workers=3, tag="_elem"))
    res = parallel(jobs, max_par=5)
    nested_res, res = res[nfirst:], res[:nfirst]
    ref, tw, tb = res[0], res[1], res[2]
    chk.add_tlc(ref, "chain rule of every type = Faa di Bruno over slot partitions (symbolic, all presence patterns)")
    chk.add_tlc(tw, "closed forms f0..f3 of derivatives.rs = towers derived by TLC from the derivation on generators, at rational points of every variety; composites tan/tanh/sph_j*")
    chk.add_tlc(tb, "export of layer-A tables (product, quotient, chain) for all type descriptors incl. nested")
    for r, nm in ((ref, "Refine"), (tw, "Towers"), (tb, "Tables")):
        if r.violated:
            chk.model_violation(r, nm)
    if chk.violations:
        return chk.finish()
    for r in res[3:]:
        chk.add_tlc(r, "exact chain-rule probes at points with rational towers")
        rep = replay(r)
        absorb_replay(chk, rep, "exact probe")
    require_cases(chk, chk.distinct, kinds, ELEM_OPS, mants=(53,), what="C01 exact probes")
    nested_fns = set()
    for r in nested_res:
        chk.add_tlc(r, "exact chain-rule probes on a nested type (layer B instantiated over layer B)")
        if r.violated:
            chk.model_violation(r, "MachineN")
            continue
        rep = replay(r)
        absorb_replay(chk, rep, "exact probe (nested type)")
        nested_fns |= {c.split("|")[1] for c in rep["per_case"]}
    for fn in ("sin", "cos", "exp", "ln", "atan", "asinh", "tanh", "exp_m1", "ln_1p", "atanh", "asin", "sinh", "cosh"):
        if fn not in nested_fns:
            raise ToolError("vacuity: nested types never exercised %s exactly" % fn)
    samples = 25 if tier == "quick" else 2500
    rep = run_harness("hcore", ["float-elem", "--tables", tb.out_path + "," + tw.out_path, "--samples", str(samples),
                                "--seed", str(seed()), "--k", str(K_TOL)], timeout=3000)
    absorb_float(chk, rep, "elementary function vs Faa di Bruno over the exported tower")
    chk.cov["float_parts_compared"] = rep["parts_compared"]
    chk.cov["worst_error_over_u_times_sum_of_terms"] = rep["worst_ratio"]
    chk.cov["tolerance_K"] = K_TOL
    if rep["distinct_cases"] < 900:
        raise ToolError("vacuity: only %d (type, function) cases in the float sweep" % rep["distinct_cases"])
    # the two-argument arctangent (the property names it): quadrants, next to each half axis, on the half axes
    rep2 = run_harness("hcore", ["float-pow", "--what", "atan2", "--tables", tb.out_path + "," + tw.out_path, "--samples",
                                 "4" if tier == "quick" else "200", "--seed", str(seed()), "--k", str(K_TOL)], timeout=3000)
    absorb_float(chk, rep2, "atan2 over the quadrants, next to and on the half axes")
    chk.cov["atan2_cases"] = rep2["distinct_cases"]
    if rep2["distinct_cases"] < 500:
        raise ToolError("vacuity: only %d (type, atan2 region) cases" % rep2["distinct_cases"])
    return chk.finish(rule="one case = (concrete type incl. f32/dynamic/nested, function); per case random real parts over the "
                           "function's domain minus a margin (both signs, all branches) and random, zero or absent derivative "
                           "parts; expected part = exported Faa di Bruno polynomial over the exported tower, tolerance "
                           "K*u*sum|terms|; atan2 over the four quadrants, next to each half axis (ratio 1e-9 .. 1e-2) and on the half axes; "
                           "plus bit-exact probes at points with rational towers")
