"""C09 -- power functions are correct for every exponent."""
from .common import *
from .machine import *
from .floatlib import *
from .c02 import refine_run

K_TOL = 64


def power_run():
    return run_tlc("Power.tla", cfg(invariants=["NoI32Overflow"]), "power_i32", workers=4, timeout=600)


def apalache_power():
    """Power.tla's statement for EVERY integer exponent (SMT, unbounded): a companion run; TLC remains the verdict"""
    d = os.path.join(WORK, "apalache_power")
    shutil.rmtree(d, ignore_errors=True)
    os.makedirs(d, exist_ok=True)
    t0 = time.time()
    try:
        p = subprocess.run(["timeout", "600", "apalache-mc", "check", "--init=Init", "--next=Next", "--inv=Inv", "--length=0",
                            "--out-dir=" + os.path.join(d, "out"), os.path.join(SPEC, "PowerA.tla")],
                           cwd=d, stdout=subprocess.PIPE, stderr=subprocess.STDOUT, text=True,
                           env=dict(os.environ, JVM_ARGS="-Xmx2g -Djava.io.tmpdir=" + d))
        out = p.stdout
    except FileNotFoundError:
        return {"status": "unavailable", "wall_s": 0.0, "tail": "apalache-mc not on PATH"}
    status = "ok" if "EXITCODE: OK" in out else ("violation" if "EXITCODE: ERROR (12)" in out else "unavailable")
    return {"status": status, "wall_s": round(time.time() - t0, 1), "tail": out[-600:]}


def run(tier):
    chk = Check("C09", tier, "model_checking")
    build_harness("hcore")
    kinds = KINDS_QUICK if tier == "quick" else KINDS_THOROUGH
    jobs = [power_run, towers_run, tables_run, lambda: refine_run(tier, "refine_c09"), apalache_power]
    for (k, n, m) in kinds:
        jobs.append(lambda k=k, n=n, m=m: machine_run(k, n, m, "OpsPow", depth=3, mant=53, props=False,
                                                      loadset="LoadSetQuick" if tier == "quick" else "LoadSetGeneric"))
    res = parallel(jobs, max_par=5)
    apa = res.pop(4)
    chk.cov["apalache_PowerA"] = {"status": apa["status"], "wall_s": apa["wall_s"],
                                  "what": "n - 1, n - 2, n - 3 stay inside i32 for EVERY integer |n| <= 2^30 (unbounded, SMT)"}
    if apa["status"] == "violation":
        chk.violation("Apalache: the i32 statement of PowerA.tla has a counterexample", {"kind": "apalache", "output_tail": apa["tail"]})
    pw, tw, tb, ref = res[:4]
    chk.add_tlc(pw, "i32 arithmetic of powi over all boundary exponents up to 2^30 (overflow decided by division)")
    chk.add_tlc(tw, "closed forms of powi/powf = generalised binomial tower at rational bases x exponents (cubic in n: > 4 exponents per base)")
    chk.add_tlc(tb, "layer-A tables")
    chk.add_tlc(ref, "powi(n) = repeated multiplication / division, symbolic operands, n in -4..6, all types and presence patterns")
    for r, nm in ((pw, "Power"), (tw, "Towers"), (tb, "Tables"), (ref, "Refine")):
        if r.violated:
            chk.model_violation(r, nm)
    if chk.violations:
        return chk.finish()
    for r in res[4:]:
        chk.add_tlc(r, "exact power behaviours (bases +-2^k, squares)")
        absorb_replay(chk, replay(r), "exact power behaviour")
    require_cases(chk, chk.distinct, kinds, ["powi", "powf", "powd", "recip"], mants=(53,), what="C09 exact")
    rep = run_harness("hcore", ["float-pow", "--tables", tb.out_path + "," + tw.out_path, "--samples",
                                "4" if tier == "quick" else "400", "--seed", str(seed()), "--k", str(K_TOL)], timeout=3000)
    absorb_float(chk, rep, "power vs exported binomial tower / exp(n ln x) reference")
    chk.cov["float_parts_compared"] = rep["parts_compared"]
    chk.cov["worst_error_over_bound"] = rep["worst_ratio"]
    if rep["distinct_cases"] < 2000:
        raise ToolError("vacuity: only %d (type, power case) pairs" % rep["distinct_cases"])
    return chk.finish(rule="one case = (concrete type, power function, exponent class, base class): powi for n in -6..8, large n "
                           "near |x| = 1, the i32 boundaries 1291/1292, 46341/46342, +-2^30 at bases +-1, negative bases; powf for "
                           "0, 1, 2, 2 +- ulp, 2 +- 2 eps, 3, -1, 1/2, pi, -7.3, ...; powd with dual exponents; all compared "
                           "with the same table-driven reference, hence with each other")
