"""C11 -- dual numbers satisfy nalgebra's real-field contract."""
from .common import *


def field_run(name="field"):
    return run_tlc("Field.tla", cfg(invariants=["ConstantsCorrect", "ConstantsConsistent", "SelectsAnOperand", "LanesRoundTrip",
                                                "ExportField"]), name, workers=2, timeout=600)


def run(tier):
    chk = Check("C11", tier, "model_checking")
    build_harness("hcore")
    res = field_run()
    chk.add_tlc(res, "constant table (each RealField constant = the mathematical constant of its name, consistency relations), "
                     "selection methods return an operand as a whole, one-lane SIMD view with the Option case analysis")
    if res.violated:
        chk.model_violation(res, "Field")
        return chk.finish()
    rep = run_harness("hcore", ["field", res.out_path, "--seed", str(seed()), "--samples", "4" if tier == "quick" else "400"],
                      timeout=3000)
    chk.cov["traces_validated_against_impl"] = rep["checks"]
    chk.cov["evaluations"] = rep["checks"]
    for k in rep["per_case"]:
        chk.distinct.add(k)
    for s in rep["samples"]:
        chk.sample(s)
    if rep["distinct_cases"] < 1000:
        raise ToolError("vacuity: %d (type, constant/method) cases" % rep["distinct_cases"])
    for v in rep["violations"]:
        chk.violation("field contract: %s" % json.dumps(v)[:500], {"kind": "field-case", **v})
    chk.assumptions.append("try_sqrt at a zero real part returns None where floats return Some(0): the square root is not "
                           "differentiable there; modelled as coded (named deviation, DESIGN.md section 7, F3)")
    return chk.finish(rule="one case = (concrete field type: Dual, DualVec, Dual2, Dual2Vec x f32/f64 x static/dynamic; constant or "
                           "method from the TLC-exported tables): constants bitwise equal F's constant with zero derivative parts; "
                           "each method bitwise equal to the generic dual operation and within ulps of the float method in the real "
                           "part; selection returns one operand as a whole; lane round trips; panicking methods panic")
