"""C08 -- all syntactic forms of an operation give the same result."""
from .common import *
from .machine import *

OPS = ["add", "sub", "mul", "div", "add_f", "sub_f", "mul_f", "div_f", "neg", "neg_ref", "inv", "recip", "sum",
       "product", "mul_add", "from_f", "zero", "one"]


def forms_run():
    return run_tlc("Forms.tla", cfg(invariants=["TableSane", "ExportForms"]), "forms", workers=1, timeout=300)


def run(tier):
    kinds = KINDS_QUICK if tier == "quick" else KINDS_THOROUGH
    chk, extra = machine_check("C08", tier, "OpsForms", OPS, kinds, ["FormsAgree"], None,
                           "replay of TLC behaviour (form)",
                           "one case = (concrete type, operation, syntactic form); TLC checks FormsAgree (every form equals "
                           "the canonical dual-dual operation with the scalar lifted) on every transition and the harness "
                           "replays every behaviour bit-exactly through the form named in the event",
                           extra_jobs=[forms_run])
    fm = extra[0]
    chk.add_tlc(fm, "table of the 14 FromPrimitive entry points x boundary arguments (+-2^e + o up to 2^128 - 1) and the 16 "
                    "FloatConst constants")
    if fm.violated:
        chk.model_violation(fm, "Forms")
    else:
        rep = run_harness("hcore", ["forms", fm.out_path])
        chk.cov["evaluations"] += rep["checks"]
        chk.cov["conversion_entry_points_per_type"] = rep["entry_points_per_type"]
        chk.cov["conversion_types"] = rep["types"]
        for v in rep["viol"]:
            chk.violation("conversion %s on %s: %s" % (v["entry"], v["key"], v["why"]), {"kind": "conversion", **v})
        if rep["entry_points_per_type"] < 30 or rep["types"] < 40:
            raise ToolError("vacuity: conversion table %s" % rep)
    forms = sorted({c.split("|", 1)[1] for c in chk.distinct})
    chk.cov["forms_exercised"] = forms
    return chk.finish(extra={"exhaustive": True})
