"""C08 -- all syntactic forms of an operation give the same result."""
from .common import *
from .machine import *

OPS = ["add", "sub", "mul", "div", "add_f", "sub_f", "mul_f", "div_f", "neg", "neg_ref", "inv", "recip", "sum",
       "product", "mul_add", "from_f", "zero", "one"]


def run(tier):
    kinds = KINDS_QUICK if tier == "quick" else KINDS_THOROUGH
    chk, _ = machine_check("C08", tier, "OpsForms", OPS, kinds, ["FormsAgree"], None,
                           "replay of TLC behaviour (form)",
                           "one case = (concrete type, operation, syntactic form); TLC checks FormsAgree (every form equals "
                           "the canonical dual-dual operation with the scalar lifted) on every transition and the harness "
                           "replays every behaviour bit-exactly through the form named in the event")
    forms = sorted({c.split("|", 1)[1] for c in chk.distinct})
    chk.cov["forms_exercised"] = forms
    return chk.finish(extra={"exhaustive": True})
