"""C08 -- all syntactic forms of an operation give the same result."""
from .common import *
from .machine import *

OPS = ["add", "sub", "mul", "div", "add_f", "sub_f", "mul_f", "div_f", "neg", "neg_ref", "inv", "recip", "sum",
       "product", "mul_add", "from_f", "zero", "one"]


def nested_forms_run(k, n, m, inner):
    return machine_run(k, n, m, "OpsForms", depth=3, mant=53, props=False, inner=inner, loadset="LoadSetNestedQuick", workers=3,
                       tag="_forms", timeout=1200)


def forms_run():
    return run_tlc("Forms.tla", cfg(invariants=["TableSane", "ExportForms"]), "forms", workers=1, timeout=300)


def run(tier):
    kinds = KINDS_QUICK if tier == "quick" else KINDS_THOROUGH
    chk, extra = machine_check("C08", tier, "OpsForms", OPS, kinds, ["FormsAgree"], None,
                           "replay of TLC behaviour (form)",
                           "one case = (concrete type, operation, syntactic form); TLC checks FormsAgree (every form equals "
                           "the canonical dual-dual operation with the scalar lifted) on every transition and the harness "
                           "replays every behaviour bit-exactly through the form named in the event",
                           extra_jobs=[forms_run] + [lambda k=k, n=n, m=m, i=i: nested_forms_run(k, n, m, i) for (k, n, m, i) in NESTED_THOROUGH])
    fm = extra[0]
    # the forms on nested types: the scalar-operand forms multiply a T-valued part by an F scalar
    nforms = set()
    for res in extra[1:]:
        chk.add_tlc(res, "calculator behaviours of a nested type (forms)")
        if res.violated:
            chk.model_violation(res, "MachineN")
            continue
        rep = replay(res)
        absorb_replay(chk, rep, "replay of TLC behaviour (form, nested type)")
        nforms |= {c.split("|", 1)[1] for c in rep["per_case"]}
    for need in ("mul_f|op", "div_f|assign", "add_f|op", "sum|owned", "product|ref", "mul|assign", "from_f|"):
        if need not in nforms:
            raise ToolError("vacuity: nested types never exercised the form %s" % need)
    chk.add_tlc(fm, "table of the 14 FromPrimitive entry points x boundary arguments (+-2^e + o up to 2^128 - 1) and the 16 "
                    "FloatConst constants")
    if fm.violated:
        chk.model_violation(fm, "Forms")
    else:
        rep = run_harness("hcore", ["forms", fm.out_path])
        chk.cov["evaluations"] += rep["checks"]
        chk.cov["conversion_entry_points_per_type"] = rep["entry_points_per_type"]
        chk.cov["conversion_types"] = rep["types"]
        for v in rep["viol"]:
            chk.violation("conversion %s on %s: %s" % (v["entry"], v["key"], v["why"]), {"kind": "conversion", **v})
        if rep["entry_points_per_type"] < 30 or rep["types"] < 40:
            raise ToolError("vacuity: conversion table %s" % rep)
    forms = sorted({c.split("|", 1)[1] for c in chk.distinct})
    chk.cov["forms_exercised"] = forms
    return chk.finish(extra={"exhaustive": True})
