"""C13 -- subset/superset conversions are lossless, coherent and memory-safe."""
from .common import *


def convert_run(rule):
    return run_tlc("Convert.tla", cfg(constants={"MembershipRule": rule},
                                      invariants=["FromSupersetIffInSubset", "NarrowIsRounding", "WidenNarrowId", "LiftIsConstant",
                                                  "CellProtocol"]), "convert_" + rule, workers=4, timeout=900)


def run(tier):
    chk = Check("C13", tier, "model_checking")
    build_harness("hcore")
    r1, r2 = parallel([lambda: convert_run("simba"), lambda: convert_run("representable")], 2)
    for r, nm in ((r1, "simba's membership rule (every f64 is in the f32 subset)"), (r2, "membership = representability")):
        chk.add_tlc(r, "conversion model under " + nm + ": FromSupersetIffInSubset over all presence patterns, WidenNarrowId, "
                       "NarrowIsRounding, LiftIsConstant; MaybeUninit cell protocol of map_borrowed/try_map_borrowed for all "
                       "shapes 0..3 x 0..3 and every failure point")
        if r.violated:
            chk.model_violation(r, "Convert")
    if chk.violations:
        return chk.finish()
    samples = 40 if tier == "quick" else 2000
    rep = run_harness("hcore", ["convert", "--seed", str(seed()), "--samples", str(samples)], timeout=3000)
    chk.cov["traces_validated_against_impl"] = rep["checks"]
    chk.cov["evaluations"] = rep["checks"]
    for k in rep["per_case"]:
        chk.distinct.add(k)
    for s in rep["samples"]:
        chk.sample(s)
    if rep["distinct_cases"] < 160:
        raise ToolError("vacuity: %d (type, conversion) cases" % rep["distinct_cases"])
    for v in rep["violations"]:
        chk.violation("conversion: %s" % json.dumps(v)[:500], {"kind": "convert-case", **v})
    # memory-safety clause: the same conversions under Valgrind memcheck (invalid accesses, uninitialised reads, leaks)
    exe = os.path.join(HARNESS, "target", "debug", "hcore")
    t0 = time.time()
    p = subprocess.run(["valgrind", "--error-exitcode=9", "--leak-check=full", "--errors-for-leak-kinds=definite,indirect", "-q",
                        exe, "convert", "--seed", str(seed()), "--samples", "8" if tier == "quick" else "200"],
                       stdout=subprocess.PIPE, stderr=subprocess.PIPE, text=True, timeout=3000)
    chk.cov["memcheck"] = {"exit": p.returncode, "wall_s": round(time.time() - t0, 1)}
    if p.returncode == 9:
        chk.violation("Valgrind memcheck reports an error in the conversions: %s" % p.stderr[-800:],
                      {"kind": "memcheck", "stderr": p.stderr[-3000:]})
    elif p.returncode != 0:
        raise ToolError("valgrind run failed rc=%d: %s" % (p.returncode, p.stderr[-500:]))
    chk.assumptions.append("memory safety is OBSERVED (memcheck on the generated conversions), and the initialisation protocol is "
                           "model-checked; this is not a proof about the unsafe block")
    return chk.finish(rule="one case = (type pair Dual/Dual2/DualVec/Dual2Vec over f64 -> f32, static dimensions 0,1,2,3,4,6 and dynamic "
                           "0..6, conversion entry point); values with present and absent parts, f32 numbers and non-f32 numbers "
                           "(2^25+1, 2^24+1, 1+2^-30, 0.1); trait methods, to_subset/from_subset, nalgebra::convert / try_convert on "
                           "scalars and on 2x2 matrices of dual numbers")
