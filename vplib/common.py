"""Shared plumbing of the checks: running TLC and the Rust harness, evidence, verdicts."""
import json, os, re, shutil, subprocess, sys, time, hashlib
from concurrent.futures import ThreadPoolExecutor

ROOT = os.path.dirname(os.path.dirname(os.path.abspath(__file__)))
SPEC = os.path.join(ROOT, "spec")
WORK = os.path.join(ROOT, "work")
HARNESS = os.path.join(ROOT, "harness")
EVID = os.path.join(ROOT, "evidence")
REPLAYS = os.path.join(ROOT, "replays")
KNOWN = os.path.join(ROOT, "KNOWN_FINDINGS")


class ToolError(Exception):
    pass


def seed():
    try:
        return int(os.environ.get("VERIF_SEED", "1"))
    except ValueError:
        return 1


def log(*a):
    print(*a, file=sys.stderr, flush=True)


# ---------------------------------------------------------------- TLC
class TlcResult:
    def __init__(self, name, out_path, rc, wall):
        self.name, self.out_path, self.rc, self.wall = name, out_path, rc, wall
        self.generated = self.distinct = self.depth = 0
        self.errors, self.violated, self.coverage = [], [], {}
        self.text = open(out_path, errors="replace").read()
        m = re.findall(r"(\d[\d,]*) states generated, (\d[\d,]*) distinct states found", self.text)
        if m:
            self.generated = int(m[-1][0].replace(",", ""))
            self.distinct = int(m[-1][1].replace(",", ""))
        m = re.search(r"depth of the complete state graph search is (\d+)", self.text)
        if m:
            self.depth = int(m.group(1))
        for l in self.text.splitlines():
            if l.startswith("Error:"):
                self.errors.append(l)
            mm = re.match(r"Error: (Invariant|Action property|Temporal propert\w+) (\S+) (is|was) violated", l)
            if mm:
                self.violated.append(mm.group(2))
            mp = re.match(r"Error: Postcondition (\w+) .* is false", l)
            if mp:
                self.violated.append(mp.group(1))
            mc = re.match(r"<(\w+) line \d+, col \d+ to line \d+, col \d+ of module (\w+)>: (\d+):(\d+)", l)
            if mc:
                self.coverage[mc.group(1)] = self.coverage.get(mc.group(1), 0) + int(mc.group(4))
        self.finished = ("Model checking completed" in self.text) or ("Finished in" in self.text and not self.errors)

    def behaviours(self):
        """lines  <<"TAG", "<json>">>  printed by the spec"""
        for l in self.text.splitlines():
            if l.startswith('<<"') and l.endswith('">>'):
                try:
                    i = l.index('", "')
                    tag = l[3:i]
                    yield tag, json.loads(json.loads(l[i + 3:-2]))
                except Exception:
                    continue


def run_tlc(module, cfg_text, name, workers=4, timeout=900, simulate=None, depth=None, coverage=False,
            env_extra=None, java_opts="-Xss512m", heap=None):
    d = os.path.join(WORK, name)
    shutil.rmtree(d, ignore_errors=True)
    os.makedirs(d, exist_ok=True)
    cfg = os.path.join(d, name + ".cfg")
    open(cfg, "w").write(cfg_text)
    out = os.path.join(d, "out.txt")
    cmd = ["timeout", str(timeout), "java", "-XX:+UseParallelGC", "-XX:ParallelGCThreads=2",
           "-XX:TieredStopAtLevel=4", "-Dfile.encoding=UTF-8", "-Dstdout.encoding=UTF-8",
           "-Djava.io.tmpdir=" + d] + java_opts.split()        # TLC drops a tlc-* directory per run into the tmpdir
    cmd.append("-Xmx" + (heap or "3g"))
    cmd += ["-cp", "/opt/veriftools/tla/tla2tools.jar:/opt/veriftools/tla/CommunityModules-deps.jar", "tlc2.TLC",
            "-workers", str(workers), "-metadir", os.path.join(d, "md"), "-cleanup", "-noGenerateSpecTE",
            "-config", cfg]
    if coverage:
        cmd += ["-coverage", "1"]
    if simulate:
        cmd += ["-simulate", "num=%d" % simulate, "-seed", str(seed())]
        if depth:
            cmd += ["-depth", str(depth)]
    cmd.append(module)
    env = dict(os.environ)
    if env_extra:
        env.update(env_extra)
    t0 = time.time()
    with open(out, "w") as f:
        rc = subprocess.call(cmd, cwd=SPEC, stdout=f, stderr=subprocess.STDOUT, env=env)
    res = TlcResult(name, out, rc, time.time() - t0)
    shutil.rmtree(os.path.join(d, "md"), ignore_errors=True)
    if rc == 124:
        raise ToolError("TLC timed out: %s" % name)
    if "Parsing or semantic analysis failed" in res.text or "***Parse Error***" in res.text:
        raise ToolError("TLC could not parse %s (see %s)" % (module, out))
    if res.errors and not res.violated:
        # an evaluation error / exception inside TLC is a defect of the tooling, never a verdict
        raise ToolError("TLC error in %s: %s (see %s)" % (name, " | ".join(res.errors[:2]), out))
    return res


def parallel(jobs, max_par=4):
    """jobs: list of thunks; returns results in order; re-raises the first exception"""
    with ThreadPoolExecutor(max_workers=max_par) as ex:
        futs = [ex.submit(j) for j in jobs]
        return [f.result() for f in futs]


def cfg(spec="Spec", constants=None, overrides=None, invariants=(), properties=(), view=None, constraint=None,
        postcondition=None):
    lines = ["SPECIFICATION " + spec]
    if constants or overrides:
        lines.append("CONSTANTS")
        for k, v in (constants or {}).items():
            lines.append("    %s = %s" % (k, json.dumps(v) if isinstance(v, str) else v))
        for k, v in (overrides or {}).items():
            lines.append("    %s <- %s" % (k, v))
    for i in invariants:
        lines.append("INVARIANT " + i)
    for p in properties:
        lines.append("PROPERTY " + p)
    if view:
        lines.append("VIEW " + view)
    if constraint:
        lines.append("CONSTRAINT " + constraint)
    if postcondition:
        lines.append("POSTCONDITION " + postcondition)
    lines.append("CHECK_DEADLOCK FALSE")
    return "\n".join(lines) + "\n"


# ---------------------------------------------------------------- Rust harness
_built = set()


def build_harness(pkg="hcore"):
    if pkg in _built:
        return
    t0 = time.time()
    p = subprocess.run(["cargo", "build", "-q", "-p", pkg], cwd=HARNESS, stdout=subprocess.PIPE,
                       stderr=subprocess.STDOUT, text=True,
                       env=dict(os.environ, CARGO_NET_OFFLINE="true"))
    if p.returncode != 0:
        log(p.stdout[-4000:])
        raise ToolError("cargo build of %s failed (does /repo still compile?)" % pkg)
    _built.add(pkg)
    log("[build %s %.1fs]" % (pkg, time.time() - t0))


def run_harness(pkg, args, timeout=1800, stdin=None):
    build_harness(pkg)
    exe = os.path.join(HARNESS, "target", "debug", pkg)
    p = subprocess.run([exe] + args, stdout=subprocess.PIPE, stderr=subprocess.PIPE, text=True, timeout=timeout,
                       input=stdin, env=dict(os.environ, RUST_BACKTRACE="0"))
    if p.returncode != 0:
        raise ToolError("%s %s failed rc=%d: %s" % (pkg, " ".join(args[:3]), p.returncode, p.stderr[-2000:]))
    try:
        return json.loads(p.stdout)
    except Exception as e:
        raise ToolError("%s produced no JSON: %s ... %s" % (pkg, e, p.stdout[:500]))


# ---------------------------------------------------------------- verdicts
class Check:
    """Accumulates what one run of one property's check covered and found."""

    def __init__(self, pid, tier, level):
        self.pid, self.tier, self.level = pid, tier, level
        self.t0 = time.time()
        self.cov = {"states": 0, "transitions": 0, "traces_validated_against_impl": 0, "evaluations": 0,
                    "distinct_nontrivial": 0, "samples": [], "runs": []}
        self.assumptions = []
        self.violations = []       # (description, replay object)
        self.known = []            # strings
        self.distinct = set()

    def add_tlc(self, res, what):
        self.cov["states"] += res.distinct
        self.cov["transitions"] += res.generated
        self.cov["runs"].append({"tlc": res.name, "what": what, "distinct_states": res.distinct,
                                 "states_generated": res.generated, "wall_s": round(res.wall, 1)})

    def model_violation(self, res, what):
        """TLC itself reported a violated invariant / error: the model disagrees with itself"""
        tail = "\n".join(res.text.splitlines()[-60:])
        self.violations.append(("model: %s: %s" % (what, "; ".join(res.errors[:3])),
                                {"kind": "tlc", "run": res.name, "what": what, "errors": res.errors[:5],
                                 "output_tail": tail}))

    def sample(self, s, limit=6):
        if len(self.cov["samples"]) < limit:
            self.cov["samples"].append(s)

    def violation(self, desc, replay):
        self.violations.append((desc, replay))

    def finish(self, extra=None, rule=None):
        os.makedirs(EVID, exist_ok=True)
        os.makedirs(REPLAYS, exist_ok=True)
        cov = self.cov
        cov["distinct_nontrivial"] = max(cov["distinct_nontrivial"], len(self.distinct))
        if rule:
            cov["rule"] = rule
        if extra:
            cov.update(extra)
        if not cov["samples"]:
            cov["samples"] = ["(no sample recorded)"]
        # the keys the evidence schema types as counts must be counts (a string there makes the file invalid)
        for k in ("evaluations", "distinct_nontrivial", "states", "transitions", "traces_validated_against_impl", "obligations",
                  "discharged", "programs", "disagreements_checked"):
            if k in cov and (isinstance(cov[k], bool) or not isinstance(cov[k], int)):
                raise ToolError("evidence: coverage.%s must be an integer, got %r" % (k, cov[k]))
        ev = {"property_id": self.pid, "tier": self.tier, "seed": seed(), "level": self.level, "coverage": cov,
              "assumptions": self.assumptions, "wall_s": round(time.time() - self.t0, 2),
              "violations": len(self.violations), "known_findings": self.known}
        json.dump(ev, open(os.path.join(EVID, self.pid + ".json"), "w"), indent=1, default=str)
        for k in self.known:
            print("KNOWN-FINDING: property=%s %s" % (self.pid, k))
        if self.violations:
            for i, (desc, rep) in enumerate(self.violations[:5]):
                path = os.path.join(REPLAYS, "%s_%s_%d_%d.json" % (self.pid, self.tier, seed(), i))
                rep = dict(rep)
                rep.update({"property": self.pid, "tier": self.tier, "seed": seed(), "description": desc,
                            "how_to_rerun": "./vp replay " + path})
                json.dump(rep, open(path, "w"), indent=1, default=str)
                print("VIOLATION property=%s replay=%s" % (self.pid, path))
                log("  " + desc[:600])
            return 1
        print("OK property=%s tier=%s wall=%.1fs" % (self.pid, self.tier, time.time() - self.t0))
        return 0


def known_findings():
    """committed list; a finding line:  finding: property=C15 key=<key> ...   """
    out = {}
    if os.path.exists(KNOWN):
        for l in open(KNOWN):
            l = l.strip()
            if l.startswith("finding:"):
                kv = dict(x.split("=", 1) for x in l.split()[1:] if "=" in x)
                out.setdefault(kv.get("property"), []).append((kv, l))
    return out


# ---------------------------------------------------------------- TLAPS companion proofs
def run_tlapm(module, name, timeout=900):
    """Check a proof module with tlapm (unbounded companion of a TLC run).  Returns {"status": ok|failed|unavailable, ...};
    the TLC run stays the verdict: `unavailable` is reported in the evidence, `failed` is a tool error of the caller."""
    d = os.path.join(WORK, name)
    shutil.rmtree(d, ignore_errors=True)
    os.makedirs(d, exist_ok=True)
    shutil.copy(os.path.join(SPEC, module), d)
    t0 = time.time()
    try:
        p = subprocess.run(["timeout", str(timeout), "tlapm", "--threads", "6", "--cleanfp", module], cwd=d,
                           stdout=subprocess.PIPE, stderr=subprocess.STDOUT, text=True,
                           env=dict(os.environ, TMPDIR=d))
    except FileNotFoundError:
        return {"status": "unavailable", "wall_s": 0.0, "obligations": 0, "tail": "tlapm not on PATH"}
    out = p.stdout
    m = re.search(r"All (\d+) obligations? proved", out)
    if m:
        return {"status": "ok", "wall_s": round(time.time() - t0, 1), "obligations": int(m.group(1)), "tail": out[-300:]}
    if re.search(r"obligations? failed|unproved obligations|\[ERROR\]", out):
        return {"status": "failed", "wall_s": round(time.time() - t0, 1), "obligations": 0, "tail": out[-1500:]}
    return {"status": "unavailable", "wall_s": round(time.time() - t0, 1), "obligations": 0, "tail": out[-600:]}
