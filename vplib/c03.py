"""C03 -- arbitrary programs of generic operations are differentiated correctly."""
from .common import *
from .machine import *
from .floatlib import *

K_TOL = 64     # the reference's first-order running error bound times K; worst observed ratio 2.9


def run(tier):
    chk = Check("C03", tier, "model_checking")
    build_harness("hcore")
    kinds = KINDS_QUICK if tier == "quick" else KINDS_THOROUGH
    nprog = 150 if tier == "quick" else 3000
    jobs = [towers_run, tables_run,
            lambda: programs_run(1, 6, nprog, "prog_1_6"), lambda: programs_run(2, 10, nprog, "prog_2_10"),
            lambda: programs_run(3, 16, nprog, "prog_3_16")]
    # deep exact behaviours of the calculator (simulation), replayed bit-exactly
    for (k, n, m) in kinds:
        jobs.append(lambda k=k, n=n, m=m: machine_run(k, n, m, "AllOps", depth=14, mode="sim", mant=53, nr=3, props=False,
                                                      simulate=60 if tier == "quick" else 1500, tag="_sim", workers=1))
    # ... and of the nested types (the calculator instantiated over an inner dual level)
    for (k, n, m, inner) in NESTED_THOROUGH:
        jobs.append(lambda k=k, n=n, m=m, inner=inner: machine_run(k, n, m, "AllOps", depth=14, mode="sim", mant=53, nr=3, props=False, inner=inner,
                                                                   simulate=60 if tier == "quick" else 1500, tag="_sim", workers=1))
    res = parallel(jobs, max_par=6)
    tw, tb = res[0], res[1]
    chk.add_tlc(tw, "towers (closed forms = derivation on generators)")
    chk.add_tlc(tb, "layer-A tables for all type descriptors")
    for r, nm in ((tw, "Towers"), (tb, "Tables")):
        if r.violated:
            chk.model_violation(r, nm)
    if chk.violations:
        return chk.finish()
    nops = set()
    for pr in res[2:5]:
        chk.add_tlc(pr, "program skeletons (expression DAGs) sampled from Programs.tla; invariant WellFormed, property StepIsGrow")
        if pr.violated:
            chk.model_violation(pr, "Programs")
            continue
        rep = run_harness("hcore", ["float-prog", "--tables", tb.out_path + "," + tw.out_path, "--programs", pr.out_path,
                                    "--seed", str(seed()), "--k", str(K_TOL), "--per-prog", "4" if tier == "quick" else "12"],
                          timeout=3000)
        absorb_float(chk, rep, "program vs table-driven reference interpreter", key_cases="per_type")
        chk.cov.setdefault("program_nodes_compared", 0)
        chk.cov["program_nodes_compared"] += rep["nodes_compared"]
        chk.cov.setdefault("programs", 0)
        chk.cov["programs"] += rep["programs"]
        chk.cov["worst_error_over_bound"] = max(chk.cov.get("worst_error_over_bound", 0), rep["worst_ratio"])
        nops |= set(rep["ops"])
        for o in rep["ops"]:
            chk.distinct.add("op|" + o)
    if len(nops) < 38:
        raise ToolError("vacuity: only %d distinct operations occurred in accepted programs" % len(nops))
    for r in res[5:]:
        chk.add_tlc(r, "calculator behaviours of depth 14 (simulation)")
        rep = replay(r)
        absorb_replay(chk, rep, "deep exact behaviour")
    trace_check(chk, kinds, 1500 if tier == "quick" else 20000, "C03 trace validation", seed_off=3)
    trace_check(chk, NESTED_THOROUGH, 1500 if tier == "quick" else 20000, "trace validation (nested types)", seed_off=7)
    return chk.finish(rule="programs: expression DAGs with sharing/constants over 42 operations drawn by TLC (Programs.tla), "
                           "evaluated by the real crate on every concrete type (f32/f64, static/dynamic, nested) and by the "
                           "reference interpreter that applies only TLC-exported polynomials while propagating a first-order "
                           "running error bound; every node of every program is compared in every part; plus exact deep "
                           "behaviours and validated traces")
