"""C15 -- spherical Bessel functions j0, j1, j2 are correct for every real argument."""
from .common import *
from .floatlib import *
from .special import *


def run(tier):
    chk = Check("C15", tier, "model_checking")
    build_harness("hcore")
    sp, tw, tb = parallel([special_run, towers_run, tables_run], max_par=3)
    chk.add_tlc(sp, "series at 0 derived from y''=-y, B small-argument branches through 4th order (nested Dual2<Dual2>), FiniteWhereSmooth")
    chk.add_tlc(tw, "closed forms of sph_j0/1/2 as B-programs = towers of sin r, (sin - x cos) r^2, ... at positive AND negative rational points (branch |re| < eps)")
    chk.add_tlc(tb, "layer-A tables")
    for r, nm in ((sp, "Special"), (tw, "Towers"), (tb, "Tables")):
        if r.violated:
            chk.model_violation(r, nm)
    if chk.violations:
        return chk.finish()
    rep = sweep(chk, "sph", [tb.out_path, tw.out_path, sp.out_path], 2 if tier == "quick" else 60)
    chk.cov["plain_float_points"] = rep["plain_float_points"]
    report_known(chk, rep, "C15")
    if rep["distinct_cases"] < 120:
        raise ToolError("vacuity: %d (type, function) cases" % rep["distinct_cases"])
    return chk.finish(rule="one case = (type incl. plain f32/f64, nested, dynamic; function); 77 arguments in [-50, 50]: 0, denormals, both sides of "
                           "+-eps, 1e-8..1e-1, zeros of the functions; oracle = TLC series (with the remainder bound of CoefDecay) up to 0.3 -- strict below 0.25, with the closed form's own conditioning added between 0.25 and 0.3 so that either algorithm is accepted around the switch -- and TLC closed-form tower above; "
                           "two thresholds: strict K*u*(|true terms|) / cancellation-explained (known finding sph-small-arg only)")
