"""C10 -- smooth special points yield finite, correct derivatives."""
from .common import *
from .floatlib import *
from .special import *


def run(tier):
    chk = Check("C10", tier, "model_checking")
    build_harness("hcore")
    sp, tw, tb = parallel([special_run, towers_run, tables_run], max_par=3)
    chk.add_tlc(sp, "B-formulas over the extended rationals (IEEE rules for 0*inf, 0/0, inf-inf) at every special point x type: "
                    "powi/powf at 0, atan2 on the four half axes, sph/Bessel series, exp_m1, ln_1p; invariant FiniteWhereSmooth")
    chk.add_tlc(tw, "towers")
    chk.add_tlc(tb, "layer-A tables")
    for r, nm in ((sp, "Special"), (tw, "Towers"), (tb, "Tables")):
        if r.violated:
            chk.model_violation(r, nm)
    if chk.violations:
        return chk.finish()
    files = [tb.out_path, tw.out_path, sp.out_path]
    rep = run_harness("hcore", ["float-pow", "--what", "special", "--tables", ",".join(files), "--samples",
                                "2" if tier == "quick" else "40", "--seed", str(seed()), "--k", "64"], timeout=3000)
    absorb_float(chk, rep, "special point vs reference")
    report_known(chk, rep, "C10", how="parts at the listed arguments are exactly 0 where a tiny non-zero value is expected")
    chk.cov["float_parts_compared"] = rep["parts_compared"]
    if rep["distinct_cases"] < 8000:
        raise ToolError("vacuity: %d (type, special point) cases" % rep["distinct_cases"])
    for what in ("sph", "bessel"):
        # (the sweep also visits ordinary arguments; the open finding sph-small-arg concerns eps <= |x| < 1,
        #  which are not special points: it is reported by C15, not here)
        sweep(chk, what, files, 1 if tier == "quick" else 20)
    return chk.finish(rule="one case = (concrete type, function, special point or float neighbour): powi n=0..6 and powf (integer or "
                           "exponent > order) at 0, +-denormal, +-1e-300, +-1e-160; atan2 on and next to the four half axes; "
                           "exp_m1, ln_1p and the odd/even elementary functions at 0 and neighbours; sph/Bessel at 0 through 4th "
                           "order; every part must be finite and equal the reference (a non-finite part can never pass)")
