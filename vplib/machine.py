"""Machine.tla runs (spec -> implementation) and their replay through the real crate."""
from .common import *

KINDS_QUICK = [("Dual", 1, 1), ("DualVec", 2, 1), ("Dual2", 1, 1), ("Dual2Vec", 2, 1), ("Dual3", 1, 1),
               ("HyperDual", 1, 1), ("HyperDualVec", 3, 2), ("HHD", 1, 1)]          # (kind, N, M)
KINDS_THOROUGH = KINDS_QUICK + [("DualVec", 1, 1), ("DualVec", 3, 1), ("Dual2Vec", 1, 1), ("Dual2Vec", 3, 1),
                                ("HyperDualVec", 1, 1), ("HyperDualVec", 2, 1), ("HyperDualVec", 1, 2),
                                ("HyperDualVec", 2, 2)]


def tla_set(items):
    return "{" + ", ".join('"%s"' % i for i in sorted(items)) + "}"


def machine_cfg(kind, n, m, depth, mode, ops_def, mant=53, nr=2, props=True, loadset="LoadSetGeneric"):
    if isinstance(props, (list, tuple)):
        plist = list(props)
    else:
        plist = ["ReTransparent", "AbsentIsZero"] if props else []
    return cfg(constants={"Kind": kind, "N": n, "M": m, "NR": nr, "Depth": depth, "Mode": mode, "Mant": mant},
               overrides={"LoadSet": loadset, "ReGrid": "ReGridSmall", "PartGrid": "PartGridSmall",
                          "ScalarGrid": "ScalarGridSmall", "PowSet": "PowSetSmall", "OpFilter": ops_def},
               invariants=["Emit"], properties=plist,
               view="View")


def machine_run(kind, n, m, ops_def, depth=3, mode="bfs", mant=53, nr=2, workers=3, simulate=None, tag="",
                timeout=900, props=True, loadset="LoadSetGeneric"):
    name = "mach_%s_%d_%d_%s_%d%s" % (kind, n, m, mode, mant, tag)
    return run_tlc("Machine.tla", machine_cfg(kind, n, m, depth, mode, ops_def, mant, nr, props, loadset), name,
                   workers=workers, simulate=simulate, depth=(depth + 1 if simulate else None), timeout=timeout)


def replay(res, ops=None, types=None, mode=None):
    args = ["replay", res.out_path]
    if mode:
        args += ["--mode", mode]
    if ops:
        args += ["--ops", ",".join(ops)]
    if types:
        args += ["--types", types]
    return run_harness("hcore", args)


def absorb_replay(chk, rep, what):
    """fold a replay report into the check: counts, distinct cases, violations"""
    chk.cov["traces_validated_against_impl"] += rep["behaviours"]
    chk.cov["evaluations"] += rep["compared"]
    for case in rep["per_case"]:
        chk.distinct.add(case)
    for s in rep.get("samples", []):
        chk.sample(s)
    chk.cov.setdefault("spec_drift_events", 0)
    chk.cov["spec_drift_events"] += rep["drift"]
    for mm in rep["mismatches"]:
        if "tool_error" in mm:
            raise ToolError("harness: %s" % mm["tool_error"])
        chk.violation("%s: %s %s on %s: expected %s observed %s" % (
            what, mm["event"]["op"], mm["event"].get("form", ""), mm["type"], json.dumps(mm["expected"])[:300],
            json.dumps(mm["observed"])[:300]),
            {"kind": "behaviour", "what": what, "type": mm["type"], "step": mm["step"], "event": mm["event"],
             "expected": mm["expected"], "observed": mm["observed"], "behaviour": mm["behaviour"]})
    if rep["n_mismatch"] > len(rep["mismatches"]):
        chk.cov["further_mismatches_not_listed"] = rep["n_mismatch"] - len(rep["mismatches"])


def require_cases(chk, rep_cases, kinds, ops, mants=(53, 24), what=""):
    """vacuity guard: every (concrete type, op) pair that the configuration is meant to
    exercise must actually have been replayed; otherwise the run is a tool error"""
    import subprocess as sp
    missing = []
    keys = run_harness("hcore", ["keysfor", json.dumps([{"k": k, "n": n, "m": m} for (k, n, m) in kinds]),
                                 json.dumps(list(mants))])
    for key in keys:
        for op in ops:
            if op == "load":
                continue
            if not any(c.startswith(key + "|" + op + "|") for c in rep_cases):
                missing.append(key + "|" + op)
    if missing:
        raise ToolError("vacuity: never exercised %s: %s" % (what, ", ".join(missing[:12])))


def machine_check(pid, tier, ops_def, ops_list, kinds, props, replay_mode, what, rule, mants=(53, 24), depth=3,
                  extra_jobs=(), sim=None):
    loadset = "LoadSetQuick" if tier == "quick" else "LoadSetGeneric"
    """the common shape of the calculator-based checks: TLC explores the machine for every
    kind (checking the model-level action properties), every behaviour is replayed"""
    chk = Check(pid, tier, "model_checking")
    build_harness("hcore")
    jobs = list(extra_jobs)
    nextra = len(jobs)
    for (k, n, m) in kinds:
        for mant in mants:
            jobs.append(lambda k=k, n=n, m=m, mant=mant: machine_run(k, n, m, ops_def, depth=depth, mant=mant,
                                                                     props=props, loadset=loadset))
    if sim:
        for (k, n, m) in kinds:
            jobs.append(lambda k=k, n=n, m=m: machine_run(k, n, m, ops_def, depth=sim[1], mode="sim", mant=53, nr=3,
                                                           props=props, simulate=sim[0], tag="_sim", workers=1))
    results = parallel(jobs, max_par=5)
    for res in results[nextra:]:
        chk.add_tlc(res, "calculator behaviours over exact rationals; action properties " + ",".join(props or []))
        if res.violated:
            chk.model_violation(res, "Machine")
            continue
        rep = replay(res, mode=replay_mode)
        absorb_replay(chk, rep, what)
    require_cases(chk, chk.distinct, kinds, ops_list, mants=mants, what=pid)
    return chk, results[:nextra]
