"""Machine.tla runs (spec -> implementation) and their replay through the real crate."""
from .common import *

KINDS_QUICK = [("Dual", 1, 1), ("DualVec", 2, 1), ("Dual2", 1, 1), ("Dual2Vec", 2, 1), ("Dual3", 1, 1),
               ("HyperDual", 1, 1), ("HyperDualVec", 3, 2), ("HHD", 1, 1)]          # (kind, N, M)
KINDS_THOROUGH = KINDS_QUICK + [("DualVec", 1, 1), ("DualVec", 3, 1), ("Dual2Vec", 1, 1), ("Dual2Vec", 3, 1),
                                ("HyperDualVec", 1, 1), ("HyperDualVec", 2, 1), ("HyperDualVec", 1, 2),
                                ("HyperDualVec", 2, 2)]


def tla_set(items):
    return "{" + ", ".join('"%s"' % i for i in sorted(items)) + "}"


def machine_cfg(kind, n, m, depth, mode, ops_def, mant=53, nr=2, props=True):
    return cfg(constants={"Kind": kind, "N": n, "M": m, "NR": nr, "Depth": depth, "Mode": mode, "Mant": mant},
               overrides={"LoadSet": "LoadSetGeneric", "ReGrid": "ReGridSmall", "PartGrid": "PartGridSmall",
                          "ScalarGrid": "ScalarGridSmall", "PowSet": "PowSetSmall", "OpFilter": ops_def},
               invariants=["Emit"], properties=(["ReTransparent", "AbsentIsZero"] if props else []),
               view="View")


def machine_run(kind, n, m, ops_def, depth=3, mode="bfs", mant=53, nr=2, workers=3, simulate=None, tag="",
                timeout=900, props=True):
    name = "mach_%s_%d_%d_%s_%d%s" % (kind, n, m, mode, mant, tag)
    return run_tlc("Machine.tla", machine_cfg(kind, n, m, depth, mode, ops_def, mant, nr, props), name,
                   workers=workers, simulate=simulate, depth=(depth + 1 if simulate else None), timeout=timeout)


def replay(res, ops=None, types=None):
    args = ["replay", res.out_path]
    if ops:
        args += ["--ops", ",".join(ops)]
    if types:
        args += ["--types", types]
    return run_harness("hcore", args)


def absorb_replay(chk, rep, what):
    """fold a replay report into the check: counts, distinct cases, violations"""
    chk.cov["traces_validated_against_impl"] += rep["behaviours"]
    chk.cov["evaluations"] += rep["compared"]
    for case in rep["per_case"]:
        chk.distinct.add(case)
    for s in rep.get("samples", []):
        chk.sample(s)
    chk.cov.setdefault("spec_drift_events", 0)
    chk.cov["spec_drift_events"] += rep["drift"]
    for mm in rep["mismatches"]:
        if "tool_error" in mm:
            raise ToolError("harness: %s" % mm["tool_error"])
        chk.violation("%s: %s %s on %s: expected %s observed %s" % (
            what, mm["event"]["op"], mm["event"].get("form", ""), mm["type"], json.dumps(mm["expected"])[:300],
            json.dumps(mm["observed"])[:300]),
            {"kind": "behaviour", "what": what, "type": mm["type"], "step": mm["step"], "event": mm["event"],
             "expected": mm["expected"], "observed": mm["observed"], "behaviour": mm["behaviour"]})
    if rep["n_mismatch"] > len(rep["mismatches"]):
        chk.cov["further_mismatches_not_listed"] = rep["n_mismatch"] - len(rep["mismatches"])
