"""Machine.tla runs (spec -> implementation) and their replay through the real crate."""
from .common import *

KINDS_QUICK = [("Dual", 1, 1), ("DualVec", 2, 1), ("Dual2", 1, 1), ("Dual2Vec", 2, 1), ("Dual3", 1, 1),
               ("HyperDual", 1, 1), ("HyperDualVec", 3, 2), ("HHD", 1, 1)]          # (kind, N, M)
KINDS_THOROUGH = KINDS_QUICK + [("DualVec", 1, 1), ("DualVec", 3, 1), ("Dual2Vec", 1, 1), ("Dual2Vec", 3, 1),
                                ("HyperDualVec", 1, 1), ("HyperDualVec", 2, 1), ("HyperDualVec", 1, 2),
                                ("HyperDualVec", 2, 2)]


# nested types: (outer kind, N, M, inner kind) -- the outer level is instantiated over the inner one (Calc.tla, Inner)
NESTED_QUICK = [("Dual2", 1, 1, "Dual")]
NESTED_THOROUGH = NESTED_QUICK + [("Dual", 1, 1, "Dual"), ("Dual3", 1, 1, "Dual"), ("HyperDual", 1, 1, "Dual"), ("Dual", 1, 1, "Dual2"),
                                  ("Dual2", 1, 1, "Dual2"), ("HHD", 1, 1, "Dual"), ("DualVec", 2, 1, "Dual"),
                                  ("Dual2Vec", 2, 1, "Dual")]


def tla_set(items):
    return "{" + ", ".join('"%s"' % i for i in sorted(items)) + "}"


INNER = {None: "InnerF", "Dual": "InnerDual", "Dual2": "InnerDual2", "Dual3": "InnerDual3", "HyperDual": "InnerHyperDual"}


def machine_cfg(kind, n, m, depth, mode, ops_def, mant=53, nr=2, props=True, loadset="LoadSetGeneric", inner=None):
    if isinstance(props, (list, tuple)):
        plist = list(props)
    else:
        plist = ["ReTransparent", "AbsentIsZero"] if props else []
    return cfg(spec=("SpecSim" if mode == "sim" else "Spec"), constants={"Kind": kind, "N": n, "M": m, "NR": nr, "Depth": depth, "Mode": mode, "Mant": mant},
               overrides={**({"Inner": INNER[inner]} if inner else {}), "LoadSet": loadset, "ReGrid": "ReGridSmall", "PartGrid": "PartGridSmall",
                          "ScalarGrid": "ScalarGridSmall", "PowSet": "PowSetSmall", "OpFilter": ops_def},
               invariants=["Emit"], properties=plist,
               view="View")


def machine_run(kind, n, m, ops_def, depth=3, mode="bfs", mant=53, nr=2, workers=3, simulate=None, tag="",
                timeout=900, props=True, loadset="LoadSetGeneric", inner=None):
    name = "mach_%s%s_%d_%d_%s_%d%s" % (kind, "_in_" + inner if inner else "", n, m, mode, mant, tag)
    # nested types: MachineN.tla / CalcN.tla are generated from Machine.tla / Calc.tla (tools/gen_nested.py)
    return run_tlc("MachineN.tla" if inner else "Machine.tla", machine_cfg(kind, n, m, depth, mode, ops_def, mant, nr, props, loadset, inner), name,
                   workers=workers, simulate=simulate, depth=(depth + 1 if simulate else None), timeout=timeout)


def replay(res, ops=None, types=None, mode=None):
    args = ["replay", res.out_path]
    if mode:
        args += ["--mode", mode]
    if ops:
        args += ["--ops", ",".join(ops)]
    if types:
        args += ["--types", types]
    return run_harness("hcore", args)


def absorb_replay(chk, rep, what):
    """fold a replay report into the check: counts, distinct cases, violations"""
    chk.cov["traces_validated_against_impl"] += rep["behaviours"]
    chk.cov["evaluations"] += rep["compared"]
    for case in rep["per_case"]:
        chk.distinct.add(case)
    for s in rep.get("samples", []):
        chk.sample(s)
    chk.cov.setdefault("spec_drift_events", 0)
    chk.cov["spec_drift_events"] += rep["drift"]
    for mm in rep["mismatches"]:
        if "tool_error" in mm:
            raise ToolError("harness: %s" % mm["tool_error"])
        chk.violation("%s: %s %s on %s: expected %s observed %s" % (
            what, mm["event"]["op"], mm["event"].get("form", ""), mm["type"], json.dumps(mm["expected"])[:300],
            json.dumps(mm["observed"])[:300]),
            {"kind": "behaviour", "what": what, "type": mm["type"], "step": mm["step"], "event": mm["event"],
             "expected": mm["expected"], "observed": mm["observed"], "behaviour": mm["behaviour"]})
    if rep["n_mismatch"] > len(rep["mismatches"]):
        chk.cov["further_mismatches_not_listed"] = rep["n_mismatch"] - len(rep["mismatches"])


def require_cases(chk, rep_cases, kinds, ops, mants=(53, 24), what=""):
    """vacuity guard: every (concrete type, op) pair that the configuration is meant to
    exercise must actually have been replayed; otherwise the run is a tool error"""
    import subprocess as sp
    missing = []
    keys = run_harness("hcore", ["keysfor", json.dumps([{"k": k, "n": n, "m": m} for (k, n, m) in kinds]),
                                 json.dumps(list(mants))])
    for key in keys:
        for op in ops:
            if op == "load":
                continue
            if not any(c.startswith(key + "|" + op + "|") for c in rep_cases):
                missing.append(key + "|" + op)
    if missing:
        raise ToolError("vacuity: never exercised %s: %s" % (what, ", ".join(missing[:12])))


def machine_check(pid, tier, ops_def, ops_list, kinds, props, replay_mode, what, rule, mants=(53, 24), depth=3,
                  extra_jobs=(), sim=None, traces=None):
    loadset = "LoadSetQuick" if tier == "quick" else "LoadSetGeneric"
    """the common shape of the calculator-based checks: TLC explores the machine for every
    kind (checking the model-level action properties), every behaviour is replayed"""
    chk = Check(pid, tier, "model_checking")
    build_harness("hcore")
    jobs = list(extra_jobs)
    nextra = len(jobs)
    for (k, n, m) in kinds:
        for mant in mants:
            jobs.append(lambda k=k, n=n, m=m, mant=mant: machine_run(k, n, m, ops_def, depth=depth, mant=mant,
                                                                     props=props, loadset=loadset))
    if sim:
        for (k, n, m) in kinds:
            jobs.append(lambda k=k, n=n, m=m: machine_run(k, n, m, ops_def, depth=sim[1], mode="sim", mant=53, nr=3,
                                                           props=props, simulate=sim[0], tag="_sim", workers=1))
    results = parallel(jobs, max_par=5)
    for res in results[nextra:]:
        chk.add_tlc(res, "calculator behaviours over exact rationals; action properties " + ",".join(props or []))
        if res.violated:
            chk.model_violation(res, "Machine")
            continue
        rep = replay(res, mode=replay_mode)
        absorb_replay(chk, rep, what)
    require_cases(chk, chk.distinct, kinds, ops_list, mants=mants, what=pid)
    if traces:
        trace_check(chk, traces[0], traces[1], what + " / trace validation")
    return chk, results[:nextra]


# ------------------------------------------------------------------ trace validation (impl -> spec)
KEY_OF = {  # (kind, n, m) -> concrete configurations to record traces from
    ("Dual", 1, 1): ["Dual:f64", "Dual:f32"], ("Dual2", 1, 1): ["Dual2:f64", "Dual2:f32"],
    ("Dual3", 1, 1): ["Dual3:f64", "Dual3:f32"], ("HyperDual", 1, 1): ["HyperDual:f64", "HyperDual:f32"],
    ("HHD", 1, 1): ["HHD:f64", "HHD:f32"],
    ("DualVec", 2, 1): ["DualVec:2:f64", "DualVec:dyn:f64", "DualVec:2:f32"],
    ("DualVec", 3, 1): ["DualVec:3:f64", "DualVec:dyn:f32"], ("DualVec", 1, 1): ["DualVec:1:f64"],
    ("Dual2Vec", 2, 1): ["Dual2Vec:2:f64", "Dual2Vec:dyn:f64", "Dual2Vec:2:f32"],
    ("Dual2Vec", 3, 1): ["Dual2Vec:3:f64", "Dual2Vec:dyn:f32"], ("Dual2Vec", 1, 1): ["Dual2Vec:1:f64"],
    ("HyperDualVec", 3, 2): ["HyperDualVec:2x3:f64", "HyperDualVec:dyn:f64"],
    ("HyperDualVec", 2, 2): ["HyperDualVec:2x2:f64", "HyperDualVec:2x2:f32", "HyperDualVec:dyn:f32"],
    ("HyperDualVec", 1, 1): ["HyperDualVec:1x1:f64"], ("HyperDualVec", 2, 1): ["HyperDualVec:1x2:f64"],
    ("HyperDualVec", 1, 2): ["HyperDualVec:2x1:f64"],
}


def trace_cfg(kind, n, m, nr, mant, inner=None):
    return cfg(constants={"Kind": kind, "N": n, "M": m, "NR": nr, "Mant": mant},
               overrides=({"Inner": INNER[inner]} if inner else None), invariants=["Done"], postcondition="Accepted")


def validate_trace(path, kind, n, m, nr, mant, name, inner=None):
    res = run_tlc("TraceCalcN.tla" if inner else "TraceCalc.tla", trace_cfg(kind, n, m, nr, mant, inner), name, workers=1, timeout=600,
                  env_extra={"TRACE": path}, java_opts="-Xss1g")
    done = [b for t, b in res.behaviours() if t == "TRACE-DONE"]
    rej = [b for t, b in res.behaviours() if t == "TRACE-REJECTED"]
    return res, (done[0] if done else None), (rej[0] if rej else None)


def corrupt_trace(path, out):
    """copy of the trace with the real part of one always-checked event (neg) changed by one
    unit in the numerator; returns the 1-based line number"""
    lines = open(path).read().splitlines()
    cand = [i for i, l in enumerate(lines) if '"op":"neg"' in l]
    if not cand:
        return None
    i = cand[len(cand) // 2]
    e = json.loads(lines[i])
    re = e["post"]["re"]
    while isinstance(re, dict):          # nested types: the innermost real part
        re = re["re"]
    re[0] += re[1]
    lines[i] = json.dumps(e, separators=(",", ":"))
    open(out, "w").write("\n".join(lines) + "\n")
    return i + 1


def trace_check(chk, kinds, events, what, seed_off=0, nr=4):
    """record traces on the real crate, validate them (and a corrupted copy) with TLC"""
    build_harness("hcore")
    jobs = []
    for kind in kinds:
        (k, n, m), inner = kind[:3], (kind[3] if len(kind) > 3 else None)
        # nested types: one f64 configuration, the key spelt like the registry's
        keys = ["%s%s<%s>:f64" % (k, ":%d" % n if k.endswith("Vec") else "", inner)] if inner else KEY_OF.get((k, n, m), [])
        for key in keys:
            def job(k=k, n=n, m=m, key=key, inner=inner):
                d = os.path.join(WORK, "trace_" + key.replace(":", "_"))
                os.makedirs(d, exist_ok=True)
                path = os.path.join(d, "trace.ndjson")
                info = run_harness("hcore", ["emit", "--type", key, "--kind", k, "--n", str(n), "--m", str(m), "--seed",
                                             str(seed() * 1000 + seed_off), "--events", str(events), "--nr", str(nr),
                                             "--out", path] + (["--inner", inner] if inner else []))
                mant = 24 if key.endswith("f32") else 53
                tag = "tv_" + key.replace(":", "_")
                res, done, rej = validate_trace(path, k, n, m, nr, mant, tag, inner)
                bad = path + ".corrupt"
                line = corrupt_trace(path, bad)
                res2, done2, rej2 = validate_trace(bad, k, n, m, nr, mant, tag + "_corrupt", inner) if line else (None, None, None)
                return key, path, info, res, done, rej, line, rej2
            jobs.append(job)
    for key, path, info, res, done, rej, line, rej2 in parallel(jobs, max_par=6):
        chk.add_tlc(res, "validation of a trace recorded from %s" % key)
        if rej is not None or done is None:
            keep = os.path.join(REPLAYS, "trace_%s_%s_%d.ndjson" % (chk.pid, key.replace(":", "_"), seed()))
            os.makedirs(REPLAYS, exist_ok=True)
            shutil.copy(path, keep)
            chk.violation("%s: trace of %s rejected by TraceCalc at line %s: %s" % (
                what, key, rej and rej.get("line"), json.dumps(rej and rej.get("event"))[:600]),
                {"kind": "trace-line", "type": key, "trace": keep, "line": rej and rej.get("line"),
                 "event": rej and rej.get("event"), "tlc_errors": res.errors[:3]})
            continue
        chk.cov["traces_validated_against_impl"] += 1
        chk.cov["evaluations"] += done["checked"]
        chk.cov.setdefault("trace_events_checked", 0)
        chk.cov.setdefault("trace_events_adopted_unchecked", 0)
        chk.cov["trace_events_checked"] += done["checked"]
        chk.cov["trace_events_adopted_unchecked"] += done["adopted"]
        chk.distinct.add("trace|" + key)
        # the binding itself: a corrupted copy must be rejected at exactly the corrupted line
        if line is not None:
            if rej2 is None or rej2.get("line") != line:
                raise ToolError("binding broken: corrupted trace of %s (line %s) was not rejected there (%s)" % (
                    key, line, rej2 and rej2.get("line")))
            chk.cov.setdefault("corrupted_traces_rejected", 0)
            chk.cov["corrupted_traces_rejected"] += 1
