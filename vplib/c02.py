"""C02 -- dual arithmetic is the exact truncated Taylor algebra."""
from .common import *
from .machine import *

OPS = ["load", "add", "sub", "mul", "div", "neg", "neg_ref", "powi", "recip", "inv"]


def refine_run(tier, name="refine"):
    c = {"MaxN": 2, "MaxHM": 2, "MaxHN": 2} if tier == "quick" else {"MaxN": 4, "MaxHM": 3, "MaxHN": 3}
    return run_tlc("Refine.tla", cfg(constants=c, invariants=["Refines"]), name, workers=6,
                   timeout=300 if tier == "quick" else 3000)


def run(tier):
    chk = Check("C02", tier, "model_checking")
    build_harness("hcore")
    kinds = KINDS_QUICK if tier == "quick" else KINDS_THOROUGH
    jobs = [lambda: refine_run(tier)]
    for (k, n, m) in kinds:
        jobs.append(lambda k=k, n=n, m=m: machine_run(k, n, m, "OpsArith", depth=3, mant=53, props=False))
        jobs.append(lambda k=k, n=n, m=m: machine_run(k, n, m, "OpsArith", depth=3, mant=24, props=False))
    nested = NESTED_THOROUGH          # (3-9 s each since the scalar level binds its arguments strictly)
    for (k, n, m, inner) in nested:
        jobs.append(lambda k=k, n=n, m=m, inner=inner: machine_run(k, n, m, "OpsArith", depth=3, mant=53, props=False, inner=inner,
                                                                   loadset="LoadSetNested", workers=3,
                                                                   timeout=1800))
    results = parallel(jobs, max_par=5)
    ref = results[0]
    chk.add_tlc(ref, "B refines A symbolically (Laurent polynomials): mul, div, add, sub, neg, chain, all presence patterns")
    if ref.errors or not ref.finished:
        chk.model_violation(ref, "Refine")
    chk.cov["symbolic_obligations"] = ref.distinct
    for res in results[1:]:
        chk.add_tlc(res, "calculator behaviours (exact rationals)")
        if res.errors:
            chk.model_violation(res, "Machine")
            continue
        rep = replay(res)
        absorb_replay(chk, rep, "replay of TLC behaviour")
    require_cases(chk, chk.distinct, kinds, OPS, what="C02 arithmetic")
    for (k, n, m, inner) in nested:
        key = "%s%s<%s>:f64" % (k, ":%d" % n if k.endswith("Vec") else "", inner)
        need = ("add", "sub", "mul", "neg", "powi") if inner != "Dual" else \
               ("add", "sub", "mul", "div", "neg", "powi") if k in ("Dual3", "HHD") else ("add", "sub", "mul", "div", "neg", "powi", "recip")
        for op in need:
            if not any(c.startswith(key + "|" + op + "|") for c in chk.distinct):
                raise ToolError("vacuity: nested type %s never exercised %s" % (key, op))
    chk.cov["nested_configurations"] = ["%s<%s>" % (k, inner) for (k, n, m, inner) in nested]
    # implementation -> spec: random exact programs recorded on the real crate, validated by TLC
    trace_check(chk, kinds, 1500 if tier == "quick" else 20000, "C02 trace validation")
    trace_check(chk, NESTED_THOROUGH, 1500 if tier == "quick" else 20000, "trace validation (nested types)", seed_off=7)
    return chk.finish(rule="one case = (concrete type, operation, syntactic form) replayed bit-exactly; behaviours are "
                           "load;load;op programs enumerated by TLC over generic operand values (all presence patterns "
                           "of optional parts), expected results computed by the B-model over exact rationals; nested types "
                           "(Dual<Dual64>, Dual2<Dual64>, ...) by the B-model instantiated over itself",
                      extra={"exhaustive": True})
