"""C05 -- derivative driver functions seed, extract and orient results correctly."""
from .common import *


def drivers_run(mode, maxn, maxm, name, caseset="all"):
    return run_tlc("Drivers.tla", cfg(constants={"Mode": mode, "MaxN": maxn, "MaxM": maxm, "CaseSet": caseset},
                                      invariants=["DriversCorrect", "NestedDriversCorrect", "SeedHelpersInv", "Export", "ExportSeeds"]), name, workers=6, timeout=3000)


def run(tier):
    chk = Check("C05", tier, "model_checking")
    build_harness("hcore")
    if tier == "quick":
        sym, num = parallel([lambda: drivers_run("sym", 3, 3, "drivers_sym"), lambda: drivers_run("num", 3, 3, "drivers_num")], 2)
    else:
        sym, num = parallel([lambda: drivers_run("sym", 3, 3, "drivers_sym"), lambda: drivers_run("num", 6, 6, "drivers_num")], 2)
    chk.add_tlc(sym, "B-model of every driver on the generic cubic map R^n -> R^m with SYMBOLIC coefficients and point = formal "
                     "partial differentiation; n in 0..3, m in 1..3, all index triples of third_partial_derivative_vec")
    chk.add_tlc(num, "the same with pairwise distinct integer coefficients: exported cases")
    for r, nm in ((sym, "Drivers(sym)"), (num, "Drivers(num)")):
        if r.violated:
            chk.model_violation(r, nm)
    if chk.violations:
        return chk.finish()
    rep = run_harness("hcore", ["drivers", num.out_path])
    chk.cov["traces_validated_against_impl"] = rep["cases"]
    chk.cov["evaluations"] = rep["calls"]
    for k in rep["per_driver"]:
        chk.distinct.add(k)
    for s in rep["samples"]:
        chk.sample(s)
    names = {k.split(":")[0] for k in rep["per_driver"]}
    need = {"first_derivative", "second_derivative", "third_derivative", "gradient", "jacobian", "hessian", "partial_hessian",
            "second_partial_derivative", "third_partial_derivative", "third_partial_derivative_vec"}
    need |= {"try_" + n for n in need}
    need |= {"seed_helper"}
    if need - names:
        raise ToolError("vacuity: drivers never called: %s" % sorted(need - names))
    for mm in rep["mismatches"]:
        chk.violation("driver %s: observed %s expected %s (case %s)" % (mm["driver"], mm["observed"][:300], mm["expected"][:300],
                                                                         json.dumps(mm["case"].get("case", mm["case"]))),
                      {"kind": "driver-case", **mm})
    return chk.finish(rule="one case = (driver incl. try_ variants and error payloads, float width, static/dynamic storage); the "
                           "closures are cubic polynomial maps with pairwise distinct integer coefficients (asymmetric, m != n), "
                           "points and expected outputs exported by TLC; all comparisons exact", extra={"exhaustive": True})
