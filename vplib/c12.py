"""C12 -- linear algebra over dual numbers differentiates implicitly defined results."""
from .common import *


def lu_run(nn, reset, name, family=None):
    return run_tlc("LinAlg.tla", cfg(constants={"NN": nn}, overrides=dict({"ReSet": reset}, **({"InitMats": family} if family else {})),
                                     invariants=["LUCorrect", "SolveCorrect", "InverseCorrect", "DetCorrect", "FailIffSingularColumn",
                                                 "PermIsPermutation", "SortedAscending", "ExportLU"]),
                   name, workers=7, timeout=3000, coverage=True, heap="6g")


def jacobi_run(nn):
    return run_tlc("Jacobi.tla", cfg(constants={"NN": nn},
                                     invariants=["EigenEquation", "Orthonormal", "Ascending", "HellmannFeynman", "OneRotation", "ExportJacobi"]),
                   "jacobi_%d" % nn, workers=3, timeout=900)      # (no -coverage: it does not terminate on the recursive folds)


def run(tier):
    chk = Check("C12", tier, "model_checking")
    build_harness("hfeat")
    jobs = [lambda: lu_run(2, "ReSetN2", "lu_2"), lambda: lu_run(3, "ReSetN3" if tier == "quick" else "ReSetN3T", "lu_3"),
            lambda: jacobi_run(2), lambda: jacobi_run(3), lambda: jacobi_run(4),
            lambda: lu_run(4, "ReSetN3", "lu_4", family="Family4")]
    runs = parallel(jobs, 6)
    runs = runs[:2] + [runs[5]] + runs[2:5]
    for r in runs[3:]:
        chk.add_tlc(r, "jacobi_eigenvalue as a step machine (Sweep / Rot / Sort) on the rational-rotation family, block at every "
                       "position (p, q): A V = V diag(d), V^T V = I, ascending, Hellmann-Feynman, one rotation")
        if r.violated:
            chk.model_violation(r, "Jacobi")
            continue
        # (EigenEquation cannot hold with V = I on a coupled matrix: a finished run has rotated)
        rep = run_harness("hfeat", ["jacobi-replay", r.out_path], timeout=600)
        chk.cov["traces_validated_against_impl"] += rep["cases"]
        chk.cov["evaluations"] += rep["checks"]
        for k in rep["per_case"]:
            chk.distinct.add(k)
        for v in rep["violations"]:
            chk.violation("Jacobi replay: %s" % json.dumps(v)[:500], {"kind": "jacobi-case", **v})
        if rep["cases"] < 5:
            raise ToolError("vacuity: %d Jacobi cases" % rep["cases"])
    runs = runs[:3]
    for r in runs:
        chk.add_tlc(r, "LU::new as a step machine (Pivot / Swap / Elim / fail) over dual-rational matrices: P A = L U, A x = b, "
                       "A A^-1 = I, determinant = Leibniz expansion (parity, Jacobi's formula), fail iff singular pivot column; "
                       "final selection sort of jacobi_eigenvalue")
        if r.violated:
            chk.model_violation(r, "LinAlg")
            continue
        for act in ("Pivot", "Swap", "Elim"):
            if r.coverage.get(act, 0) == 0:
                raise ToolError("vacuity: action %s never taken in %s" % (act, r.name))
        rep = run_harness("hfeat", ["lu-replay", r.out_path], timeout=3000)
        chk.cov["traces_validated_against_impl"] += rep["cases"]
        chk.cov["evaluations"] += rep["checks"]
        for k in rep["per_case"]:
            chk.distinct.add(k)
        for s in rep["samples"]:
            chk.sample(s)
        for v in rep["violations"]:
            chk.violation("LU replay: %s" % json.dumps(v)[:500], {"kind": "lu-case", **v})
    rep = run_harness("hfeat", ["linalg", "--seed", str(seed()), "--samples", "120" if tier == "quick" else "6000"], timeout=3000)
    chk.cov["evaluations"] += rep["checks"]
    chk.cov["identity_checks"] = rep["checks"]
    chk.cov["worst_error_over_tolerance"] = rep["worst_ratio"]
    for k in rep["per_case"]:
        chk.distinct.add(k)
    for s in rep["samples"]:
        chk.sample(s)
    for v in rep["violations"]:
        chk.violation("linear algebra identity: %s" % json.dumps(v)[:500], {"kind": "linalg-case", **v})
    if rep["distinct_cases"] < 240:
        raise ToolError("vacuity: %d (type, routine, size) cases" % rep["distinct_cases"])
    chk.assumptions.append("float side: random matrices orthogonal * diag(1..3) * orthogonal (condition number <= 3), symmetric "
                           "matrices with spectrum gaps >= 0.6; tolerances 2e-9 / 5e-8 absolute on O(1) quantities")
    return chk.finish(rule="model: every n x n matrix with real parts from the grid (n=2: {-2..2}, n=3: {-1,0,1}; thorough {-1,0,1,2}) "
                           "and fixed distinct dual parts, i.e. every row order / pivoting path / parity, replayed on the real LU; float: "
                           "one case = (scalar type Dual64, Dual2_64, DualSVec64<2>; routine; size 1..6) with every identity "
                           "evaluated in dual arithmetic in every part")
