#!/usr/bin/env python3
"""Regenerates MANIFEST.json from the table below (keeps it valid at all times)."""
import json, os
ROOT = os.path.dirname(os.path.dirname(os.path.abspath(__file__)))
props = [json.loads(l) for l in open(os.path.join(ROOT, "properties.jsonl"))]
CHECKS = {k: (v["level"], v["text"], v["note"], v["technique"]) for k, v in json.load(open(os.path.join(ROOT, "tools", "checks.json"))).items()}
man = {
 "version": 1,
 "setup_cmd": "./vp setup",
 "hooks": {"guard": "num_dual_verif",
           "enable": "rustflags --cfg num_dual_verif in /verif/harness/.cargo/config.toml; no hook exists or is needed: every property is observable through the public API",
           "baseline_off_cmd": "cd /repo && cargo test --workspace --no-fail-fast --offline",
           "source_commits": [], "add_only": True},
 "engines": [
   {"name": "tlc", "path": "/verif/spec", "serves_properties": sorted(CHECKS),
    "kind_free_text": "explicit TLA+ specification: layer A (reference truncated Taylor algebra), layer B (implementation-shaped transcription of the Rust code), calculator state machine; checked by TLC; bound to the code by replaying TLC-generated behaviours and by validating recorded traces"},
   {"name": "hcore", "path": "/verif/harness/hcore", "serves_properties": sorted(CHECKS),
    "kind_free_text": "Rust conformance harness with a path dependency on /repo (rebuilds from the working tree)"}],
 "checks": [],
 "not_applicable": [],
 "notes": "see DESIGN.md; ./vp check <ID> --tier quick|thorough; exit 0 held, 1 VIOLATION, 2 tool error",
}
for p in props:
    i = p["id"]
    if i in CHECKS:
        lvl, text, note, tech = CHECKS[i]
        man["checks"].append({
            "property_id": i, "quick_cmd": "./vp check %s --tier quick" % i,
            "thorough_cmd": "./vp check %s --tier thorough" % i,
            "evidence_file": "/verif/evidence/%s.json" % i, "replay_cmd_template": "./vp replay {path}",
            "engine": "tlc",
            "level_claimed": {"category": lvl, "text": text, "design_ref": "DESIGN.md section 6, " + i},
            "level_note": note, "technique": tech})
    else:
        man["not_applicable"].append({"property_id": i, "reason": "check not built yet in this round (planned: DESIGN.md section 6)"})
json.dump(man, open(os.path.join(ROOT, "MANIFEST.json"), "w"), indent=1)
print("checks:", [c["property_id"] for c in man["checks"]])
