#!/usr/bin/env python3
"""Regenerates MANIFEST.json from the table below (keeps it valid at all times)."""
import json, os
ROOT = os.path.dirname(os.path.dirname(os.path.abspath(__file__)))
props = [json.loads(l) for l in open(os.path.join(ROOT, "properties.jsonl"))]
CHECKS = {k: (v["level"], v["text"], v["note"], v["technique"]) for k, v in json.load(open(os.path.join(ROOT, "tools", "checks.json"))).items()}
man = {
 "version": 1,
 "setup_cmd": "./vp setup",
 "hooks": {"guard": "num_dual_verif",
           "enable": "rustflags --cfg num_dual_verif in /verif/harness/.cargo/config.toml; no hook exists or is needed: every property is observable through the public API",
           "baseline_off_cmd": "cd /repo && cargo test --workspace --no-fail-fast --offline",
           "source_commits": [], "add_only": True},
 "engines": [
   {"name": "tlc", "path": "/verif/spec", "serves_properties": sorted(CHECKS),
    "kind_free_text": "explicit TLA+ specification: layer A (reference truncated Taylor algebra), layer B (implementation-shaped transcription of the Rust code), calculator state machine; checked by TLC; bound to the code by replaying TLC-generated behaviours and by validating recorded traces"},
   {"name": "hcore", "path": "/verif/harness/hcore", "serves_properties": sorted(CHECKS),
    "kind_free_text": "Rust conformance harness with a path dependency on /repo (rebuilds from the working tree): replay of TLC-generated behaviours, trace emitter, table interpreter with running error bounds"},
   {"name": "hfeat", "path": "/verif/harness/hfeat", "serves_properties": ["C12", "C16"],
    "kind_free_text": "the same for the crate's serde and linalg features (LU / Jacobi step-machine replay, decomposition identities, serde trees)"},
   {"name": "hpy", "path": "/verif/harness/hpy", "serves_properties": ["C17"],
    "kind_free_text": "the crate's python feature inside an embedded CPython (NumPy from the tooling venv): table rows, array behaviours of PyArrays.tla, whole programs, drivers"},
   {"name": "apalache", "path": "/verif/spec/PowerA.tla", "serves_properties": ["C09"],
    "kind_free_text": "unbounded companion of Power.tla (SMT); soft: 'unavailable' is recorded in the evidence, TLC stays the verdict"},
   {"name": "tlapm", "path": "/verif/spec/DerivAlgP.tla", "serves_properties": ["C07"],
    "kind_free_text": "proof companion of DerivOps.tla (150 obligations); soft: 'unavailable' is recorded in the evidence, TLC stays the verdict"}],
 "checks": [],
 "not_applicable": [],
 "notes": "see DESIGN.md; ./vp check <ID> --tier quick|thorough; exit 0 held, 1 VIOLATION, 2 tool error",
}
for p in props:
    i = p["id"]
    if i in CHECKS:
        lvl, text, note, tech = CHECKS[i]
        man["checks"].append({
            "property_id": i, "quick_cmd": "./vp check %s --tier quick" % i,
            "thorough_cmd": "./vp check %s --tier thorough" % i,
            "evidence_file": "/verif/evidence/%s.json" % i, "replay_cmd_template": "./vp replay {path}",
            "engine": "tlc",
            "level_claimed": {"category": lvl, "text": text, "design_ref": "DESIGN.md section 6, " + i},
            "level_note": note, "technique": tech})
    else:
        man["not_applicable"].append({"property_id": i, "reason": "check not built yet in this round (planned: DESIGN.md section 6)"})
json.dump(man, open(os.path.join(ROOT, "MANIFEST.json"), "w"), indent=1)
print("checks:", [c["property_id"] for c in man["checks"]])
