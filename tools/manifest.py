#!/usr/bin/env python3
"""Regenerates MANIFEST.json from the table below (keeps it valid at all times)."""
import json, os
ROOT = os.path.dirname(os.path.dirname(os.path.abspath(__file__)))
props = [json.loads(l) for l in open(os.path.join(ROOT, "properties.jsonl"))]
CHECKS = {
 "C02": ("model_checking",
         "TLC proves the coded product/quotient/sum rules of all eight types equal to the first-principles truncated Taylor algebra as polynomial identities (all operand values, all presence patterns), then enumerates calculator behaviours over exact rationals that the harness replays bit-exactly through the real crate on f32/f64, static/dynamic types",
         "trusted: TLC; layer B (my transcription of the code) is checked against layer A by TLC and against the code by replay; exact-mode replay covers operands with small dyadic parts",
         "TLA+ refinement check (TLC, Laurent-polynomial ring) + replay of TLC-generated behaviours into the implementation"),
 "C06": ("model_checking",
         "TLC checks on every transition of the calculator that the real part of the result is the plain-rational operation on the operands' real parts and that predicates/comparisons depend on real parts only; every behaviour is replayed twice on the real crate with identical real parts and different derivative parts (bitwise equal real parts, equal observations) and against the model",
         "signed zeros are outside the rational model (handled by dedicated cases); comparisons exist on the four field types only",
         "TLA+ action property ReTransparent (TLC) + two-run replay of TLC-generated behaviours"),
 "C07": ("model_checking",
         "TLC checks symbolically (all 2^k presence patterns, all operand values) and on every calculator transition that zero-filling absent parts leaves every result unchanged; every behaviour is replayed with absent parts and again with explicit zeros on the static and dynamic vector types",
         "bounded: dimensions <= 3 in the quick tier; operand values small dyadics",
         "TLA+ refinement mapping absent->zeros (TLC) + zero-fill replay of TLC-generated behaviours"),
 "C08": ("model_checking",
         "TLC checks FormsAgree on every transition (each owned/borrowed/assign/scalar/Inv/Sum/Product/mul_add/constant form equals the canonical dual-dual operation with the scalar lifted to a constant); the harness replays each behaviour through exactly the syntactic form named in the event and compares bit-exactly",
         "the list of forms is the one modelled in Calc.tla/Machine.tla; FromPrimitive/FloatConst entry points are checked by the harness table",
         "TLA+ action property FormsAgree (TLC) + per-form replay of TLC-generated behaviours"),
 "C16": ("model_checking",
         "TLC enumerates scalar dual types and nestings to depth 3 with distinct part values, checks the model-level round trip and field-name invariants and emits the expected JSON tree; the harness (feature serde) compares serde_json's tree with it (names, nesting, nothing else), round-trips bitwise through the text and deserialises the model tree with permuted key order, on f64 and f32",
         "serde_json is trusted as the data format; values are finite and exactly representable",
         "TLA+ tree model (TLC) + conformance of the real serde output against TLC-generated cases"),
 "C18": ("model_checking",
         "TLC enumerates types x presence patterns x values and emits the token sequence Display must produce (transcribed from the fmt impls and Derivative::fmt, invariant: every stored scalar of a present part is printed exactly once); the harness formats the real value on every concrete configuration (f32/f64, static/dynamic, nested), tokenises the string and requires identical tokens with every number parsing back to exactly the stored value",
         "dimensions <= 3; nalgebra's matrix box layout is tokenised, not modelled character by character",
         "TLA+ token-grammar model (TLC) + conformance of the real Display output against TLC-generated cases"),
}
man = {
 "version": 1,
 "setup_cmd": "./vp setup",
 "hooks": {"guard": "num_dual_verif",
           "enable": "rustflags --cfg num_dual_verif in /verif/harness/.cargo/config.toml; no hook exists or is needed: every property is observable through the public API",
           "baseline_off_cmd": "cd /repo && cargo test --workspace --no-fail-fast --offline",
           "source_commits": [], "add_only": True},
 "engines": [
   {"name": "tlc", "path": "/verif/spec", "serves_properties": sorted(CHECKS),
    "kind_free_text": "explicit TLA+ specification: layer A (reference truncated Taylor algebra), layer B (implementation-shaped transcription of the Rust code), calculator state machine; checked by TLC; bound to the code by replaying TLC-generated behaviours and by validating recorded traces"},
   {"name": "hcore", "path": "/verif/harness/hcore", "serves_properties": sorted(CHECKS),
    "kind_free_text": "Rust conformance harness with a path dependency on /repo (rebuilds from the working tree)"}],
 "checks": [],
 "not_applicable": [],
 "notes": "see DESIGN.md; ./vp check <ID> --tier quick|thorough; exit 0 held, 1 VIOLATION, 2 tool error",
}
for p in props:
    i = p["id"]
    if i in CHECKS:
        lvl, text, note, tech = CHECKS[i]
        man["checks"].append({
            "property_id": i, "quick_cmd": "./vp check %s --tier quick" % i,
            "thorough_cmd": "./vp check %s --tier thorough" % i,
            "evidence_file": "/verif/evidence/%s.json" % i, "replay_cmd_template": "./vp replay {path}",
            "engine": "tlc",
            "level_claimed": {"category": lvl, "text": text, "design_ref": "DESIGN.md section 6, " + i},
            "level_note": note, "technique": tech})
    else:
        man["not_applicable"].append({"property_id": i, "reason": "check not built yet in this round (planned: DESIGN.md section 6)"})
json.dump(man, open(os.path.join(ROOT, "MANIFEST.json"), "w"), indent=1)
print("checks:", [c["property_id"] for c in man["checks"]])
