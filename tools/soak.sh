#!/bin/sh
# developer tool: all quick (or thorough) checks under several seeds; prints everything that is not OK
# usage: [SOAK_CHECKS="C04 C17"] tools/soak.sh <tier> <seed>...
tier=$1; shift
cd "$(dirname "$0")/.."
for s in "$@"; do
  for i in ${SOAK_CHECKS:-C01 C02 C03 C04 C05 C06 C07 C08 C09 C10 C11 C12 C13 C14 C15 C16 C17 C18}; do
    VERIF_SEED=$s ./vp check $i --tier $tier 2>&1 | grep -E "^(OK|VIOLATION|TOOL)" | head -3 | sed "s/^/seed=$s /" | cut -c1-200
  done
done
