#!/usr/bin/env python3
"""Re-run every kept seeded change against the current checks: apply seeded/<id>/patch.diff to /repo, run the quick
check of the property it breaks, expect a VIOLATION, revert.  Never leaves /repo modified.  usage: tools/seed_regress.py [ids...]"""
import sys, os, json, subprocess, glob, time
ROOT = os.path.join(os.path.dirname(os.path.abspath(__file__)), "..")
ids = sys.argv[1:] or sorted(os.path.basename(os.path.dirname(p)) for p in glob.glob(os.path.join(ROOT, "seeded", "*", "patch.diff")))
res = {}
assert subprocess.run("git -C /repo status --porcelain", shell=True, capture_output=True, text=True).stdout.strip() == "", "/repo is not clean"
for sid in ids:
    d = os.path.join(ROOT, "seeded", sid)
    meta = json.load(open(os.path.join(d, "meta.json")))
    prop = meta.get("breaks_property") or sid.split("-")[0]
    patch = os.path.join(d, "patch.diff")
    chk = subprocess.run("git -C /repo apply --check --whitespace=nowarn %s" % patch, shell=True, capture_output=True, text=True)
    if chk.returncode != 0:
        res[sid] = {"applies": False, "note": chk.stderr.strip()[:200]}
        print(sid, "does not apply any more:", chk.stderr.strip()[:120], flush=True)
        continue
    subprocess.run("git -C /repo apply --whitespace=nowarn %s" % patch, shell=True, check=True)
    t0 = time.time()
    try:
        r = subprocess.run(["./vp", "check", prop], cwd=ROOT, stdout=subprocess.PIPE, stderr=subprocess.STDOUT, text=True)
        lines = [l for l in r.stdout.splitlines() if l.startswith(("VIOLATION", "OK", "TOOL"))]
        res[sid] = {"applies": True, "property": prop, "exit": r.returncode, "detected": r.returncode == 1, "first": lines[:1], "wall_s": round(time.time() - t0)}
    finally:
        subprocess.run("git -C /repo checkout -- .", shell=True)
    print(sid, res[sid], flush=True)
out = os.path.join(ROOT, "seeded", "REGRESSION.json")
allres = json.load(open(out)) if os.path.exists(out) else {}
allres.update(res)
json.dump(allres, open(out, "w"), indent=1, sort_keys=True)
missed = [k for k, v in res.items() if v.get("applies") and not v.get("detected")]
print("missed:", missed)
sys.exit(1 if missed else 0)
