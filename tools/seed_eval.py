#!/usr/bin/env python3
"""Confirm a seeded change produced by a sub-agent and run checks against it.
usage: tools/seed_eval.py <seed-id> <worktree> <demo-example-name> <breaks-property> <check ids...>"""
import sys, subprocess, os, json, shutil, time
sid, wt, demo, prop = sys.argv[1:5]
checks = [c for c in sys.argv[5:] if not c.startswith("--")]
feat = " --features serde,linalg" if "--features" in sys.argv else ""
out = os.path.join("/verif/seeded", sid)
os.makedirs(out, exist_ok=True)
def run(cmd, cwd, timeout=3000):
    p = subprocess.run(cmd, cwd=cwd, shell=True, stdout=subprocess.PIPE, stderr=subprocess.STDOUT, text=True, timeout=timeout)
    return p.returncode, p.stdout
meta = {"id": sid, "breaks_property": prop, "ran": []}
# 1. the patch as the agent left it (src only)
diff = subprocess.run("git diff -- src", cwd=wt, shell=True, stdout=subprocess.PIPE).stdout     # bytes: keeps CRLF
open(os.path.join(out, "patch.diff"), "wb").write(diff)
assert diff.strip(), "no source change in worktree"
# 2. with the change: builds, full suite passes, demo fails
rc, o = run("cargo test --offline 2>&1 | grep -E '^test result|error' ", wt)
passed = sum(int(l.split()[3]) for l in o.splitlines() if l.startswith("test result"))
failed = sum(int(l.split()[5]) for l in o.splitlines() if l.startswith("test result"))
meta["ran"].append({"cmd": "cargo test --offline (with change)", "passed": passed, "failed": failed})
rc1, o1 = run("cargo run --offline%s --example %s 2>&1 | tail -5" % (feat, demo), wt)
rc1, _ = run("cargo run -q --offline%s --example %s >/dev/null 2>&1" % (feat, demo), wt)
meta["ran"].append({"cmd": "demo with change", "exit": rc1, "tail": o1[-600:]})
# 3. without the change: demo passes
run("git stash push -- src", wt)
rc2, _ = run("cargo run -q --offline%s --example %s >/dev/null 2>&1" % (feat, demo), wt)
run("git stash pop", wt)
meta["ran"].append({"cmd": "demo without change", "exit": rc2})
meta["confirmed"] = bool(failed == 0 and passed >= 459 and rc1 != 0 and rc2 == 0)
for f in ("NOTES.md", os.path.join("examples", demo + ".rs")):
    if os.path.exists(os.path.join(wt, f)):
        shutil.copy(os.path.join(wt, f), out)
notes = os.path.join(wt, "NOTES.md")
meta["needs_to_manifest"] = open(notes).read()[:1500] if os.path.exists(notes) else ""
# 4. my checks against it
meta["checks"] = {}
if meta["confirmed"]:
    rc, o = run("git -C /repo apply --whitespace=nowarn %s" % os.path.join(out, "patch.diff"), "/verif")
    assert rc == 0, "patch does not apply to /repo: " + o
    try:
        for c in checks:
            t0 = time.time()
            rc, o = run("./vp check %s" % c, "/verif")
            lines = [l for l in o.splitlines() if l.startswith(("VIOLATION", "OK", "TOOL", "KNOWN"))]
            meta["checks"][c] = {"exit": rc, "detected": rc == 1, "first_lines": [l[:200] for l in lines[:2]], "wall_s": round(time.time() - t0)}
    finally:
        run("git -C /repo checkout -- .", "/verif")
json.dump(meta, open(os.path.join(out, "meta.json"), "w"), indent=1)
print(json.dumps({k: meta[k] for k in ("id", "confirmed", "checks")}, indent=1))
print([r for r in meta["ran"]])
