#!/usr/bin/env python3
"""Derive spec/CalcN.tla and spec/MachineN.tla (the calculator over an inner dual level) from spec/Calc.tla and
spec/Machine.tla by replacing the marked scalar-level block.  --check: exit 1 if the committed files are stale."""
import sys, os, re
SPEC = os.path.join(os.path.dirname(os.path.abspath(__file__)), "..", "spec")
NBLOCK = r'''\* @@SCALAR-LEVEL-BEGIN  (generated from Calc.tla by tools/gen_nested.py -- do not edit)
\* The scalar level: numbers of the inner level I, a dual number type over the rationals.
CONSTANT Inner       \* descriptor of a scalar dual number type: InnerDual, InnerDual2, InnerDual3, InnerHyperDual
IsF == FALSE
\* TLC passes operator arguments unevaluated and re-evaluates them at every use; through two levels of dual
\* arithmetic that is exponential in the depth of an expression.  Binding the arguments as bound variables of a
\* singleton set evaluates each exactly once (S1 / S2: strict unary / binary application).
S1(op(_), a) == CHOOSE r \in {op(x) : x \in {a}} : TRUE
S2(op(_, _), a, b) == CHOOSE r \in {op(x, y) : x \in {a}, y \in {b}} : TRUE
B == INSTANCE DualB WITH
        SAdd <- LAMBDA a, b : S2(LAMBDA x, y : I!AddB(Inner, x, y), a, b), SSub <- LAMBDA a, b : S2(LAMBDA x, y : I!SubB(Inner, x, y), a, b),
        SMul <- LAMBDA a, b : S2(LAMBDA x, y : I!MulB(Inner, x, y), a, b), SDiv <- LAMBDA a, b : S2(LAMBDA x, y : I!DivB(Inner, x, y), a, b),
        SNeg <- LAMBDA a : S1(LAMBDA x : I!NegB(Inner, x), a), SRecip <- LAMBDA a : S1(LAMBDA x : I!RecipB(Inner, x), a),
        SZero <- I!ZeroB(Inner), SOne <- I!OneB(Inner), SOfQ <- LAMBDA q : I!FromFB(Inner, q),
        SMulF <- LAMBDA t, q : S1(LAMBDA x : I!MulFB(Inner, x, q), t), SDivF <- LAMBDA t, q : S1(LAMBDA x : I!DivFB(Inner, x, q), t),
        SAddF <- LAMBDA t, q : S1(LAMBDA x : I!AddFB(Inner, x, q), t), SSubF <- LAMBDA t, q : S1(LAMBDA x : I!SubFB(Inner, x, q), t),
        SFun <- LAMBDA fn, t : S1(LAMBDA x : I!ElemB(Inner, fn, x), t),
        SPowi <- LAMBDA t, n : S1(LAMBDA x : I!PowiB(Inner, x, n), t),
        SPowf <- LAMBDA t, q : S1(LAMBDA x : I!PowfB(Inner, x, q, q = QInt(2)), t),
        SLog <- LAMBDA t, b : S1(LAMBDA x : I!LogB(Inner, x, b), t), SAtan2 <- LAMBDA t, u : S2(LAMBDA x, y : I!Atan2B(Inner, x, y), t, u),
        SRe <- LAMBDA t : I!ReB(t),
        SIsZero <- LAMBDA t : I!IsZeroB(t), SIsOne <- LAMBDA t : I!IsOneB(t),
        SIsPositive <- LAMBDA t : I!IsPositiveB(t), SIsNegative <- LAMBDA t : I!IsNegativeB(t),
        FLt <- FLtQ, FEps <- FEpsTok, FAbs <- QAbs, FOfQ <- LAMBDA q : q
\* @@SCALAR-LEVEL-END
'''


def gen():
    calc = open(os.path.join(SPEC, "Calc.tla")).read()
    a = calc.index("\\* @@SCALAR-LEVEL-BEGIN")
    b = calc.index("\\* @@SCALAR-LEVEL-END") + len("\\* @@SCALAR-LEVEL-END\n")
    calcn = calc[:a] + NBLOCK + calc[b:]
    calcn = calcn.replace("MODULE Calc ", "MODULE CalcN ", 1)
    mach = open(os.path.join(SPEC, "Machine.tla")).read()
    machn = mach.replace("MODULE Machine ", "MODULE MachineN ", 1).replace("EXTENDS Calc,", "EXTENDS CalcN,", 1)
    trace = open(os.path.join(SPEC, "TraceCalc.tla")).read()
    tracen = trace.replace("MODULE TraceCalc ", "MODULE TraceCalcN ", 1).replace("EXTENDS Calc,", "EXTENDS CalcN,", 1)
    return {"CalcN.tla": calcn, "MachineN.tla": machn, "TraceCalcN.tla": tracen}


if __name__ == "__main__":
    out = gen()
    stale = [f for f, t in out.items() if not os.path.exists(os.path.join(SPEC, f)) or open(os.path.join(SPEC, f)).read() != t]
    if "--check" in sys.argv:
        if stale:
            print("stale generated specs: %s (run tools/gen_nested.py)" % ", ".join(stale))
            sys.exit(1)
        sys.exit(0)
    for f, t in out.items():
        open(os.path.join(SPEC, f), "w").write(t)
    print("generated", ", ".join(out))
