#!/usr/bin/env python3
"""Developer tool: apply a textual mutation to /repo, run checks, revert.
usage: tools/mutate.py <file> <old> <new> <check ids...>   (old/new are python string literals or @file)"""
import sys, subprocess, os
f, old, new = sys.argv[1], sys.argv[2], sys.argv[3]
ids = sys.argv[4:]
p = os.path.join("/repo", f)
s = open(p, newline="").read()
crlf = "\r\n" in s
old = old.encode("latin-1", "backslashreplace").decode("unicode_escape") if "\\" in old else old
new = new.encode("latin-1", "backslashreplace").decode("unicode_escape") if "\\" in new else new
if crlf:
    old = old.replace("\n", "\r\n")
    new = new.replace("\n", "\r\n")
assert s.count(old) >= 1, "pattern not found"
open(p, "w", newline="").write(s.replace(old, new, 1))
try:
    for i in ids:
        r = subprocess.run(["./vp", "check", i], cwd="/verif", stdout=subprocess.PIPE, stderr=subprocess.STDOUT, text=True)
        lines = [l for l in r.stdout.splitlines() if l.startswith(("VIOLATION", "OK", "TOOL", "KNOWN"))]
        print(i, "rc=%d" % r.returncode, lines[:2])
finally:
    subprocess.run(["git", "-C", "/repo", "checkout", "--", "."])
