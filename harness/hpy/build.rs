// The crate's pyo3 has the feature "extension-module" (no libpython is linked): for the embedded
// interpreter of the harness libpython is linked here.
fn main() {
    let prefix = std::env::var("VERIF_PYTHON_PREFIX").unwrap_or_else(|_| "/root/.pyenv/versions/3.11.7".to_string());
    println!("cargo:rustc-link-search=native={}/lib", prefix);
    println!("cargo:rustc-link-lib=dylib=python3.11");
    println!("cargo:rustc-link-arg=-Wl,-rpath,{}/lib", prefix);
    println!("cargo:rerun-if-env-changed=VERIF_PYTHON_PREFIX");
}
