//! C17: every row of the forwarding table exported by PyBind.tla is executed (i) through the real
//! Python classes inside an embedded interpreter and (ii) through the Rust program it must equal;
//! repr (= the Rust Display rendering) and every getter are compared bit for bit.  Driver functions
//! are called with Python closures built from TLC's polynomial descriptions (Drivers.tla).
#[path = "../../hcore/src/absval.rs"]
#[allow(dead_code)]
mod absval;
#[path = "../../hcore/src/calc.rs"]
#[allow(dead_code)]
mod calc;

use absval::*;
use calc::*;
use num_dual::*;
use num_traits::{Inv, One, Signed, Zero};
use pyo3::prelude::*;
use pyo3::types::{PyDict, PyList};
use serde_json::{json, Value};
use std::collections::BTreeMap;
use std::ffi::CString;

impl_calc!("Dual", Dual64, f64, 53, ord, nobes);
impl_calc!("Dual2", Dual2_64, f64, 53, ord, nobes);
impl_calc!("Dual3", Dual3_64, f64, 53, noord, nobes);
impl_calc!("HyperDual", HyperDual64, f64, 53, noord, nobes);
impl_calc!("HHD", HyperHyperDual64, f64, 53, noord, nobes);
impl_calc!("Dual2<Dual>", Dual2<Dual64, f64>, f64, 53, ord, nobes);
impl_calc!("Dual3<Dual>", Dual3<Dual64, f64>, f64, 53, noord, nobes);
impl_calc!("HyperDual<Dual>", HyperDual<Dual64, f64>, f64, 53, noord, nobes);

/// the transcendental closure of the vector-class driver cases (the same expression is given to Python as text)
fn g1<D: DualNum<f64> + Clone>(x: &[D]) -> D {
    let n = x.len();
    x[0].sin() * x[1 % n].exp() + (x[0].clone() * x[0].clone() + 1.5).ln() / (x[n - 1].clone() + 3.0) - x[0].tanh().powi(2)
}
fn g2<D: DualNum<f64> + Clone>(x: &[D]) -> D {
    let n = x.len();
    (x[n - 1].clone() * x[0].clone()).cos() - x[1 % n].sqrt() * 0.5 + x[0].atan()
}
fn g3<D: DualNum<f64> + Clone>(a: &[D], b: &[D]) -> D {
    let (m, n) = (a.len(), b.len());
    a[0].sin() * b[n - 1].exp() + (a[m - 1].clone() * b[0].clone() + 1.5).ln() / (b[0].clone() + 3.0) - (a[0].clone() * b[n - 1].clone()).tanh()
}
const G3_PY: &str = "a[0].sin() * b[len(b) - 1].exp() + (a[len(a) - 1] * b[0] + 1.5).log() / (b[0] + 3.0) - (a[0] * b[len(b) - 1]).tanh()";
const PY_VEC_SNAP: &str = r#"
import json as __json2, struct as __struct2
def __vb(x):
    if x is None: return None
    if isinstance(x, float): return __struct2.unpack('<Q', __struct2.pack('<d', x))[0]
    return [__vb(e) for e in x]
def __vsnap(o):
    d = {'cls': type(o).__name__, 'value': __vb(o.value), 'repr': repr(o)}
    for g in ('first_derivative', 'second_derivative', 'third_derivative'):
        if hasattr(o, g): d[g] = __vb(getattr(o, g))
    return __json2.dumps(d)
"#;
const G1_PY: &str = "v[0].sin() * v[1 % len(v)].exp() + (v[0] * v[0] + 1.5).log() / (v[len(v) - 1] + 3.0) - v[0].tanh() ** 2";
const G2_PY: &str = "(v[len(v) - 1] * v[0]).cos() - v[1 % len(v)].sqrt() * 0.5 + v[0].arctan()";

#[pymodule(name = "nd_embedded")]
fn nd_module(m: &Bound<'_, PyModule>) -> PyResult<()> {
    ::num_dual::python::num_dual(m.py(), m)
}

struct Rng(u64);
impl Rng {
    fn next(&mut self) -> u64 {
        self.0 = self.0.wrapping_add(0x9E3779B97F4A7C15);
        let mut z = self.0;
        z = (z ^ (z >> 30)).wrapping_mul(0xBF58476D1CE4E5B9);
        z = (z ^ (z >> 27)).wrapping_mul(0x94D049BB133111EB);
        z ^ (z >> 31)
    }
    fn unit(&mut self) -> f64 { (self.next() >> 11) as f64 / (1u64 << 53) as f64 }
}

fn parse_tagged(line: &str, tag: &str) -> Option<Value> {
    let rest = line.trim().strip_prefix(&format!("<<\"{tag}\", "))?;
    let inner = rest.strip_suffix(">>")?;
    let s: String = serde_json::from_str(inner).ok()?;
    serde_json::from_str(&s).ok()
}

fn fbits(x: f64) -> Value { json!({"f": format!("{:#018x}", x.to_bits())}) }

/// python literal of a float that round-trips exactly
fn pyf(x: f64) -> String { format!("float.fromhex('{}')", hexf(x)) }
fn hexf(x: f64) -> String {
    // C99 hex float via bits
    if x == 0.0 { return if x.is_sign_negative() { "-0x0p+0".into() } else { "0x0p+0".into() }; }
    let b = x.to_bits();
    let sign = if b >> 63 == 1 { "-" } else { "" };
    let e = ((b >> 52) & 0x7ff) as i64;
    let m = b & ((1u64 << 52) - 1);
    if e == 0 { format!("{sign}0x0.{:013x}p-1022", m) } else { format!("{sign}0x1.{:013x}p{:+}", m, e - 1023) }
}

struct Report { checks: u64, per_case: BTreeMap<String, u64>, viol: Vec<Value>, n_viol: u64, samples: Vec<Value> }
impl Report {
    fn check(&mut self, case: String, ok: bool, d: impl FnOnce() -> Value) {
        self.checks += 1;
        *self.per_case.entry(case.clone()).or_insert(0) += 1;
        if !ok {
            self.n_viol += 1;
            if self.viol.len() < 8 { let mut v = d(); v["case"] = json!(case); self.viol.push(v); }
        }
    }
}

/// value JSON of a class from its constructor arguments (scalar parts; nested classes take Dual64 parts)
fn value_json(ty: &str, args: &[String], parts: &BTreeMap<String, f64>) -> Value {
    let nested = ty.contains('<');
    let mut o = serde_json::Map::new();
    for a in args {
        let name = a.trim_start_matches('.');
        if nested {
            o.insert(name.into(), json!({"re": fbits(parts[&format!("{a}.re")]), "eps": fbits(parts[&format!("{a}.eps")])}));
        } else {
            o.insert(name.into(), fbits(parts[a]));
        }
    }
    Value::Object(o)
}
fn py_ctor(class: &str, ty: &str, args: &[String], parts: &BTreeMap<String, f64>) -> String {
    let nested = ty.contains('<');
    let a: Vec<String> = args.iter().map(|a| if nested { format!("nd.Dual64({}, {})", pyf(parts[&format!("{a}.re")]), pyf(parts[&format!("{a}.eps")])) } else { pyf(parts[a]) }).collect();
    format!("nd.{}({})", class, a.join(", "))
}

fn rust_eval<T: Calc>(xj: &Value, yj: &Value, l: f64, prog: &Value) -> Result<T, String> {
    rust_eval_vals(T::from_json(xj)?, T::from_json(yj)?, l, prog)
}
fn rust_eval_vals<T: Calc>(x: T, y: T, l: f64, prog: &Value) -> Result<T, String> {
    let mut acc = x.clone();
    for step in prog.as_array().ok_or("prog")? {
        let op = step[0].as_str().unwrap_or("");
        let arg = &step[1];
        let mut ev = Ev::from_json(&json!({"op": op, "form": if op.ends_with("_f") { "op" } else { "oo" }, "a": 1, "b": 2, "c": 3, "d": 1})).unwrap();
        if let Some(n) = arg.as_i64() { ev.n = n as i32; }
        match arg.as_str() { Some("l") => ev.s = l, Some(lit) => { if let Ok(v) = lit.parse::<f64>() { ev.s = v; } } _ => {} }
        // registers: 1 = accumulator, 2 = y, 3 = x (mul_add(y, x))
        let regs = vec![acc.clone(), y.clone(), x.clone()];
        match T::apply(&regs, &ev)? {
            Out::Val(v) => acc = v,
            _ => return Err(format!("operation {op} yields no value")),
        }
    }
    Ok(acc)
}

fn flat_of<T: Calc>(v: &T) -> BTreeMap<String, f64> {
    let mut m = BTreeMap::new();
    fn rec(v: &Value, p: &str, out: &mut BTreeMap<String, f64>) {
        if let Some(o) = v.as_object() {
            if o.contains_key("f") { out.insert(p.to_string(), f64_from_json(v).unwrap()); return; }
            for (k, x) in o { rec(x, &format!("{p}.{k}"), out); }
        } else { out.insert(p.to_string(), f64_from_json(v).unwrap_or(f64::NAN)); }
    }
    rec(&v.to_json(), "", &mut m);
    m
}

/// PyArrays.tla: a term over the initial operands evaluated by the Rust programs of PyBind's table
enum TV<T> { D(T), F(f64) }
struct ArrEnv<'a, T> { s: T, t: T, f: Vec<f64>, o: Vec<T>, rows: &'a BTreeMap<String, Value> }
fn eval_term<T: Calc>(t: &Value, env: &ArrEnv<T>) -> Result<TV<T>, String> {
    let tag = t[0].as_str().ok_or("term tag")?;
    let idx = || t[1].as_u64().map(|i| i as usize - 1).ok_or("term index".to_string());
    Ok(match tag {
        "s" => TV::D(env.s.clone()),
        "t" => TV::D(env.t.clone()),
        "F" => TV::F(env.f[idx()?]),
        "O" => TV::D(env.o[idx()?].clone()),
        "row" => {
            let py = t[1].as_str().ok_or("row name")?;
            let prog = env.rows.get(py).ok_or(format!("no scalar row {py} in PyBind's table"))?;
            let x = match eval_term(&t[2], env)? { TV::D(v) => v, TV::F(_) => return Err("float as accumulator".into()) };
            let y = if t[3][0] == "none" { x.clone() } else { match eval_term(&t[3], env)? { TV::D(v) => v, TV::F(_) => return Err("float as dual operand".into()) } };
            let l = if t[4][0] == "none" { 0.0 } else { match eval_term(&t[4], env)? { TV::F(v) => v, TV::D(_) => return Err("dual as float operand".into()) } };
            TV::D(rust_eval_vals(x, y, l, prog)?)
        }
        other => return Err(format!("unknown term {other}")),
    })
}
/// expected snapshot of one heap object: ["dual", display] | ["arr", dtype, shape, [display | bits]]
fn expect_obj<T: Calc>(o: &Value, shape: &Value, env: &ArrEnv<T>) -> Result<Value, String> {
    let kind = o["kind"].as_str().ok_or("kind")?;
    let mut el = vec![];
    for t in o["elems"].as_array().ok_or("elems")? {
        el.push(match eval_term(t, env)? { TV::D(v) => json!(v.show()), TV::F(v) => json!(v.to_bits()) });
    }
    Ok(match kind {
        "dual" => json!(["dual", el[0]]),
        "farr" => json!(["arr", "float64", shape, el]),
        "oarr" => json!(["arr", "object", shape, el]),
        other => return Err(format!("kind {other}")),
    })
}
const PY_ARR_RUNNER: &str = r#"
import json as __json, struct as __struct
__np.seterr(all="ignore")
def __snap(o):
    if isinstance(o, __np.ndarray):
        return ['arr', str(o.dtype), list(o.shape),
                [(__struct.unpack('<Q', __struct.pack('<d', e))[0] if isinstance(e, float) else repr(e)) for e in o.flat]]
    return ['dual', repr(o)]
def __mk_o(elems, shape):
    a = __np.empty(len(elems), dtype=object)
    for i, e in enumerate(elems): a[i] = e
    return a.reshape(shape)
def __arr_run(s, t, f, o, shape, steps):
    h = [s, t, __np.array(f, dtype=float).reshape(shape), __mk_o(o, shape)]
    out = []
    for (op, a, b) in steps:
        try:
            x, y = h[a - 1], h[b - 1]
            r = x + y if op == '+' else x - y if op == '-' else x * y if op == '*' else x / y
            fresh = not any(r is q for q in h)
            h.append(r)
            out.append({'fresh': fresh, 'heap': [__snap(q) for q in h]})
        except BaseException as e:
            out.append({'error': type(e).__name__ + ': ' + str(e)[:200]})
            break
    return __json.dumps(out)
"#;

/// flatten a python getter result (float | Dual64 | tuple of those) into floats
fn py_floats(py: Python<'_>, locals: &Bound<'_, PyDict>, expr: &str) -> PyResult<Vec<f64>> {
    let code = format!("__r = {expr}\ndef __fl(v):\n    if isinstance(v, (tuple, list)):\n        out = []\n        for e in v: out += __fl(e)\n        return out\n    if isinstance(v, float): return [v]\n    return [v.value, v.first_derivative]\n__o = __fl(__r)\n");
    py.run(&CString::new(code).unwrap(), Some(locals), None)?;
    locals.get_item("__o")?.unwrap().extract::<Vec<f64>>()
}

fn main() {
    let args: Vec<String> = std::env::args().collect();
    let get = |n: &str| args.iter().position(|a| a == n).and_then(|i| args.get(i + 1).cloned());
    let site = get("--site").unwrap_or_else(|| "/opt/veriftools/pyvenv/lib/python3.11/site-packages".to_string());
    // probe tool: run a Python script against the real bindings (module name `nd`)
    if let Some(script) = get("--exec") {
        let code = std::fs::read_to_string(&script).expect("script");
        pyo3::append_to_inittab!(nd_module);
        pyo3::prepare_freethreaded_python();
        let r: PyResult<()> = Python::with_gil(|py| {
            let locals = PyDict::new(py);
            py.run(&CString::new(format!("import sys\nsys.path.append('{site}')\nimport nd_embedded as nd\n")).unwrap(), Some(&locals), Some(&locals))?;
            if py.run(&CString::new("import numpy as __np\n").unwrap(), Some(&locals), Some(&locals)).is_ok() {
                py.run(&CString::new(PY_ARR_RUNNER).unwrap(), Some(&locals), Some(&locals))?;
            }
            py.run(&CString::new(code).unwrap(), Some(&locals), Some(&locals))
        });
        if let Err(e) = r { eprintln!("python error: {e}"); std::process::exit(3); }
        return;
    }
    // panics of the code under test arrive in Python as PanicException (data); keep stderr short
    {
        static COUNT: std::sync::atomic::AtomicUsize = std::sync::atomic::AtomicUsize::new(0);
        std::panic::set_hook(Box::new(|info| {
            if COUNT.fetch_add(1, std::sync::atomic::Ordering::Relaxed) < 3 { eprintln!("panic: {info}"); }
        }));
    }
    let table_file = get("--table").expect("--table");
    let drivers_file = get("--drivers");
    let seed: u64 = get("--seed").and_then(|x| x.parse().ok()).unwrap_or(1);
    let samples: usize = get("--samples").and_then(|x| x.parse().ok()).unwrap_or(3);
    let arrays_file = get("--arrays");
    let programs_file = get("--programs");
    let prog_stride: usize = get("--prog-stride").and_then(|x| x.parse().ok()).unwrap_or(1).max(1);
    let mut programs_note = String::new();
    let stride: usize = get("--stride").and_then(|x| x.parse().ok()).unwrap_or(1).max(1);
    let text = std::fs::read_to_string(&table_file).expect("table");
    let table = text.lines().find_map(|l| parse_tagged(l, "PYBIND")).expect("PYBIND line");
    pyo3::append_to_inittab!(nd_module);
    pyo3::prepare_freethreaded_python();
    let mut rep = Report { checks: 0, per_case: BTreeMap::new(), viol: vec![], n_viol: 0, samples: vec![] };
    let mut rng = Rng(seed ^ 0x9117);
    let mut numpy_note = String::new();
    let res: PyResult<()> = Python::with_gil(|py| {
        let locals = PyDict::new(py);
        py.run(&CString::new(format!("import sys\nsys.path.append('{site}')\nimport nd_embedded as nd\n")).unwrap(), Some(&locals), None)?;
        for class in table["classes"].as_array().unwrap() {
            let (pyname, ty) = (class["py"].as_str().unwrap(), class["ty"].as_str().unwrap());
            let cargs: Vec<String> = class["args"].as_array().unwrap().iter().map(|a| a.as_str().unwrap().to_string()).collect();
            let nested = ty.contains('<');
            for row in table["rows"].as_array().unwrap() {
                let expr = row["py"].as_str().unwrap();
                for _ in 0..samples {
                    // operands: real part inside every function's domain (0.2 .. 0.9), arbitrary parts; acosh needs > 1
                    let mk = |re_lo: f64, re_hi: f64, rng: &mut Rng| -> BTreeMap<String, f64> {
                        let mut m = BTreeMap::new();
                        for (i, a) in cargs.iter().enumerate() {
                            let v = |rng: &mut Rng| if i == 0 { re_lo + (re_hi - re_lo) * rng.unit() } else { rng.unit() * 4.0 - 2.0 };
                            if nested { let r = v(rng); m.insert(format!("{a}.re"), r); m.insert(format!("{a}.eps"), rng.unit() * 4.0 - 2.0); } else { m.insert(a.clone(), v(rng)); }
                        }
                        m
                    };
                    let (lo, hi) = if expr.contains("arccosh") { (1.2, 3.0) } else { (0.2, 0.9) };
                    let px = mk(lo, hi, &mut rng);
                    let pyv = mk(0.3, 2.0, &mut rng);
                    let l = 0.5 + 2.0 * rng.unit();
                    let (xj, yj) = (value_json(ty, &cargs, &px), value_json(ty, &cargs, &pyv));
                    // python side
                    let code = format!("x = {}\ny = {}\nl = {}\nr = {}\nrr = repr(r)\n", py_ctor(pyname, ty, &cargs, &px), py_ctor(pyname, ty, &cargs, &pyv), pyf(l), expr);
                    let case = format!("{pyname}|{expr}");
                    if let Err(e) = py.run(&CString::new(code.clone()).unwrap(), Some(&locals), None) {
                        rep.check(case, false, || json!({"python_error": e.to_string(), "code": code}));
                        continue;
                    }
                    let rr: String = locals.get_item("rr")?.unwrap().extract()?;
                    // rust side
                    macro_rules! rs { ($T:ty) => {{ rust_eval::<$T>(&xj, &yj, l, &row["prog"]).map(|v| (v.show(), flat_of(&v))) }}; }
                    let r = match ty { "Dual" => rs!(Dual64), "Dual2" => rs!(Dual2_64), "Dual3" => rs!(Dual3_64), "HyperDual" => rs!(HyperDual64),
                        "HHD" => rs!(HyperHyperDual64), "Dual2<Dual>" => rs!(Dual2<Dual64, f64>), "Dual3<Dual>" => rs!(Dual3<Dual64, f64>),
                        "HyperDual<Dual>" => rs!(HyperDual<Dual64, f64>), other => Err(format!("unknown type {other}")) };
                    let (shown, flat) = match r { Ok(v) => v, Err(e) => { eprintln!("tool error: {e}"); std::process::exit(2); } };
                    rep.check(case.clone(), rr == shown, || json!({"python_repr": rr, "rust_display": shown, "x": xj, "y": yj, "l": l}));
                    // getters
                    for g in class["getters"].as_array().unwrap() {
                        let gname = g[0].as_str().unwrap();
                        let want: Vec<f64> = g[1].as_array().unwrap().iter().flat_map(|p| { let p = p.as_str().unwrap();
                            if nested { vec![flat[&format!("{p}.re")], flat[&format!("{p}.eps")]] } else { vec![flat[p]] } }).collect();
                        let got = py_floats(py, &locals, &format!("r.{gname}"))?;
                        // (the abstract value of the harness has no signed zero; the sign of a zero is compared through repr above)
                        let ok = got.len() == want.len() && got.iter().zip(&want).all(|(a, b)| a.to_bits() == b.to_bits() || (*a == 0.0 && *b == 0.0));
                        rep.check(format!("{pyname}|getter {gname}"), ok, || json!({"expr": expr, "python": got, "rust": want}));
                    }
                    if rep.samples.len() < 3 && expr == "l - x" { rep.samples.push(json!({"class": pyname, "expr": expr, "repr": rr})); }
                }
            }
            // from_re
            let code = format!("r = nd.{pyname}.from_re({})\nrr = repr(r)\n", if nested { "nd.Dual64(1.5, 0.25)".to_string() } else { "1.5".to_string() });
            py.run(&CString::new(code).unwrap(), Some(&locals), None)?;
            let rr: String = locals.get_item("rr")?.unwrap().extract()?;
            rep.check(format!("{pyname}|from_re"), rr.starts_with("1.5") && !rr.contains("NaN"), || json!({"repr": rr}));
        }
        // ---- whole programs (Programs.tla): the same expression DAG written against the Python classes and run on the
        //      wrapped Rust type; every node's repr must equal the Rust rendering ("for all programs written against them")
        if let Some(pf) = &programs_file {
            let ptext = std::fs::read_to_string(pf).expect("programs file");
            let syntax: BTreeMap<String, String> = table["prog_syntax"].as_array().map(|a| a.iter().map(|r| (r[0].as_str().unwrap().to_string(), r[1].as_str().unwrap().to_string())).collect()).unwrap_or_default();
            let not_in_python: Vec<String> = table["not_in_python"].as_array().map(|a| a.iter().map(|r| r.as_str().unwrap().to_string()).collect()).unwrap_or_default();
            let progs: Vec<Value> = ptext.lines().filter_map(|l| parse_tagged(l, "PROG")).collect();
            let mut skipped = 0u64;
            for (pi, prog) in progs.iter().enumerate() {
                if (pi + seed as usize) % prog_stride != 0 { continue; }
                let nodes = prog["nodes"].as_array().unwrap();
                if nodes.iter().any(|n| not_in_python.iter().any(|o| o == n["op"].as_str().unwrap_or(""))) { skipped += 1; continue; }
                let nin = prog["inputs"].as_u64().unwrap() as usize;
                for class in table["classes"].as_array().unwrap() {
                    let (pyname, ty) = (class["py"].as_str().unwrap(), class["ty"].as_str().unwrap());
                    let cargs: Vec<String> = class["args"].as_array().unwrap().iter().map(|a| a.as_str().unwrap().to_string()).collect();
                    let nested = ty.contains('<');
                    let mk = |rng: &mut Rng| -> BTreeMap<String, f64> {
                        let mut m = BTreeMap::new();
                        for (i, a) in cargs.iter().enumerate() {
                            let v = |rng: &mut Rng| if i == 0 { 0.3 + 1.5 * rng.unit() } else { rng.unit() * 4.0 - 2.0 };
                            if nested { let r = v(rng); m.insert(format!("{a}.re"), r); m.insert(format!("{a}.eps"), rng.unit() * 4.0 - 2.0); } else { m.insert(a.clone(), v(rng)); }
                        }
                        m
                    };
                    let ins: Vec<BTreeMap<String, f64>> = (0..nin).map(|_| mk(&mut rng)).collect();
                    let mut code = String::from("__err = None\ntry:\n");
                    for (i, p) in ins.iter().enumerate() { code += &format!("    v{} = {}\n", i + 1, py_ctor(pyname, ty, &cargs, p)); }
                    let mut evs = vec![];
                    for (k, nd_) in nodes.iter().enumerate() {
                        let ev = Ev::from_json(nd_).unwrap();
                        let (a, b, c) = (format!("v{}", ev.a), format!("v{}", ev.b), format!("v{}", ev.c));
                        let sc = pyf(ev.s);
                        let Some(tpl) = syntax.get(&ev.op) else { eprintln!("tool error: operation {} has no Python syntax in PyBind.tla and is not listed in NotInPython", ev.op); std::process::exit(2); };
                        let sc_cls = if nested && ev.op == "from_f" { format!("nd.Dual64({sc}, 0.0)") } else { sc.clone() };
                        let e = tpl.replace("{a}", &a).replace("{b}", &b).replace("{c}", &c).replace("{s}", &sc_cls).replace("{n}", &ev.n.to_string()).replace("{cls}", pyname);
                        code += &format!("    v{} = {}\n", nin + k + 1, e);
                        evs.push(ev);
                    }
                    code += &format!("    __o = [repr(w) for w in [{}]]\nexcept BaseException as __e:\n    __err = type(__e).__name__ + ': ' + str(__e)[:200]\n    __o = []\n",
                                     (0..nodes.len()).map(|k| format!("v{}", nin + k + 1)).collect::<Vec<_>>().join(", "));
                    py.run(&CString::new(code.clone()).unwrap(), Some(&locals), Some(&locals))?;
                    let got: Vec<String> = locals.get_item("__o")?.unwrap().extract()?;
                    let perr: Option<String> = locals.get_item("__err")?.unwrap().extract()?;
                    macro_rules! rp { ($T:ty) => {{
                        let mut regs: Vec<$T> = ins.iter().map(|p| <$T>::from_json(&value_json(ty, &cargs, p)).unwrap()).collect();
                        let mut out: Result<Vec<String>, String> = Ok(vec![]);
                        for ev in &evs {
                            match <$T>::apply(&regs, ev) {
                                Ok(Out::Val(v)) => { if let Ok(o) = out.as_mut() { o.push(v.show()); } regs.push(v); }
                                Ok(_) => { out = Err(format!("operation {} yields no value", ev.op)); break; }
                                Err(e) => { out = Err(e); break; }
                            }
                        }
                        out
                    }}; }
                    let want = match ty { "Dual" => rp!(Dual64), "Dual2" => rp!(Dual2_64), "Dual3" => rp!(Dual3_64), "HyperDual" => rp!(HyperDual64),
                        "HHD" => rp!(HyperHyperDual64), "Dual2<Dual>" => rp!(Dual2<Dual64, f64>), "Dual3<Dual>" => rp!(Dual3<Dual64, f64>),
                        "HyperDual<Dual>" => rp!(HyperDual<Dual64, f64>), other => Err(format!("unknown type {other}")) };
                    let want = match want { Ok(v) => v, Err(e) => { eprintln!("tool error: {e}"); std::process::exit(2); } };
                    let bad = if perr.is_some() { Some(0) } else { (0..want.len()).find(|&k| got.get(k) != Some(&want[k])) };
                    rep.check(format!("{pyname}|program n{nin}"), bad.is_none(), || json!({"python_error": perr, "first_differing_node": bad.map(|k| json!({"node": nodes[k], "python": got.get(k), "rust": want[k]})), "code": code}));
                    for ev in &evs { *rep.per_case.entry(format!("prog-op|{}", ev.op)).or_insert(0) += 1; }
                }
            }
            programs_note = format!("{} programs read, {} skipped (operation not exposed in Python)", progs.len(), skipped);
        }
        // ---- PyArrays.tla: behaviours over a heap of dual scalars, float arrays and object arrays
        let mut numpy = "not requested".to_string();
        if let Some(af) = &arrays_file {
            match py.run(&CString::new("import numpy as __np\n").unwrap(), Some(&locals), Some(&locals)) {
                Err(e) => { numpy = format!("unavailable: {e}"); }
                Ok(()) => {
                    py.run(&CString::new(PY_ARR_RUNNER).unwrap(), Some(&locals), Some(&locals))?;
                    numpy = locals.get_item("__np")?.unwrap().getattr("__version__")?.extract::<String>()?;
                    let rows: BTreeMap<String, Value> = table["rows"].as_array().unwrap().iter().map(|r| (r["py"].as_str().unwrap().to_string(), r["prog"].clone())).collect();
                    let atext = std::fs::read_to_string(af).expect("arrays file");
                    let behaviours: Vec<Value> = atext.lines().filter_map(|l| parse_tagged(l, "PYARR")).collect();
                    for class in table["classes"].as_array().unwrap() {
                        let (pyname, ty) = (class["py"].as_str().unwrap(), class["ty"].as_str().unwrap());
                        let cargs: Vec<String> = class["args"].as_array().unwrap().iter().map(|a| a.as_str().unwrap().to_string()).collect();
                        let nested = ty.contains('<');
                        for (bi, bh) in behaviours.iter().enumerate() {
                            if (bi + seed as usize) % stride != 0 { continue; }
                            let shape = &bh["shape"];
                            let n: usize = shape.as_array().unwrap().iter().map(|d| d.as_u64().unwrap() as usize).product();
                            let mk = |rng: &mut Rng| -> BTreeMap<String, f64> {
                                let mut m = BTreeMap::new();
                                for (i, a) in cargs.iter().enumerate() {
                                    let v = |rng: &mut Rng| if i == 0 { 0.3 + 1.7 * rng.unit() } else { rng.unit() * 4.0 - 2.0 };
                                    if nested { let r = v(rng); m.insert(format!("{a}.re"), r); m.insert(format!("{a}.eps"), rng.unit() * 4.0 - 2.0); } else { m.insert(a.clone(), v(rng)); }
                                }
                                m
                            };
                            let (ps, pt) = (mk(&mut rng), mk(&mut rng));
                            let fs: Vec<f64> = (0..n).map(|_| (0.5 + 2.0 * rng.unit()) * if rng.unit() < 0.3 { -1.0 } else { 1.0 }).collect();
                            let os: Vec<BTreeMap<String, f64>> = (0..n).map(|_| mk(&mut rng)).collect();
                            let steps = bh["steps"].as_array().unwrap();
                            let kinds: Vec<&str> = bh["heap"].as_array().unwrap().iter().map(|o| o["kind"].as_str().unwrap()).collect();
                            let code = format!("__out = __arr_run({}, {}, [{}], [{}], {}, [{}])\n",
                                py_ctor(pyname, ty, &cargs, &ps), py_ctor(pyname, ty, &cargs, &pt),
                                fs.iter().map(|v| pyf(*v)).collect::<Vec<_>>().join(", "),
                                os.iter().map(|p| py_ctor(pyname, ty, &cargs, p)).collect::<Vec<_>>().join(", "),
                                shape,
                                steps.iter().map(|st| format!("('{}', {}, {})", st["op"].as_str().unwrap(), st["a"], st["b"])).collect::<Vec<_>>().join(", "));
                            py.run(&CString::new(code.clone()).unwrap(), Some(&locals), Some(&locals))?;
                            let outs: Value = serde_json::from_str(&locals.get_item("__out")?.unwrap().extract::<String>()?).unwrap();
                            // expected heap (the model's final heap; by Immutable every prefix is the heap after the earlier steps)
                            macro_rules! ex { ($T:ty) => {{
                                let env = ArrEnv::<$T> { s: <$T>::from_json(&value_json(ty, &cargs, &ps)).unwrap(), t: <$T>::from_json(&value_json(ty, &cargs, &pt)).unwrap(),
                                    f: fs.clone(), o: os.iter().map(|p| <$T>::from_json(&value_json(ty, &cargs, p)).unwrap()).collect(), rows: &rows };
                                bh["heap"].as_array().unwrap().iter().map(|o| expect_obj(o, shape, &env)).collect::<Result<Vec<Value>, String>>()
                            }}; }
                            let want = match ty { "Dual" => ex!(Dual64), "Dual2" => ex!(Dual2_64), "Dual3" => ex!(Dual3_64), "HyperDual" => ex!(HyperDual64),
                                "HHD" => ex!(HyperHyperDual64), "Dual2<Dual>" => ex!(Dual2<Dual64, f64>), "Dual3<Dual>" => ex!(Dual3<Dual64, f64>),
                                "HyperDual<Dual>" => ex!(HyperDual<Dual64, f64>), other => Err(format!("unknown type {other}")) };
                            let want = match want { Ok(v) => v, Err(e) => { eprintln!("tool error: {e}"); std::process::exit(2); } };
                            for (k, st) in steps.iter().enumerate() {
                                let (a, b) = (st["a"].as_u64().unwrap() as usize, st["b"].as_u64().unwrap() as usize);
                                let case = format!("{pyname}|array {} {} {}", kinds[a - 1], st["op"].as_str().unwrap(), kinds[b - 1]);
                                let got = &outs[k];
                                let ok = got["error"].is_null() && got["fresh"] == json!(true) && got["heap"].as_array().map(|h| h.len() == 5 + k && h.iter().zip(&want).all(|(x, y)| x == y)).unwrap_or(false);
                                rep.check(case, ok, || {
                                    let first_bad = got["heap"].as_array().and_then(|h| h.iter().zip(&want).position(|(x, y)| x != y));
                                    json!({"behaviour": bh["steps"], "shape": shape, "step": k + 1, "python": got.get("error").cloned().unwrap_or(json!(null)), "fresh": got["fresh"],
                                           "first_differing_object": first_bad.map(|i| json!({"index": i + 1, "python": got["heap"][i], "model": want[i]})), "code": code })
                                });
                                if !ok { break; }
                            }
                        }
                    }
                }
            }
        }
        // ---- drivers with python closures built from TLC's polynomial descriptions
        if let Some(df) = &drivers_file {
            let dtext = std::fs::read_to_string(df).expect("drivers file");
            for line in dtext.lines() {
                let Some(case) = parse_tagged(line, "DRIVER") else { continue };
                let d = case["case"]["d"].as_str().unwrap_or("");
                let poly = |k: usize, var: &dyn Fn(usize) -> String| -> String {
                    let ts: Vec<String> = case["f"][k].as_array().unwrap().iter().map(|t| {
                        let mut s = format!("{}.0", t["c"].as_i64().unwrap());
                        for (i, e) in t["e"].as_array().unwrap().iter().enumerate() { for _ in 0..e.as_u64().unwrap() { s = format!("({s}) * {}", var(i)); } }
                        s }).collect();
                    if ts.is_empty() { "0.0".into() } else { ts.join(" + ") }
                };
                let xs: Vec<f64> = case["x"].as_array().unwrap().iter().map(|v| v.as_f64().unwrap()).collect();
                let q = |v: &Value| v[0].as_f64().unwrap() / v[1].as_f64().unwrap();
                let xlist = format!("[{}]", xs.iter().map(|v| format!("{v:?}")).collect::<Vec<_>>().join(", "));
                let idx = |i: usize| format!("v[{i}]");
                let (code, want): (String, Vec<f64>) = match d {
                    "first_derivative" | "second_derivative" | "third_derivative" => (
                        format!("__o = list(nd.{d}(lambda v: {}, {:?}))\n", poly(0, &|_| "v".into()), xs[0]), case["want"]["scalars"].as_array().unwrap().iter().map(q).collect()),
                    "second_partial_derivative" => (
                        format!("__o = list(nd.second_partial_derivative(lambda a, b: {}, {:?}, {:?}))\n", poly(0, &|i| if i == 0 { "a".into() } else { "b".into() }), xs[0], xs[1]),
                        case["want"]["scalars"].as_array().unwrap().iter().map(q).collect()),
                    "third_partial_derivative_vec" => {
                        let (i, j, k) = (case["case"]["i"].as_u64().unwrap() - 1, case["case"]["j"].as_u64().unwrap() - 1, case["case"]["k"].as_u64().unwrap() - 1);
                        // the three-scalar-argument driver is the same computation with the directions (1, 2, 3)
                        if xs.len() == 3 && (i, j, k) == (0, 1, 2) {
                            let names = ["a", "b", "c"];
                            let code3 = format!("__o = list(nd.third_partial_derivative(lambda a, b, c: {}, {:?}, {:?}, {:?}))\n", poly(0, &|i| names[i].to_string()), xs[0], xs[1], xs[2]);
                            let want3: Vec<f64> = case["want"]["scalars"].as_array().unwrap().iter().map(q).collect();
                            match py.run(&CString::new(code3.clone()).unwrap(), Some(&locals), None) {
                                Err(e) => rep.check("driver|third_partial_derivative|n3".into(), false, || json!({"python_error": e.to_string(), "code": code3})),
                                Ok(()) => {
                                    let got: Vec<f64> = locals.get_item("__o")?.unwrap().extract()?;
                                    rep.check("driver|third_partial_derivative|n3".into(), got == want3, || json!({"python": got, "expected": want3}));
                                }
                            }
                        }
                        (format!("__o = list(nd.third_partial_derivative_vec(lambda v: {}, {xlist}, {i}, {j}, {k}))\n", poly(0, &idx)), case["want"]["scalars"].as_array().unwrap().iter().map(q).collect())
                    }
                    "gradient" if !xs.is_empty() => (
                        format!("__f, __g = nd.gradient(lambda v: {}, {xlist})\n__o = [__f] + list(__g)\n", poly(0, &idx)),
                        std::iter::once(q(&case["want"]["f"])).chain(case["want"]["grad"].as_array().unwrap().iter().map(q)).collect()),
                    "hessian" if !xs.is_empty() => (
                        format!("__f, __g, __h = nd.hessian(lambda v: {}, {xlist})\n__o = [__f] + list(__g) + [e for row in __h for e in row]\n", poly(0, &idx)),
                        std::iter::once(q(&case["want"]["f"])).chain(case["want"]["grad"].as_array().unwrap().iter().map(q))
                            .chain(case["want"]["hess"].as_array().unwrap().iter().flat_map(|r| r.as_array().unwrap().iter().map(q))).collect()),
                    "jacobian" if !xs.is_empty() => {
                        let m = case["f"].as_array().unwrap().len();
                        let outs: Vec<String> = (0..m).map(|k| poly(k, &idx)).collect();
                        (format!("__f, __j = nd.jacobian(lambda v: [{}], {xlist})\n__o = list(__f) + [e for row in __j for e in row]\n", outs.join(", ")),
                         case["want"]["f"].as_array().unwrap().iter().map(q).chain(case["want"]["jac"].as_array().unwrap().iter().flat_map(|r| r.as_array().unwrap().iter().map(q))).collect())
                    }
                    "partial_hessian" => {
                        let (m, n) = (case["case"]["m"].as_u64().unwrap() as usize, case["case"]["n"].as_u64().unwrap() as usize);
                        if m == 0 || n == 0 { continue; }
                        let var = |i: usize| if i < m { format!("a[{i}]") } else { format!("b[{}]", i - m) };
                        let xa = format!("[{}]", xs[..m].iter().map(|v| format!("{v:?}")).collect::<Vec<_>>().join(", "));
                        let xb = format!("[{}]", xs[m..].iter().map(|v| format!("{v:?}")).collect::<Vec<_>>().join(", "));
                        (format!("__f, __ga, __gb, __h = nd.partial_hessian(lambda a, b: {}, {xa}, {xb})\n__o = [__f] + list(__ga) + list(__gb) + [e for row in __h for e in row]\n", poly(0, &var)),
                         std::iter::once(q(&case["want"]["f"])).chain(case["want"]["gx"].as_array().unwrap().iter().map(q)).chain(case["want"]["gy"].as_array().unwrap().iter().map(q))
                            .chain(case["want"]["hxy"].as_array().unwrap().iter().flat_map(|r| r.as_array().unwrap().iter().map(q))).collect())
                    }
                    _ => continue,
                };
                let cname = format!("driver|{d}|n{}", xs.len());
                match py.run(&CString::new(code.clone()).unwrap(), Some(&locals), None) {
                    Err(e) => {
                        // jacobian has no dynamically sized fallback: more than 10 variables raise TypeError (modelled)
                        let expected_err = d == "jacobian" && xs.len() > 10;
                        rep.check(cname, expected_err, || json!({"python_error": e.to_string(), "code": code}));
                    }
                    Ok(()) => {
                        let got: Vec<f64> = locals.get_item("__o")?.unwrap().extract()?;
                        let ok = got.len() == want.len() && got.iter().zip(&want).all(|(a, b)| a == b);
                        rep.check(cname, ok && !(d == "jacobian" && xs.len() > 10), || json!({"python": got, "expected": want, "case": case["case"]}));
                    }
                }
            }
        }
        // ---- drivers with a transcendental closure: the named functions of the fixed-size and dynamic vector classes
        //      (DualN, Dual2Vec, dynamic variants are only reachable from Python through the drivers)
        if drivers_file.is_some() {
            use nalgebra::{DVector, Dyn, U1};
            for n in [1usize, 2, 3, 5, 10, 11, 12] {
                let xs: Vec<f64> = (0..n).map(|i| 0.4 + 0.27 * i as f64 + 0.1 * rng.unit()).collect();
                let xlist = format!("[{}]", xs.iter().map(|v| pyf(*v)).collect::<Vec<_>>().join(", "));
                let xv = DVector::from_vec(xs.clone());
                let bits = |a: &[f64], b: &[f64]| a.len() == b.len() && a.iter().zip(b).all(|(x, y)| x.to_bits() == y.to_bits());
                // gradient
                let (f, g) = gradient(|v: DVector<DualDVec64>| g1(v.as_slice()), xv.clone());
                let want: Vec<f64> = std::iter::once(f).chain(g.iter().copied()).collect();
                py.run(&CString::new(format!("__f, __g = nd.gradient(lambda v: {G1_PY}, {xlist})\n__o = [__f] + list(__g)\n")).unwrap(), Some(&locals), None)?;
                let got: Vec<f64> = locals.get_item("__o")?.unwrap().extract()?;
                rep.check(format!("driver-fn|gradient|n{n}"), bits(&got, &want), || json!({"python": got, "rust": want}));
                // hessian
                let (f, g, h) = hessian(|v: DVector<Dual2DVec64>| g1(v.as_slice()), xv.clone());
                let want: Vec<f64> = std::iter::once(f).chain(g.iter().copied()).chain((0..n).flat_map(|i| (0..n).map(move |j| (i, j))).map(|(i, j)| h[(i, j)])).collect();
                py.run(&CString::new(format!("__f, __g, __h = nd.hessian(lambda v: {G1_PY}, {xlist})\n__o = [__f] + list(__g) + [e for row in __h for e in row]\n")).unwrap(), Some(&locals), None)?;
                let got: Vec<f64> = locals.get_item("__o")?.unwrap().extract()?;
                rep.check(format!("driver-fn|hessian|n{n}"), bits(&got, &want), || json!({"python": got, "rust": want}));
                // jacobian (fixed-size classes only: at most 10 variables)
                if n <= 10 {
                    let (f, j) = jacobian(|v: DVector<DualDVec64>| DVector::from_vec(vec![g1(v.as_slice()), g2(v.as_slice())]), xv.clone());
                    let want: Vec<f64> = f.iter().copied().chain((0..2).flat_map(|i| (0..n).map(move |k| (i, k))).map(|(i, k)| j[(i, k)])).collect();
                    py.run(&CString::new(format!("__f, __j = nd.jacobian(lambda v: [{G1_PY}, {G2_PY}], {xlist})\n__o = list(__f) + [e for row in __j for e in row]\n")).unwrap(), Some(&locals), None)?;
                    let got: Vec<f64> = locals.get_item("__o")?.unwrap().extract()?;
                    rep.check(format!("driver-fn|jacobian|n{n}"), bits(&got, &want), || json!({"python": got, "rust": want}));
                }
            }
            // ---- the vector classes themselves: an intermediate object of the closure is captured, its repr and its
            //      getters are compared with the parts of the Rust value at the same place (layouts from PyBind's table)
            py.run(&CString::new(PY_VEC_SNAP).unwrap(), Some(&locals), Some(&locals))?;
            let vec_classes = table["vec_classes"].as_array().cloned().unwrap_or_default();
            let bl = |it: &mut dyn Iterator<Item = f64>| -> Value { json!(it.map(|x| x.to_bits()).collect::<Vec<u64>>()) };
            let mut vcheck = |rep: &mut Report, driver: &str, label: String, want_parts: BTreeMap<String, Value>, want_re: f64, want_repr: String| -> PyResult<()> {
                let got: Value = serde_json::from_str(&locals.get_item("__o")?.unwrap().extract::<String>()?).unwrap();
                let cls = got["cls"].as_str().unwrap_or("").to_string();
                let Some(row) = vec_classes.iter().find(|c| c["py"] == json!(cls)) else {
                    rep.check(format!("vec-class|{driver}|{label}"), false, || json!({"unknown class": cls, "python": got}));
                    return Ok(());
                };
                let mut ok = row["via"] == json!(driver) && got["value"] == json!(want_re.to_bits()) && got["repr"] == json!(want_repr);
                let mut why = vec![];
                if !ok { why.push(json!({"value/repr": {"python": [got["value"].clone(), got["repr"].clone()], "rust": [json!(want_re.to_bits()), json!(want_repr)]}})); }
                let listed: Vec<String> = row["getters"].as_array().unwrap().iter().map(|g| g[0].as_str().unwrap().to_string()).collect();
                for g in ["first_derivative", "second_derivative", "third_derivative"] {
                    if got.get(g).is_some() != listed.iter().any(|l| l == g) { ok = false; why.push(json!({"getter": g, "exists in python": got.get(g).is_some()})); }
                }
                for g in row["getters"].as_array().unwrap() {
                    let name = g[0].as_str().unwrap();
                    let parts: Vec<Value> = g[1].as_array().unwrap().iter().map(|p| want_parts[p.as_str().unwrap()].clone()).collect();
                    let want = if parts.len() == 1 { parts[0].clone() } else { Value::Array(parts) };
                    if got[name] != want { ok = false; why.push(json!({"getter": name, "python": got[name], "model": want})); }
                }
                rep.check(format!("vec-class|{cls}|{label}"), ok, || json!({"driver": driver, "class": cls, "differences": why}));
                Ok(())
            };
            for n in [1usize, 2, 3, 5, 10, 11, 12] {
                let xs: Vec<f64> = (0..n).map(|i| 0.4 + 0.27 * i as f64 + 0.1 * rng.unit()).collect();
                let xlist = format!("[{}]", xs.iter().map(|v| pyf(*v)).collect::<Vec<_>>().join(", "));
                let xv = DVector::from_vec(xs.clone());
                // gradient: DualSVec64 / Dual64Dyn
                let cap = std::cell::RefCell::new(None);
                let _ = gradient(|v: DVector<DualDVec64>| { let e = g2(v.as_slice()) * g1(v.as_slice()); *cap.borrow_mut() = Some(e.clone()); e }, xv.clone());
                let e = cap.into_inner().unwrap();
                let mut parts = BTreeMap::new();
                parts.insert("list eps".to_string(), { let m = e.eps.clone().unwrap_generic(Dyn(n), U1); bl(&mut m.iter().copied()) });
                py.run(&CString::new(format!("__cap = []\nnd.gradient(lambda v: (__cap.append(({G2_PY}) * ({G1_PY})), __cap[-1])[1], {xlist})\n__o = __vsnap(__cap[0])\n")).unwrap(), Some(&locals), Some(&locals))?;
                vcheck(&mut rep, "gradient", format!("n{n}"), parts, e.re, e.to_string())?;
                // hessian: Dual2Vec64 / Dual2_64Dyn
                let cap = std::cell::RefCell::new(None);
                let _ = hessian(|v: DVector<Dual2DVec64>| { let e = g2(v.as_slice()) * g1(v.as_slice()); *cap.borrow_mut() = Some(e.clone()); e }, xv.clone());
                let e = cap.into_inner().unwrap();
                let mut parts = BTreeMap::new();
                parts.insert("list v1".to_string(), { let m = e.v1.clone().unwrap_generic(U1, Dyn(n)); bl(&mut m.iter().copied()) });
                parts.insert("rows v2".to_string(), { let m = e.v2.clone().unwrap_generic(Dyn(n), Dyn(n)); Value::Array((0..n).map(|i| bl(&mut (0..n).map(|j| m[(i, j)]))).collect()) });
                py.run(&CString::new(format!("__cap = []\nnd.hessian(lambda v: (__cap.append(({G2_PY}) * ({G1_PY})), __cap[-1])[1], {xlist})\n__o = __vsnap(__cap[0])\n")).unwrap(), Some(&locals), Some(&locals))?;
                vcheck(&mut rep, "hessian", format!("n{n}"), parts, e.re, e.to_string())?;
            }
            for (m, n) in [(1usize, 1usize), (1, 2), (2, 1), (2, 3), (3, 2), (4, 5), (5, 5), (5, 3), (6, 2), (2, 6)] {
                let xa: Vec<f64> = (0..m).map(|i| 0.4 + 0.27 * i as f64 + 0.1 * rng.unit()).collect();
                let xb: Vec<f64> = (0..n).map(|i| 0.3 + 0.21 * i as f64 + 0.1 * rng.unit()).collect();
                let lst = |v: &[f64]| format!("[{}]", v.iter().map(|v| pyf(*v)).collect::<Vec<_>>().join(", "));
                let cap = std::cell::RefCell::new(None);
                let _ = partial_hessian(|a: DVector<HyperDualDVec64>, b: DVector<HyperDualDVec64>| { let e = g3(a.as_slice(), b.as_slice()); *cap.borrow_mut() = Some(e.clone()); e },
                                        DVector::from_vec(xa.clone()), DVector::from_vec(xb.clone()));
                let e = cap.into_inner().unwrap();
                let mut parts = BTreeMap::new();
                parts.insert("list eps1".to_string(), { let v = e.eps1.clone().unwrap_generic(Dyn(m), U1); bl(&mut v.iter().copied()) });
                parts.insert("list eps2".to_string(), { let v = e.eps2.clone().unwrap_generic(U1, Dyn(n)); bl(&mut v.iter().copied()) });
                parts.insert("rows eps1eps2".to_string(), { let h = e.eps1eps2.clone().unwrap_generic(Dyn(m), Dyn(n)); Value::Array((0..m).map(|i| bl(&mut (0..n).map(|j| h[(i, j)]))).collect()) });
                py.run(&CString::new(format!("__cap = []\nnd.partial_hessian(lambda a, b: (__cap.append({G3_PY}), __cap[-1])[1], {}, {})\n__o = __vsnap(__cap[0])\n", lst(&xa), lst(&xb))).unwrap(), Some(&locals), Some(&locals))?;
                vcheck(&mut rep, "partial_hessian", format!("m{m}n{n}"), parts, e.re, e.to_string())?;
            }
            // scalar drivers
            let x0 = 0.7 + 0.1 * rng.unit();
            let (f, d1, d2, d3) = third_derivative(|v| g1(&[v]), x0);
            py.run(&CString::new(format!("__o = list(nd.third_derivative(lambda w: (lambda v: {G1_PY})([w]), {}))\n", pyf(x0))).unwrap(), Some(&locals), None)?;
            let got: Vec<f64> = locals.get_item("__o")?.unwrap().extract()?;
            let want = vec![f, d1, d2, d3];
            rep.check("driver-fn|third_derivative".into(), got.len() == 4 && got.iter().zip(&want).all(|(a, b)| a.to_bits() == b.to_bits()), || json!({"python": got, "rust": want}));
        }
        let _ = PyList::empty(py);
        numpy_note = numpy;
        Ok(())
    });
    if let Err(e) = res {
        eprintln!("tool error (python): {e}");
        std::process::exit(2);
    }
    println!("{}", json!({"checks": rep.checks, "distinct_cases": rep.per_case.len(), "per_case": rep.per_case, "n_violations": rep.n_viol,
                          "violations": rep.viol, "samples": rep.samples, "numpy": numpy_note, "programs": programs_note}));
}
