//! C11 (and the conversions of C13): nalgebra's RealField / ComplexField / SimdValue and
//! simba's SubsetOf / SupersetOf on the four field-compatible types.  The tables (which
//! FloatConst item a constant forwards to, which generic operation a field method must
//! equal) are exported by TLC from Field.tla; the harness iterates them.
use crate::absval::*;
use crate::emit::Rng;
use nalgebra::{ComplexField, RealField, SimdValue};
use num_dual::*;
use num_traits::{FloatConst, Signed};
use serde_json::{json, Value};
use std::collections::BTreeMap;

pub struct Rep {
    pub checks: u64,
    pub per_case: BTreeMap<String, u64>,
    pub violations: Vec<Value>,
    pub n_viol: u64,
    pub samples: Vec<Value>,
}
impl Rep {
    pub fn ok(&mut self, case: String, ok: bool, detail: impl FnOnce() -> Value) {
        self.checks += 1;
        *self.per_case.entry(case.clone()).or_insert(0) += 1;
        if !ok {
            self.n_viol += 1;
            if self.violations.len() < 8 {
                let mut d = detail();
                d["case"] = json!(case);
                self.violations.push(d);
            }
        }
    }
}

fn float_const<F: FloatConst + std::ops::Add<Output = F>>(name: &str) -> Option<F> {
    Some(match name {
        "PI" => F::PI(), "TAU" => F::TAU(), "FRAC_PI_2" => F::FRAC_PI_2(), "FRAC_PI_3" => F::FRAC_PI_3(),
        "FRAC_PI_4" => F::FRAC_PI_4(), "FRAC_PI_6" => F::FRAC_PI_6(), "FRAC_PI_8" => F::FRAC_PI_8(),
        "FRAC_1_PI" => F::FRAC_1_PI(), "FRAC_2_PI" => F::FRAC_2_PI(), "FRAC_2_SQRT_PI" => F::FRAC_2_SQRT_PI(),
        "E" => F::E(), "LOG2_E" => F::LOG2_E(), "LOG10_E" => F::LOG10_E(), "LN_2" => F::LN_2(), "LN_10" => F::LN_10(),
        "SQRT_2" => F::SQRT_2(), "FRAC_1_SQRT_2" => F::FRAC_1_SQRT_2(),
        _ => return None,
    })
}

fn ulps(a: f64, b: f64, f32mode: bool) -> f64 {
    if a == b || (a.is_nan() && b.is_nan()) { return 0.0; }
    let u = if f32mode { 2f64.powi(-23) } else { 2f64.powi(-52) };
    (a - b).abs() / (u * a.abs().max(b.abs()).max(f64::MIN_POSITIVE))
}

/// all derivative parts zero or absent
fn parts_zero(v: &Value) -> bool {
    let mut m = BTreeMap::new();
    crate::float::flatten_json(v, "", &mut m);
    m.iter().all(|(k, x)| k == ".re" || *x == 0.0)
}
fn re_of(v: &Value) -> f64 {
    f64_from_json(&v["re"]).unwrap_or(f64::NAN)
}
fn neg_json(v: &Value) -> Value {
    match v {
        Value::Array(a) if a.len() == 2 && a[0].is_i64() && a[1].is_i64() => json!([-a[0].as_i64().unwrap(), a[1]]),
        Value::Array(a) => Value::Array(a.iter().map(neg_json).collect()),
        Value::Object(o) => {
            if o.contains_key("f") {
                let x = f64_from_json(v).unwrap();
                return json!({"f": format!("{:#018x}", (-x).to_bits())});
            }
            Value::Object(o.iter().map(|(k, x)| (k.clone(), if k == "p" || k == "dims" { x.clone() } else { neg_json(x) })).collect())
        }
        _ => v.clone(),
    }
}
fn same(a: &Value, b: &Value) -> bool {
    compare(a, b) == Cmp::Same
}
fn num_same(a: &Value, b: &Value) -> bool {
    compare(a, b) != Cmp::Differ
}

macro_rules! field_type {
    ($fname:ident, $T:ty, $F:ty, $key:expr, $mk:expr) => {
        pub fn $fname(consts: &Value, fwd: &Value, seed: u64, samples: usize, rep: &mut Rep) -> Result<(), String> {
            type T = $T;
            type F = $F;
            let f32mode = std::mem::size_of::<F>() == 4;
            let key: &str = $key;
            let mut rng = Rng(seed ^ 0xF1E1D ^ key.len() as u64);
            // sample values: (real part, presence pattern, parts) -> T
            let mk: fn(&mut Rng, f64) -> T = $mk;
            // ---- constants
            for (name, item) in consts.as_object().ok_or("consts")? {
                let item = item.as_str().unwrap_or("");
                if name == "min_value" || name == "max_value" {
                    // Some(constant with the bound of the component type)
                    let c: Option<T> = if name == "min_value" { <T as RealField>::min_value() } else { <T as RealField>::max_value() };
                    let want: F = if item == "MIN" { F::MIN } else { F::MAX };
                    let ok = matches!(&c, Some(v) if v.re.to_bits() == want.to_bits() && parts_zero(&v.to_json()));
                    rep.ok(format!("{key}|const|{name}"), ok, || json!({"observed": c.as_ref().map(|v| v.to_json()), "expected_re": want as f64}));
                    continue;
                }
                let c: T = match name.as_str() {
                    "pi" => <T as RealField>::pi(), "two_pi" => <T as RealField>::two_pi(), "frac_pi_2" => <T as RealField>::frac_pi_2(),
                    "frac_pi_3" => <T as RealField>::frac_pi_3(), "frac_pi_4" => <T as RealField>::frac_pi_4(),
                    "frac_pi_6" => <T as RealField>::frac_pi_6(), "frac_pi_8" => <T as RealField>::frac_pi_8(),
                    "frac_1_pi" => <T as RealField>::frac_1_pi(), "frac_2_pi" => <T as RealField>::frac_2_pi(),
                    "frac_2_sqrt_pi" => <T as RealField>::frac_2_sqrt_pi(), "e" => <T as RealField>::e(),
                    "log2_e" => <T as RealField>::log2_e(), "log10_e" => <T as RealField>::log10_e(),
                    "ln_2" => <T as RealField>::ln_2(), "ln_10" => <T as RealField>::ln_10(),
                    other => return Err(format!("unknown constant {other}")),
                };
                let want: F = float_const::<F>(item).ok_or_else(|| format!("unknown FloatConst item {item}"))?;
                let j = c.to_json();
                rep.ok(format!("{key}|const|{name}"), c.re.to_bits() == want.to_bits() && parts_zero(&j),
                       || json!({"observed": j, "expected_re": want as f64}));
            }
            // the FloatConst impl of the dual type itself (C08: constants have zero derivative parts)
            for item in ["E", "FRAC_1_PI", "FRAC_1_SQRT_2", "FRAC_2_PI", "FRAC_2_SQRT_PI", "FRAC_PI_2", "FRAC_PI_3", "FRAC_PI_4",
                         "FRAC_PI_6", "FRAC_PI_8", "LN_10", "LN_2", "LOG10_E", "LOG2_E", "PI", "SQRT_2"] {
                let c: T = float_const::<T>(item).unwrap();
                let want: F = float_const::<F>(item).unwrap();
                let j = c.to_json();
                rep.ok(format!("{key}|FloatConst|{item}"), c.re.to_bits() == want.to_bits() && parts_zero(&j), || json!({"observed": j}));
            }
            // ---- forwarding table
            for row in fwd.as_array().ok_or("fwd")? {
                let (m, kind, g) = (row[0].as_str().unwrap(), row[1].as_str().unwrap(), row[2].as_str().unwrap());
                // after the random samples: operands whose real part is exactly +0.0 / -0.0 while their derivative parts are
                // not (a zero leg of hypot, a negative-zero sign for copysign, ties of max / min at zero, ...)
                let zero_ok = matches!(m, "hypot" | "atan2" | "copysign" | "max" | "min" | "clamp" | "scale" | "mul_add" | "modulus_squared" | "abs" | "modulus" | "norm1");
                for s in 0..(samples + if zero_ok { 4 } else { 0 }) {
                    let dom: (f64, f64) = match m {
                        "asin" | "acos" | "atanh" => (-0.9, 0.9),
                        "acosh" => (1.1, 6.0),
                        "ln" | "log2" | "log10" | "sqrt" | "log" | "powf" | "powc" | "try_sqrt" if s % 4 != 3 || m != "try_sqrt" => (0.1, 6.0),
                        "ln_1p" => (-0.8, 5.0),
                        "tan" => (-1.3, 1.3),
                        "recip" | "unscale" => (0.2, 4.0),
                        _ => (-4.0, 4.0),
                    };
                    let mut xr = dom.0 + (dom.1 - dom.0) * rng.unit();
                    if m == "try_sqrt" && s % 4 == 3 { xr = -xr; }
                    if f32mode { xr = (xr as f32) as f64; }
                    let special = if s >= samples { s - samples } else { 99 };
                    if special == 2 { xr = 0.0; }
                    if special == 3 { xr = -0.0; }
                    let x: T = mk(&mut rng, xr);
                    let yr = { let v = 0.3 + 2.0 * rng.unit(); if matches!(m, "scale" | "atan2" | "hypot" | "mul_add" | "max" | "min" | "clamp" | "copysign") && rng.below(2) == 0 { -v } else { v } };
                    let yr = if special == 0 { 0.0 } else if special == 1 { -0.0 } else { yr };
                    let y: T = mk(&mut rng, if f32mode { (yr as f32) as f64 } else { yr });
                    let z: T = mk(&mut rng, if f32mode { ((yr + 1.5) as f32) as f64 } else { yr + 1.5 });
                    let case = format!("{key}|{m}");
                    let xj = x.to_json();
                    macro_rules! un { ($cf:ident, $dn:expr, $fl:expr) => {{
                        let r = <T as ComplexField>::$cf(x.clone());
                        let gen: T = $dn;
                        let rj = r.to_json();
                        let flt: F = $fl;
                        rep.ok(case.clone(), same(&rj, &gen.to_json()) && ulps(r.re as f64, flt as f64, f32mode) <= 4.0,
                               || json!({"x": xj, "field": rj, "generic": gen.to_json(), "float": flt as f64}));
                    }}; }
                    match (kind, m) {
                        ("un", "sin") => un!(sin, DualNum::sin(&x), x.re.sin()),
                        ("un", "cos") => un!(cos, DualNum::cos(&x), x.re.cos()),
                        ("un", "tan") => un!(tan, DualNum::tan(&x), x.re.tan()),
                        ("un", "asin") => un!(asin, DualNum::asin(&x), x.re.asin()),
                        ("un", "acos") => un!(acos, DualNum::acos(&x), x.re.acos()),
                        ("un", "atan") => un!(atan, DualNum::atan(&x), x.re.atan()),
                        ("un", "sinh") => un!(sinh, DualNum::sinh(&x), x.re.sinh()),
                        ("un", "cosh") => un!(cosh, DualNum::cosh(&x), x.re.cosh()),
                        ("un", "tanh") => un!(tanh, DualNum::tanh(&x), x.re.tanh()),
                        ("un", "asinh") => un!(asinh, DualNum::asinh(&x), x.re.asinh()),
                        ("un", "acosh") => un!(acosh, DualNum::acosh(&x), x.re.acosh()),
                        ("un", "atanh") => un!(atanh, DualNum::atanh(&x), x.re.atanh()),
                        ("un", "log2") => un!(log2, DualNum::log2(&x), x.re.log2()),
                        ("un", "log10") => un!(log10, DualNum::log10(&x), x.re.log10()),
                        ("un", "ln") => un!(ln, DualNum::ln(&x), x.re.ln()),
                        ("un", "ln_1p") => un!(ln_1p, DualNum::ln_1p(&x), x.re.ln_1p()),
                        ("un", "sqrt") => un!(sqrt, DualNum::sqrt(&x), x.re.sqrt()),
                        ("un", "exp") => un!(exp, DualNum::exp(&x), x.re.exp()),
                        ("un", "exp2") => un!(exp2, DualNum::exp2(&x), x.re.exp2()),
                        ("un", "exp_m1") => un!(exp_m1, DualNum::exp_m1(&x), x.re.exp_m1()),
                        ("un", "cbrt") => un!(cbrt, DualNum::cbrt(&x), x.re.cbrt()),
                        ("un", "recip") => un!(recip, DualNum::recip(&x), x.re.recip()),
                        ("un", "abs") => un!(abs, Signed::abs(&x), x.re.abs()),
                        ("un", "modulus") => un!(modulus, Signed::abs(&x), x.re.abs()),
                        ("un", "norm1") => un!(norm1, Signed::abs(&x), x.re.abs()),
                        ("un", "modulus_squared") => un!(modulus_squared, x.clone() * x.clone(), x.re * x.re),
                        ("id", "real") => { let r = <T as ComplexField>::real(x.clone()); rep.ok(case, same(&r.to_json(), &xj), || json!({"x": xj})); }
                        ("id", "conjugate") => { let r = <T as ComplexField>::conjugate(x.clone()); rep.ok(case, same(&r.to_json(), &xj), || json!({"x": xj})); }
                        ("id", "from_real") => { let r = <T as ComplexField>::from_real(x.clone()); rep.ok(case, same(&r.to_json(), &xj), || json!({"x": xj})); }
                        ("zero", _) => { let r = <T as ComplexField>::imaginary(x.clone()); let rj = r.to_json(); rep.ok(case, r.re == 0.0 && parts_zero(&rj), || json!({"observed": rj})); }
                        ("arg", _) => {
                            // as for real floats: 0 for a non-negative real part, pi for a negative one; a constant
                            let r = <T as ComplexField>::argument(x.clone());
                            let want = <F as ComplexField>::argument(x.re);
                            let rj = r.to_json();
                            rep.ok(case, r.re.to_bits() == want.to_bits() && parts_zero(&rj), || json!({"x": xj, "observed": rj, "float": want as f64}));
                        }
                        ("int", _) => {
                            for n in [-2i32, 0, 1, 2, 3, 5] {
                                let r = <T as ComplexField>::powi(x.clone(), n);
                                let gen = DualNum::powi(&x, n);
                                rep.ok(case.clone(), same(&r.to_json(), &gen.to_json()), || json!({"x": xj, "n": n}));
                            }
                        }
                        ("bin", "powf") => { let r = <T as ComplexField>::powf(x.clone(), y.clone()); let gen = DualNum::powd(&x, y.clone());
                            rep.ok(case, same(&r.to_json(), &gen.to_json()) && ulps(r.re as f64, x.re.powf(y.re) as f64, f32mode) <= 16.0, || json!({"x": xj, "y": y.to_json(), "field": r.to_json(), "generic": gen.to_json()})); }
                        ("bin", "powc") => { let r = <T as ComplexField>::powc(x.clone(), y.clone()); let gen = DualNum::powd(&x, y.clone());
                            rep.ok(case, same(&r.to_json(), &gen.to_json()), || json!({"x": xj, "y": y.to_json()})); }
                        ("bin", "log") => { let b = mk(&mut rng, 2.5); let r = <T as ComplexField>::log(x.clone(), b.clone()); let gen = DualNum::ln(&x) / DualNum::ln(&b);
                            rep.ok(case, same(&r.to_json(), &gen.to_json()) && ulps(r.re as f64, x.re.log(b.re) as f64, f32mode) <= 16.0, || json!({"x": xj, "b": b.to_json(), "field": r.to_json(), "g": g})); }
                        ("bin", "hypot") => { let r = <T as ComplexField>::hypot(x.clone(), y.clone()); let gen = DualNum::sqrt(&(DualNum::powi(&x, 2) + DualNum::powi(&y, 2)));
                            rep.ok(case, same(&r.to_json(), &gen.to_json()) && ulps(r.re as f64, x.re.hypot(y.re) as f64, f32mode) <= 8.0, || json!({"x": xj, "y": y.to_json(), "field": r.to_json()})); }
                        ("bin", "scale") => { let r = <T as ComplexField>::scale(x.clone(), y.clone()); rep.ok(case, same(&r.to_json(), &(x.clone() * y.clone()).to_json()), || json!({"x": xj})); }
                        ("bin", "unscale") => { let r = <T as ComplexField>::unscale(y.clone(), x.clone()); rep.ok(case, same(&r.to_json(), &(y.clone() / x.clone()).to_json()), || json!({"x": xj})); }
                        ("bin", "atan2") => { let r = <T as RealField>::atan2(x.clone(), y.clone()); let gen = DualNum::atan2(&x, y.clone());
                            rep.ok(case, same(&r.to_json(), &gen.to_json()) && r.re.to_bits() == x.re.atan2(y.re).to_bits(), || json!({"x": xj, "y": y.to_json()})); }
                        ("tern", _) => { let r = <T as ComplexField>::mul_add(x.clone(), y.clone(), z.clone()); let gen = DualNum::mul_add(&x, y.clone(), z.clone());
                            rep.ok(case, same(&r.to_json(), &gen.to_json()) && same(&gen.to_json(), &(x.clone() * y.clone() + z.clone()).to_json()), || json!({"x": xj})); }
                        ("opt", _) => { let r = <T as ComplexField>::try_sqrt(x.clone());
                            let ok = if x.re > 0.0 { r.as_ref().map_or(false, |v| same(&v.to_json(), &DualNum::sqrt(&x).to_json())) } else { r.is_none() };
                            rep.ok(case, ok, || json!({"x": xj, "observed": r.as_ref().map(|v| v.to_json())})); }
                        ("pair", _) => { let (s1, c1) = <T as ComplexField>::sin_cos(x.clone()); let (s2, c2) = DualNum::sin_cos(&x);
                            rep.ok(case, same(&s1.to_json(), &s2.to_json()) && same(&c1.to_json(), &c2.to_json()) && same(&s2.to_json(), &DualNum::sin(&x).to_json()) && same(&c2.to_json(), &DualNum::cos(&x).to_json()), || json!({"x": xj})); }
                        ("panic", _) => {
                            let xc = x.clone();
                            let r = std::panic::catch_unwind(std::panic::AssertUnwindSafe(|| match m {
                                "floor" => <T as ComplexField>::floor(xc), "ceil" => <T as ComplexField>::ceil(xc), "round" => <T as ComplexField>::round(xc),
                                "trunc" => <T as ComplexField>::trunc(xc), _ => <T as ComplexField>::fract(xc) }));
                            rep.ok(case, r.is_err(), || json!({"x": xj, "observed": "did not panic"}));
                        }
                        ("sel", "max") => { let r = <T as RealField>::max(x.clone(), y.clone()); let rj = r.to_json();
                            rep.ok(case, (same(&rj, &xj) || same(&rj, &y.to_json())) && r.re == x.re.max(y.re), || json!({"x": xj, "y": y.to_json(), "observed": rj})); }
                        ("sel", "min") => { let r = <T as RealField>::min(x.clone(), y.clone()); let rj = r.to_json();
                            rep.ok(case, (same(&rj, &xj) || same(&rj, &y.to_json())) && r.re == x.re.min(y.re), || json!({"x": xj, "y": y.to_json(), "observed": rj})); }
                        ("sel", "clamp") => {
                            let (lo, hi) = if y.re <= z.re { (y.clone(), z.clone()) } else { (z.clone(), y.clone()) };
                            let r = <T as RealField>::clamp(x.clone(), lo.clone(), hi.clone()); let rj = r.to_json();
                            rep.ok(case, (same(&rj, &xj) || same(&rj, &lo.to_json()) || same(&rj, &hi.to_json())) && r.re == x.re.clamp(lo.re, hi.re), || json!({"x": xj, "lo": lo.to_json(), "hi": hi.to_json(), "observed": rj})); }
                        ("sel", "copysign") => { let r = <T as RealField>::copysign(x.clone(), y.clone()); let rj = r.to_json();
                            rep.ok(case, (same(&rj, &xj) || same(&rj, &neg_json(&xj))) && r.re.to_bits() == x.re.copysign(y.re).to_bits(), || json!({"x": xj, "sign": y.to_json(), "observed": rj})); }
                        ("pred", "is_finite") => rep.ok(case, <T as ComplexField>::is_finite(&x) == x.re.is_finite(), || json!({"x": xj})),
                        ("pred", "is_sign_positive") => rep.ok(case, <T as RealField>::is_sign_positive(&x) == x.re.is_sign_positive(), || json!({"x": xj})),
                        ("pred", "is_sign_negative") => rep.ok(case, <T as RealField>::is_sign_negative(&x) == x.re.is_sign_negative(), || json!({"x": xj})),
                        other => return Err(format!("forwarding table row not handled: {other:?}")),
                    }
                    // ---- ties and equal real parts for the selection methods, lanes (once per sample)
                    if m == "max" {
                        let t: T = mk(&mut rng, x.re as f64);          // same real part, other derivative parts
                        let r = <T as RealField>::max(x.clone(), t.clone());
                        rep.ok(format!("{key}|max|tie"), same(&r.to_json(), &xj) || same(&r.to_json(), &t.to_json()), || json!({"x": xj, "t": t.to_json()}));
                        let r = <T as RealField>::min(x.clone(), t.clone());
                        rep.ok(format!("{key}|min|tie"), same(&r.to_json(), &xj) || same(&r.to_json(), &t.to_json()), || json!({"x": xj, "t": t.to_json()}));
                        // one-lane SIMD view
                        let sp = <T as SimdValue>::splat(x.clone());
                        rep.ok(format!("{key}|simd|splat"), same(&sp.to_json(), &xj), || json!({"x": xj, "observed": sp.to_json()}));
                        let ex = <T as SimdValue>::extract(&x, 0);
                        rep.ok(format!("{key}|simd|extract"), same(&ex.to_json(), &xj), || json!({"x": xj, "observed": ex.to_json()}));
                        let exu = unsafe { <T as SimdValue>::extract_unchecked(&x, 0) };
                        rep.ok(format!("{key}|simd|extract_unchecked"), num_same(&exu.to_json(), &xj), || json!({"x": xj, "observed": exu.to_json()}));
                        let mut rp = x.clone();
                        <T as SimdValue>::replace(&mut rp, 0, y.clone());
                        rep.ok(format!("{key}|simd|replace"), num_same(&rp.to_json(), &y.to_json()), || json!({"x": xj, "y": y.to_json(), "observed": rp.to_json()}));
                        let mut rp2 = x.clone();
                        unsafe { <T as SimdValue>::replace_unchecked(&mut rp2, 0, y.clone()) };
                        rep.ok(format!("{key}|simd|replace_unchecked"), num_same(&rp2.to_json(), &y.to_json()), || json!({"x": xj, "observed": rp2.to_json()}));
                        let s1 = <T as SimdValue>::select(x.clone(), true, y.clone());
                        let s2 = <T as SimdValue>::select(x.clone(), false, y.clone());
                        rep.ok(format!("{key}|simd|select"), same(&s1.to_json(), &xj) && same(&s2.to_json(), &y.to_json()), || json!({"x": xj}));
                        rep.ok(format!("{key}|simd|lanes"), <T as SimdValue>::LANES == 1, || json!({}));
                    }
                }
            }
            if rep.samples.len() < 3 {
                let x = mk(&mut rng, 0.5);
                rep.samples.push(json!({"type": key, "x": x.to_json(), "max(x, pi)": <T as RealField>::max(x.clone(), <T as RealField>::pi()).to_json()}));
            }
            Ok(())
        }
    };
}

fn rpart(rng: &mut Rng, f32mode: bool) -> f64 {
    let v = rng.unit() * 4.0 - 2.0;
    if f32mode { (v as f32) as f64 } else { v }
}

field_type!(f_dual64, Dual64, f64, "Dual:f64", |r, re| Dual64::new(re, rpart(r, false)));
field_type!(f_dual32, Dual32, f32, "Dual:f32", |r, re| Dual32::new(re as f32, rpart(r, true) as f32));
field_type!(f_dual2_64, Dual2_64, f64, "Dual2:f64", |r, re| Dual2_64::new(re, rpart(r, false), rpart(r, false)));
field_type!(f_dual2_32, Dual2_32, f32, "Dual2:f32", |r, re| Dual2_32::new(re as f32, rpart(r, true) as f32, rpart(r, true) as f32));

fn dv<const N: usize>(r: &mut Rng, re: f64) -> DualSVec64<N> {
    let e = if r.below(4) == 0 { Derivative::none() } else { Derivative::some(nalgebra::SVector::<f64, N>::from_fn(|_, _| rpart(r, false))) };
    DualSVec64::<N>::new(re, e)
}
fn dvd(r: &mut Rng, re: f64) -> DualDVec64 {
    let e = if r.below(4) == 0 { Derivative::none() } else { Derivative::some(nalgebra::DVector::<f64>::from_fn(3, |_, _| rpart(r, false))) };
    DualDVec64::new(re, e)
}
fn dv32(r: &mut Rng, re: f64) -> DualSVec32<2> {
    let e = if r.below(4) == 0 { Derivative::none() } else { Derivative::some(nalgebra::SVector::<f32, 2>::from_fn(|_, _| rpart(r, true) as f32)) };
    DualSVec32::<2>::new(re as f32, e)
}
fn d2v<const N: usize>(r: &mut Rng, re: f64) -> Dual2SVec64<N> {
    let v1 = if r.below(4) == 0 { Derivative::none() } else { Derivative::some(nalgebra::RowSVector::<f64, N>::from_fn(|_, _| rpart(r, false))) };
    let v2 = if r.below(3) == 0 { Derivative::none() } else { Derivative::some(nalgebra::SMatrix::<f64, N, N>::from_fn(|_, _| rpart(r, false))) };
    Dual2SVec64::<N>::new(re, v1, v2)
}
fn d2vd(r: &mut Rng, re: f64) -> Dual2DVec64 {
    let v1 = if r.below(4) == 0 { Derivative::none() } else { Derivative::some(nalgebra::RowDVector::<f64>::from_fn(2, |_, _| rpart(r, false))) };
    let v2 = if r.below(3) == 0 { Derivative::none() } else { Derivative::some(nalgebra::DMatrix::<f64>::from_fn(2, 2, |_, _| rpart(r, false))) };
    Dual2DVec64::new(re, v1, v2)
}
fn d2v32(r: &mut Rng, re: f64) -> Dual2SVec32<2> {
    let v1 = if r.below(4) == 0 { Derivative::none() } else { Derivative::some(nalgebra::RowSVector::<f32, 2>::from_fn(|_, _| rpart(r, true) as f32)) };
    let v2 = if r.below(3) == 0 { Derivative::none() } else { Derivative::some(nalgebra::SMatrix::<f32, 2, 2>::from_fn(|_, _| rpart(r, true) as f32)) };
    Dual2SVec32::<2>::new(re as f32, v1, v2)
}
field_type!(f_dualvec2, DualSVec64<2>, f64, "DualVec:2:f64", dv::<2>);
field_type!(f_dualvec3, DualSVec64<3>, f64, "DualVec:3:f64", dv::<3>);
field_type!(f_dualvecd, DualDVec64, f64, "DualVec:dyn:f64", dvd);
field_type!(f_dualvec32, DualSVec32<2>, f32, "DualVec:2:f32", dv32);
field_type!(f_dual2vec2, Dual2SVec64<2>, f64, "Dual2Vec:2:f64", d2v::<2>);
field_type!(f_dual2vecd, Dual2DVec64, f64, "Dual2Vec:dyn:f64", d2vd);
field_type!(f_dual2vec32, Dual2SVec32<2>, f32, "Dual2Vec:2:f32", d2v32);

pub fn run(path: &str, seed: u64, samples: usize) -> Result<Value, String> {
    let text = std::fs::read_to_string(path).map_err(|e| format!("{path}: {e}"))?;
    let mut consts = Value::Null;
    let mut fwd = Value::Null;
    for line in text.lines() {
        if let Some(v) = crate::replay::parse_tagged(line, "FIELDCONST") { consts = v; }
        if let Some(v) = crate::replay::parse_tagged(line, "FIELDFWD") { fwd = v; }
    }
    if consts.is_null() || fwd.is_null() {
        return Err("tables FIELDCONST / FIELDFWD not found".into());
    }
    let mut rep = Rep { checks: 0, per_case: BTreeMap::new(), violations: vec![], n_viol: 0, samples: vec![] };
    f_dual64(&consts, &fwd, seed, samples, &mut rep)?;
    f_dual32(&consts, &fwd, seed, samples, &mut rep)?;
    f_dual2_64(&consts, &fwd, seed, samples, &mut rep)?;
    f_dual2_32(&consts, &fwd, seed, samples, &mut rep)?;
    f_dualvec2(&consts, &fwd, seed, samples, &mut rep)?;
    f_dualvec3(&consts, &fwd, seed, samples, &mut rep)?;
    f_dualvecd(&consts, &fwd, seed, samples, &mut rep)?;
    f_dualvec32(&consts, &fwd, seed, samples, &mut rep)?;
    f_dual2vec2(&consts, &fwd, seed, samples, &mut rep)?;
    f_dual2vecd(&consts, &fwd, seed, samples, &mut rep)?;
    f_dual2vec32(&consts, &fwd, seed, samples, &mut rep)?;
    Ok(json!({"checks": rep.checks, "distinct_cases": rep.per_case.len(), "per_case": rep.per_case, "n_violations": rep.n_viol,
              "violations": rep.violations, "samples": rep.samples}))
}
