//! C18: format the real value, tokenise the string with the model's grammar, parse every
//! printed number back and require exactly the model's tokens and the stored values.
use crate::absval::*;
use crate::calc::*;
use crate::registry::*;
use serde_json::{json, Value};

#[derive(Debug, Clone, PartialEq)]
pub enum Tok {
    Num(u64), // bits of the parsed f64
    Sym(String),
    Plus,
    Open,
    Comma,
    Close,
    Mat(usize, usize),
}

/// Tokenise a Display string.  Matrix boxes (nalgebra) are recognised by their box-drawing
/// characters; consecutive symbols are merged (nested types print "...εε").
pub fn tokenise(s: &str) -> Result<Vec<Tok>, String> {
    let mut out: Vec<Tok> = vec![];
    let chars: Vec<char> = s.chars().collect();
    let mut i = 0;
    let push_sym = |out: &mut Vec<Tok>, t: String| {
        if let Some(Tok::Sym(prev)) = out.last_mut() {
            prev.push_str(&t);
        } else {
            out.push(Tok::Sym(t));
        }
    };
    while i < chars.len() {
        let c = chars[i];
        if c.is_whitespace() {
            i += 1;
            continue;
        }
        if c == '┌' {
            // matrix box: rows are the lines that start with '│'
            let rest: String = chars[i..].iter().collect();
            let end = rest.find('┘').ok_or("unterminated matrix box")?;
            let boxed = &rest[..end];
            let mut rows: Vec<Vec<Tok>> = vec![];
            for line in boxed.lines() {
                let t = line.trim();
                if t.starts_with('│') {
                    let inner = t.trim_start_matches('│').trim_end_matches('│');
                    rows.push(tokenise(inner)?);
                }
            }
            let nums_per_row: Vec<usize> = rows.iter().map(|r| r.len()).collect();
            let r = rows.len();
            // the number of columns cannot be read off for nested entries; report the row count and
            // the total number of tokens, the caller compares the flattened token stream
            out.push(Tok::Mat(r, if r > 0 { nums_per_row[0] } else { 0 }));
            for row in rows {
                out.extend(row);
            }
            i += boxed.chars().count() + 1;
            continue;
        }
        match c {
            '+' if i + 1 < chars.len() && chars[i + 1] == ' ' => {
                out.push(Tok::Plus);
                i += 1;
            }
            '[' => {
                out.push(Tok::Open);
                i += 1;
            }
            ']' => {
                out.push(Tok::Close);
                i += 1;
            }
            ',' => {
                out.push(Tok::Comma);
                i += 1;
            }
            _ => {
                // a number: longest prefix  -?digits(.digits)?  (also "inf", "NaN" never occur: finite values)
                let mut j = i;
                if chars[j] == '-' {
                    j += 1;
                }
                let ds = j;
                while j < chars.len() && chars[j].is_ascii_digit() {
                    j += 1;
                }
                if j > ds {
                    if j + 1 < chars.len() && chars[j] == '.' && chars[j + 1].is_ascii_digit() {
                        j += 1;
                        while j < chars.len() && chars[j].is_ascii_digit() {
                            j += 1;
                        }
                    }
                    let t: String = chars[i..j].iter().collect();
                    let x: f64 = t.parse().map_err(|e| format!("number {t}: {e}"))?;
                    out.push(Tok::Num(x.to_bits()));
                    i = j;
                } else {
                    // a symbol: run of characters up to whitespace or a delimiter
                    let mut j = i;
                    while j < chars.len() && !chars[j].is_whitespace() && !",[]│".contains(chars[j]) {
                        j += 1;
                    }
                    if j == i {
                        return Err(format!("cannot tokenise at {:?}", &chars[i..]));
                    }
                    push_sym(&mut out, chars[i..j].iter().collect());
                    i = j;
                }
            }
        }
    }
    Ok(out)
}

fn model_tokens(v: &Value, f32mode: bool) -> Result<Vec<Tok>, String> {
    let mut out: Vec<Tok> = vec![];
    for t in v.as_array().ok_or("tokens")? {
        let a = t.as_array().ok_or("token")?;
        match a[0].as_str().unwrap_or("") {
            "n" => {
                let x = f64_from_json(&a[1])?;
                let x = if f32mode { (x as f32) as f64 } else { x };
                // what Display prints for f32 is the shortest decimal that round-trips in f32
                out.push(Tok::Num(x.to_bits()));
            }
            "s" => {
                let s = a[1].as_str().unwrap_or("").to_string();
                if let Some(Tok::Sym(prev)) = out.last_mut() {
                    prev.push_str(&s);
                } else {
                    out.push(Tok::Sym(s));
                }
            }
            "+" => out.push(Tok::Plus),
            "[" => out.push(Tok::Open),
            "," => out.push(Tok::Comma),
            "]" => out.push(Tok::Close),
            "M" => out.push(Tok::Mat(a[1].as_u64().unwrap() as usize, a[2].as_u64().unwrap() as usize)),
            x => return Err(format!("unknown token {x}")),
        }
    }
    Ok(out)
}

struct Show<'a> {
    v: &'a Value,
}
impl<'a> TypeFn for Show<'a> {
    type Out = Result<String, String>;
    fn call<T: Calc>(self) -> Self::Out {
        // f32 types: values that are not f32 numbers are rounded first (the case generator is shared)
        let x = T::from_json(self.v).or_else(|_| T::from_json(&round_f32(self.v)))?;
        Ok(x.show())
    }
}
struct ShowSpec<'a> {
    v: &'a Value,
    spec: &'a str,
}
impl<'a> TypeFn for ShowSpec<'a> {
    type Out = Result<String, String>;
    fn call<T: Calc>(self) -> Self::Out {
        let x = T::from_json(self.v).or_else(|_| T::from_json(&round_f32(self.v)))?;
        x.show_spec(self.spec).ok_or(format!("format spec {} of Render.tla is unknown to the harness", self.spec))
    }
}

pub fn round_f32(v: &Value) -> Value {
    match v {
        Value::Array(a) if a.len() == 2 && a[0].is_i64() && a[1].is_i64() => {
            let x = a[0].as_i64().unwrap() as f64 / a[1].as_i64().unwrap() as f64;
            json!({"f": format!("{:#018x}", ((x as f32) as f64).to_bits())})
        }
        Value::Array(a) => Value::Array(a.iter().map(round_f32).collect()),
        Value::Object(o) => Value::Object(o.iter().map(|(k, x)| (k.clone(), round_f32(x))).collect()),
        _ => v.clone(),
    }
}

/// for f32 the printed number parses (as f32) to the stored f32
fn same_tokens(obs: &[Tok], model: &[Tok], f32mode: bool) -> bool {
    if obs.len() != model.len() {
        return false;
    }
    obs.iter().zip(model).all(|(o, m)| match (o, m) {
        (Tok::Num(a), Tok::Num(b)) => {
            if f32mode {
                (f64::from_bits(*a) as f32).to_bits() == (f64::from_bits(*b) as f32).to_bits()
            } else {
                a == b
            }
        }
        (Tok::Mat(r1, _), Tok::Mat(r2, _)) => r1 == r2,
        _ => o == m,
    })
}

pub fn render_file(path: &str) -> Result<Value, String> {
    let text = std::fs::read_to_string(path).map_err(|e| format!("{path}: {e}"))?;
    let mut cases = 0u64;
    let mut spec_cases = 0u64;
    let mut per_type = std::collections::BTreeMap::<String, u64>::new();
    let mut mismatches = vec![];
    let mut samples = vec![];
    for line in text.lines() {
        let Some(case) = crate::replay::parse_tagged(line, "RENDER") else { continue };
        for key in keys_for(&case["ty"], 24) {
            let f32mode = key.ends_with("f32");
            let shown = match dispatch(key, Show { v: &case["v"] }) {
                Some(Ok(s)) => s,
                Some(Err(e)) => return Err(format!("{key}: {e}")),
                None => continue,
            };
            cases += 1;
            *per_type.entry(key.to_string()).or_insert(0) += 1;
            let model = model_tokens(&case["tokens"], f32mode)?;
            let ok = match tokenise(&shown) {
                Ok(obs) => same_tokens(&obs, &model, f32mode),
                Err(_) => false,
            };
            if !ok && mismatches.len() < 5 {
                mismatches.push(json!({"type": key, "value": case["v"], "rendered": shown,
                    "expected_tokens": case["tokens"], "observed_tokens": format!("{:?}", tokenise(&shown))}));
            }
            // the same value under the other format specs of the model: the text must still carry exactly the stored values
            for spec in case["specs"].as_array().map(|a| a.as_slice()).unwrap_or(&[]) {
                let spec = spec.as_str().unwrap_or("");
                if spec == "{}" { continue; }
                let shown_s = match dispatch(key, ShowSpec { v: &case["v"], spec }) {
                    Some(Ok(s)) => s,
                    Some(Err(e)) => return Err(format!("{key}: {e}")),
                    None => continue,
                };
                spec_cases += 1;
                let ok = match tokenise(shown_s.trim()) {
                    Ok(obs) => same_tokens(&obs, &model, f32mode),
                    Err(_) => false,
                };
                if !ok && mismatches.len() < 5 {
                    mismatches.push(json!({"type": key, "value": case["v"], "format_spec": spec, "rendered": shown_s, "rendered_plain": shown,
                        "expected_tokens": case["tokens"], "observed_tokens": format!("{:?}", tokenise(shown_s.trim()))}));
                }
            }
            if samples.len() < 4 && cases % 97 == 1 {
                samples.push(json!({"type": key, "rendered": shown}));
            }
        }
    }
    Ok(json!({"cases": cases, "format_spec_cases": spec_cases, "per_type": per_type, "mismatches": mismatches, "samples": samples}))
}
