//! C10 / C14 / C15: special points, spherical and cylindrical Bessel functions.
//! Oracles are TLC exports only: the closed-form towers (Towers.tla), the Taylor series at
//! zero (Special.tla, SERIES lines) and the chain-rule tables (Tables.tla).
use crate::calc::*;
use crate::emit::Rng;
use crate::float::*;
use crate::prog::*;
use crate::registry::*;
use num_dual::{BesselDual, DualNum};
use serde_json::{json, Value};
use std::collections::{BTreeMap, HashMap};

pub struct Series {
    pub coef: Vec<f64>,
}

pub fn load_series(paths: &[String]) -> Result<HashMap<String, Series>, String> {
    let mut out = HashMap::new();
    for p in paths {
        let text = std::fs::read_to_string(p).map_err(|e| format!("{p}: {e}"))?;
        for line in text.lines() {
            if let Some(v) = crate::replay::parse_tagged(line, "SERIES") {
                let name = v["fn"].as_str().unwrap_or("").to_string();
                let mut coef: Vec<f64> = v["coef"].as_array().ok_or("coef")?.iter().map(|c| c[0].as_f64().unwrap() / c[1].as_f64().unwrap()).collect();
                // the closed forms of sph_j* were divided by x^p: the top p coefficients are cut off
                let cut = match name.as_str() { "sph_j0" => 1, "sph_j1" => 2, "sph_j2" => 3, _ => 0 };
                coef.truncate(coef.len() - cut);
                out.insert(name, Series { coef });
            }
        }
    }
    Ok(out)
}

/// derivatives 0..4 of the series at x, each with the sum of the magnitudes of its terms
pub fn series_tower(s: &Series, x: f64, u: f64) -> Vec<VE> {
    (0..5usize)
        .map(|k| {
            let mut v = 0.0;
            let mut m = 0.0;
            for j in 0..s.coef.len().saturating_sub(k) {
                let mut f = 1.0;
                for i in 0..k {
                    f *= (j + k - i) as f64;
                }
                let t = s.coef[j + k] * f * x.powi(j as i32);
                v += t;
                m += t.abs();
            }
            // truncation: Special.tla's CoefDecay (|a[d+2]| (d+1)(d+2) <= |a[d]|, alternating signs) bounds the remainder by
            // the first omitted term
            let d = (0..s.coef.len()).rev().find(|&j| s.coef[j] != 0.0).unwrap_or(0);
            let rem = if d + 2 >= k {
                let mut f = 1.0;
                for i in 0..k { f *= (d + 2 - i) as f64; }
                s.coef[d].abs() / (((d + 1) * (d + 2)) as f64) * f * x.abs().powi((d + 2 - k) as i32)
            } else { 0.0 };
            VE { v, e: 8.0 * u * m + rem }
        })
        .collect()
}

/// J_n by the ascending series whose coefficients obey the recurrence of Special.tla
/// (BesCoef: a_k = -a_{k-2} / (k^2 - n^2)); accurate to ~1e-13 absolutely for |x| <= 10
pub fn bessel_series(n: usize, x: f64) -> f64 {
    let mut a = match n { 0 => 1.0, 1 => 0.5, _ => 0.125 };
    let mut k = n;
    let mut sum = 0.0;
    let mut xp = x.powi(n as i32);
    for _ in 0..60 {
        sum += a * xp;
        k += 2;
        a = -a / ((k * k - n * n) as f64);
        xp *= x * x;
    }
    sum
}

#[derive(Clone, Copy, PartialEq, Debug)]
pub enum Verdict {
    Ok,
    Known,
    Bad,
}

#[derive(Default)]
pub struct SpecReport {
    pub evaluations: u64,
    pub parts: u64,
    pub per_case: BTreeMap<String, u64>,
    pub known: BTreeMap<String, u64>,
    pub violations: Vec<Value>,
    pub n_viol: u64,
    pub samples: Vec<Value>,
    pub worst_strict: f64,
    pub worst_by_order: BTreeMap<String, f64>,
}

pub struct SpecSweep<'a> {
    pub tabs: &'a Tables,
    pub series: &'a HashMap<String, Series>,
    pub table: &'a Table,
    pub what: &'a str,
    pub samples: usize,
    pub seed: u64,
    pub rep: &'a mut SpecReport,
}

pub fn sph_points(f32mode: bool) -> Vec<f64> {
    let eps = if f32mode { f32::EPSILON as f64 } else { f64::EPSILON };
    let tiny = if f32mode { f32::MIN_POSITIVE as f64 } else { f64::MIN_POSITIVE };
    let mut v = vec![0.0, tiny, 1e-30, eps / 4.0, eps * 0.99, eps, eps * 1.01, 2.0 * eps, 1e-8, 1e-6, 1e-5, 1e-4, 1e-3,
                     0.01, 0.02, 0.05, 0.1, 0.15, 0.2, 0.24, 0.25, 0.29, 0.2999999, 0.3, 0.3000001, 0.35, 0.7, 0.99, 1.0, 1.5, 3.14159, 4.4934, 7.0, 12.3, 25.0, 49.9, 50.0];
    let neg: Vec<f64> = v.iter().filter(|x| **x != 0.0).map(|x| -x).collect();
    v.extend(neg);
    v
}

/// Special.tla's argument classes of the cylindrical Bessel functions: every class (both signs, both sides of every
/// switch) must contain a sweep argument; returns (class, number of arguments, branches of J0 / J1 / J2)
pub fn bessel_class_coverage(paths: &[String]) -> Result<Vec<Value>, String> {
    let mut out = vec![];
    for p in paths {
        let text = std::fs::read_to_string(p).map_err(|e| format!("{p}: {e}"))?;
        for line in text.lines() {
            let Some(classes) = crate::replay::parse_tagged(line, "BESSELCLASSES") else { continue };
            for c in classes.as_array().ok_or("classes")? {
                let q = |v: &Value| v[0].as_f64().unwrap_or(f64::NAN) / v[1].as_f64().unwrap_or(f64::NAN);
                let (lo, hi, sign) = (q(&c["lo"]), q(&c["hi"]), c["sign"].as_i64().unwrap_or(0));
                let n = bessel_points().iter().filter(|x| if sign == 0 { **x == 0.0 } else { **x != 0.0 && x.signum() == sign as f64 && x.abs() >= lo && x.abs() < hi }).count();
                if n == 0 {
                    return Err(format!("vacuity: no sweep argument in the Bessel argument class {}", c["cls"]));
                }
                out.push(json!({"cls": c["cls"], "arguments": n, "j0": c["j0"], "j1": c["j1"], "j2": c["j2"]}));
            }
        }
    }
    Ok(out)
}

pub fn bessel_points() -> Vec<f64> {
    let up = |x: f64| f64::from_bits(x.to_bits() + 1);
    let dn = |x: f64| f64::from_bits(x.to_bits() - 1);
    let mut v = vec![0.0, f64::MIN_POSITIVE, 1e-300, 1e-20, 1e-8, dn(1e-5), 1e-5, up(1e-5), 2e-5, 1e-4, 1e-3, 0.01, 0.04, 0.05, 0.1,
                     0.5, 1.0, 2.4048, 3.8317, 4.5, dn(5.0), 5.0, up(5.0), 5.5, 7.0, 9.9, 10.0, 10.1, 14.9, 25.0, 40.0, 59.9, 60.0];
    let neg: Vec<f64> = v.iter().filter(|x| **x != 0.0).map(|x| -x).collect();
    v.extend(neg);
    v
}

const K_STRICT: f64 = 256.0;
const K_COND: f64 = 4096.0;

impl<'a> TypeFn for SpecSweep<'a> {
    type Out = Result<(), String>;
    fn call<T: Calc>(self) -> Result<(), String> {
        let f32mode = T::MANT < 53;
        let u = if f32mode { 2f64.powi(-24) } else { 2f64.powi(-53) };
        let rnd = |x: f64| if f32mode { (x as f32) as f64 } else { x };
        let tt = tables_for(self.tabs, &self.table.ty).ok_or("tables")?;
        let nderiv = tt.chain.nderiv;
        let rf = Ref { tabs: self.tabs, tt, u, floor: false };
        let mut rng = Rng(self.seed ^ 0x5BEC1A1 ^ ((T::KEY.len() as u64) << 24));
        let (fns, points): (Vec<&str>, Vec<f64>) = match self.what {
            "sph" => (vec!["sph_j0", "sph_j1", "sph_j2"], sph_points(f32mode)),
            _ => (vec!["bessel_j0", "bessel_j1", "bessel_j2"], bessel_points()),
        };
        if self.what == "bessel" && f32mode {
            return Ok(());
        }
        for fname in &fns {
            let ser = self.series.get(*fname).ok_or_else(|| format!("no series for {fname}"))?;
            let closed = self.tabs.towers.get(*fname).ok_or_else(|| format!("no tower {fname}"))?;
            for &x0 in &points {
                let x = rnd(x0);
                for _ in 0..self.samples {
                    // operand
                    let mut a = Jet::new();
                    for (path, _, _) in &self.table.parts {
                        let v = if *path == self.table.re { x } else { rnd(rng.unit() * 4.0 - 2.0) };
                        a.insert(path.clone(), VE { v, e: 0.0 });
                    }
                    // oracle towers: "true" (well conditioned) and "cond" (what the cancellation of the
                    // documented closed form / recurrence can explain)
                    let ax = x.abs();
                    let (j0v, j1v) = if self.what == "bessel" {
                        if ax <= 10.0 { (bessel_series(0, x), bessel_series(1, x)) } else { (<f64 as BesselDual>::bessel_j0(x), <f64 as BesselDual>::bessel_j1(x)) }
                    } else { (0.0, 0.0) };
                    let par = Params { base: 0.0, n: 0.0, j0: Some(j0v), j1: Some(j1v) };
                    let closed_tw = || -> Result<Vec<VE>, String> {
                        closed.iter().map(|p| {
                            let r = eval_poly(p, &|g| generator(g, x, &par).map(|v| VM { v, m: v.abs() }))?;
                            // absolute accuracy of the J0/J1 oracle (series / library values): 2e-13
                            let extra = if self.what == "bessel" { 2e-13 * (1.0 + 1.0 / ax.max(1e-3)).powi(4) } else { 0.0 };
                            Ok(VE { v: r.v, e: 8.0 * u * r.m + extra })
                        }).collect()
                    };
                    let series_limit = if self.what == "bessel" { 0.05 } else { 0.3 };
                    let mut tw_true: Vec<VE> = if ax <= series_limit { series_tower(ser, x, u) } else { closed_tw()? };
                    if self.what == "sph" && ax >= 0.25 && ax <= series_limit {
                        // a band below the series limit in which either algorithm is accepted: the closed form evaluated in
                        // floats may lose what its own terms say (the switch of the implementation is not part of the oracle)
                        let c = closed_tw()?;
                        for (t, cc) in tw_true.iter_mut().zip(&c) { t.e += cc.e; }
                    }
                    if self.what == "bessel" {
                        // C14 asks for near machine ABSOLUTE accuracy of J_n (all derivatives of J_n are O(1))
                        for t in tw_true.iter_mut() { t.e = t.e.max(4.0 * u); }
                    }
                    let tw_cond: Vec<VE> = if ax == 0.0 { tw_true.clone() } else { closed_tw()? };
                    let eval_with = |tw: &[VE]| -> Result<Jet, String> {
                        let mut out = Jet::new();
                        for (path, _, poly) in &rf.tt.chain.parts {
                            let r = eval_poly_err(poly, &|s| {
                                if let Some(k) = s.strip_prefix('f') { if let Ok(k) = k.parse::<usize>() { return tw.get(k).copied(); } }
                                s.strip_prefix('a').and_then(|p| a.get(p).copied())
                            }, u)?;
                            out.insert(path.clone(), r);
                        }
                        Ok(out)
                    };
                    let want = eval_with(&tw_true)?;
                    // magnitude of the operand-part products alone (all tower entries replaced by 1)
                    let ones: Vec<VE> = (0..5).map(|_| VE { v: 1.0, e: 0.0 }).collect();
                    let aabs: Jet = a.iter().map(|(p, x)| (p.clone(), VE { v: x.v.abs(), e: 0.0 })).collect();
                    let unit = {
                        let mut out = Jet::new();
                        for (path, _, poly) in &rf.tt.chain.parts {
                            let absp: Poly = poly.iter().map(|(c, es)| (c.abs(), es.clone())).collect();
                            let r = eval_poly_err(&absp, &|s| {
                                if let Some(k) = s.strip_prefix('f') { if let Ok(k) = k.parse::<usize>() { return ones.get(k).copied(); } }
                                s.strip_prefix('a').and_then(|p| aabs.get(p).copied())
                            }, u)?;
                            out.insert(path.clone(), r);
                        }
                        out
                    };
                    let cond = eval_with(&tw_cond)?;
                    // the real crate
                    let operand = T::from_json(&build_json(&self.table.ty, "a", &jet_to_map(&a, "a"), &[]))?;
                    let ev = Ev::from_json(&json!({"op": fname, "a": 1, "b": 1, "c": 1, "d": 1})).unwrap();
                    let res = std::panic::catch_unwind(std::panic::AssertUnwindSafe(|| T::apply(&[operand.clone()], &ev)));
                    let val = match res {
                        Ok(Ok(Out::Val(v))) => v,
                        Ok(Ok(Out::Unsupported)) => return Ok(()),      // bessel on a type without the trait
                        Ok(Ok(_)) => return Err("no value".into()),
                        Ok(Err(e)) => return Err(e),
                        Err(_) => {
                            self.rep.n_viol += 1;
                            if self.rep.violations.len() < 5 { self.rep.violations.push(json!({"type": T::KEY, "fn": fname, "x": x, "observed": "panic"})); }
                            continue;
                        }
                    };
                    let mut got = BTreeMap::new();
                    flatten_json(&val.to_json(), "", &mut got);
                    self.rep.evaluations += 1;
                    *self.rep.per_case.entry(format!("{}|{}", T::KEY, fname)).or_insert(0) += 1;
                    for (path, order, _) in &self.table.parts {
                        if *order > 4 || nderiv > 4 && *order > 4 { continue; }
                        let w = want[path];
                        let c = cond[path];
                        let obs = *got.get(path).unwrap_or(&0.0);
                        let err = (obs - w.v).abs();
                        self.rep.parts += 1;
                        // "magnitude of the true value plus the rounding level of a well-conditioned evaluation"
                        // results below the subnormal range of the format underflow to zero
                        let floor = if f32mode { 2f64.powi(-147) } else { 2f64.powi(-1072) };
                        let strict = K_STRICT * (w.e + u * w.v.abs()) + floor;
                        let condtol = K_COND * (c.e + u * c.v.abs()) + strict;
                        {
                            let r = err / (u * unit[path].v.max(1e-300));
                            let key = format!("{}|order{}|{}", fname, order, if ax < 0.05 { "<0.05" } else if ax <= 5.0 { "<=5" } else { ">5" });
                            let wq = self.rep.worst_by_order.entry(key).or_insert(0.0);
                            if r.is_finite() && r > *wq { *wq = r; }
                        }
                        // cylindrical functions: the derivative parts come from differentiating rational /
                        // asymptotic approximations, whose derivative accuracy degrades with the order; the
                        // factors are 8 x the worst error observed on the repaired tree (DESIGN.md, C14)
                        let strict = if self.what == "bessel" {
                            let fac = if ax <= 5.0 { [64.0, 1.0e3, 2.0e4, 5.0e5, 2.0e6][(*order).min(4)] } else { [8.0e3, 8.0e3, 8.0e3, 8.0e3, 2.5e4][(*order).min(4)] };
                            strict + fac * u * unit[path].v
                        } else { strict };
                        let ratio = err / strict;
                        if ratio.is_finite() && ratio > self.rep.worst_strict && err <= strict && !known_range(fname, ax, *order, f32mode) { self.rep.worst_strict = ratio; }
                        // f32: 1/x^6 in the quotient rule of the closed form overflows next to epsilon
                        let overflow_known = f32mode && !obs.is_finite() && ax < 1e-4 && known_range(fname, ax, *order, f32mode);
                        let verdict = if err <= strict { Verdict::Ok }
                            else if (err <= condtol || overflow_known) && known_range(fname, ax, *order, f32mode) { Verdict::Known }
                            else { Verdict::Bad };
                        match verdict {
                            Verdict::Ok => {}
                            Verdict::Known => { *self.rep.known.entry(known_key(fname).to_string()).or_insert(0) += 1; }
                            Verdict::Bad => {
                                self.rep.n_viol += 1;
                                if self.rep.violations.len() < 6 {
                                    self.rep.violations.push(json!({"type": T::KEY, "fn": fname, "x": x, "part": path, "order": order,
                                        "operand": operand.to_json(), "expected": w.v, "observed": obs, "error": err,
                                        "strict_tolerance": strict, "cancellation_tolerance": condtol}));
                                }
                                break;
                            }
                        }
                    }
                    if self.rep.samples.len() < 3 && x0 == 1.5 {
                        self.rep.samples.push(json!({"type": T::KEY, "fn": fname, "x": x, "result": val.to_json()}));
                    }
                }
            }
        }
        Ok(())
    }
}

/// the committed known findings (see /verif/KNOWN_FINDINGS): argument ranges in which the
/// documented closed form / recurrence loses accuracy by cancellation
pub fn known_range(fname: &str, ax: f64, order: usize, f32mode: bool) -> bool {
    let _ = (ax, order, f32mode);
    match fname {
        // (sph_j0/1/2: repaired -- series below 0.3 --, bessel_j2: repaired, see KNOWN_FINDINGS; no open finding)
        _ => false,
    }
}
pub fn known_key(fname: &str) -> &'static str {
    match fname {
        "sph_j0" | "sph_j1" | "sph_j2" => "sph-small-arg",
        _ => "j2-near-zero",
    }
}

pub fn special_sweep(tabs: &Tables, series: &HashMap<String, Series>, what: &str, samples: usize, seed: u64, only: Option<&str>) -> Result<Value, String> {
    let mut rep = SpecReport::default();
    for table in tabs.tables.iter().filter(|t| t.op == "chain") {
        for key in keys_for(&table.ty, 24) {
            if let Some(f) = only { if !key.contains(f) { continue; } }
            if let Some(r) = dispatch(key, SpecSweep { tabs, series, table, what, samples, seed, rep: &mut rep }) { r?; }
        }
    }
    // plain floats (C15: "for plain floats and for every dual number type")
    let mut plain = 0u64;
    let mut plain_known = 0u64;
    if what == "sph" {
        for (fname, f64f, f32f) in [
            ("sph_j0", <f64 as DualNum<f64>>::sph_j0 as fn(&f64) -> f64, <f32 as DualNum<f32>>::sph_j0 as fn(&f32) -> f32),
            ("sph_j1", <f64 as DualNum<f64>>::sph_j1, <f32 as DualNum<f32>>::sph_j1),
            ("sph_j2", <f64 as DualNum<f64>>::sph_j2, <f32 as DualNum<f32>>::sph_j2),
        ] {
            let ser = &series[fname];
            let closed = &tabs.towers[fname];
            for f32mode in [false, true] {
                let u = if f32mode { 2f64.powi(-24) } else { 2f64.powi(-53) };
                for x0 in sph_points(f32mode) {
                    let x = if f32mode { (x0 as f32) as f64 } else { x0 };
                    let obs = if f32mode { f32f(&(x as f32)) as f64 } else { f64f(&x) };
                    let par = Params::default();
                    let t = if x.abs() <= 0.3 { series_tower(ser, x, u)[0] } else {
                        let r = eval_poly(&closed[0], &|g| generator(g, x, &par).map(|v| VM { v, m: v.abs() }))?;
                        VE { v: r.v, e: 8.0 * u * r.m }
                    };
                    let cm = if x == 0.0 { 0.0 } else { eval_poly(&closed[0], &|g| generator(g, x, &par).map(|v| VM { v, m: v.abs() }))?.m };
                    let t = if x.abs() >= 0.25 && x.abs() <= 0.3 { VE { v: t.v, e: t.e + 8.0 * u * cm } } else { t };
                    let err = (obs - t.v).abs();
                    let strict = K_STRICT * (t.e + u * t.v.abs()) + if f32mode { 2f64.powi(-147) } else { 2f64.powi(-1072) };
                    plain += 1;
                    if err <= strict { continue; }
                    if err <= K_COND * u * cm + strict && known_range(fname, x.abs(), 1, f32mode) {
                        plain_known += 1;
                        *rep.known.entry("sph-small-arg".to_string()).or_insert(0) += 1;
                        continue;
                    }
                    rep.n_viol += 1;
                    if rep.violations.len() < 6 {
                        rep.violations.push(json!({"type": if f32mode { "f32" } else { "f64" }, "fn": fname, "x": x, "expected": t.v, "observed": obs, "error": err, "strict_tolerance": strict}));
                    }
                }
            }
        }
    }
    Ok(json!({"evaluations": rep.evaluations + plain, "parts_compared": rep.parts, "per_case": rep.per_case,
              "distinct_cases": rep.per_case.len(), "known": rep.known, "plain_float_points": plain, "plain_float_known": plain_known,
              "n_violations": rep.n_viol, "violations": rep.violations, "samples": rep.samples,
              "worst_ratio": {"strict": rep.worst_strict}, "worst_by_order": rep.worst_by_order}))
}


/// C14: exact parity (J0, J2 even, J1 odd as jets, bit for bit because the code negates the
/// argument), the ODE x^2 y'' + x y' + (x^2 - n^2) y = 0 on second-order results, and the cross
/// relations J0' = -J1, 2 J1' = J0 - J2 between the independently approximated functions.
pub fn bessel_parity(seed: u64, samples: usize) -> Value {
    use num_dual::*;
    let mut rng = Rng(seed ^ 0xBE55E1);
    let mut viol: Vec<Value> = vec![];
    let mut n = 0u64;
    for _ in 0..samples {
        let x = match rng.below(4) { 0 => rng.unit() * 5.0, 1 => 5.0 + rng.unit() * 55.0, 2 => rng.unit() * 0.3, _ => rng.unit() * 60.0 };
        let (v1, v2, v3) = (rng.unit() * 4.0 - 2.0, rng.unit() * 4.0 - 2.0, rng.unit() * 4.0 - 2.0);
        let a = Dual3_64::new(x, v1, v2, v3);
        let b = Dual3_64::new(-x, -v1, -v2, -v3);
        for (name, fa, fb, sign) in [("bessel_j0", a.bessel_j0(), b.bessel_j0(), 1.0), ("bessel_j1", a.bessel_j1(), b.bessel_j1(), -1.0),
                                      ("bessel_j2", a.bessel_j2(), b.bessel_j2(), 1.0)] {
            n += 1;
            let same = |p: f64, q: f64| (p == sign * q) || (p.is_nan() && q.is_nan());
            if !(same(fa.re, fb.re) && same(fa.v1, fb.v1) && same(fa.v2, fb.v2) && same(fa.v3, fb.v3)) {
                if viol.len() < 5 { viol.push(json!({"what": "parity", "fn": name, "x": x, "plus": format!("{fa}"), "minus": format!("{fb}")})); }
            }
        }
        // ODE residual and cross relations on Dual2 (unit seed): y = re, y' = v1, y'' = v2
        let t = Dual2_64::new(x, 1.0, 0.0);
        let (j0, j1, j2) = (t.bessel_j0(), t.bessel_j1(), t.bessel_j2());
        if x > 0.3 {
            for (nn, y) in [(0.0, j0), (1.0, j1), (2.0, j2)] {
                n += 1;
                let res = x * x * y.v2 + x * y.v1 + (x * x - nn * nn) * y.re;
                let scale = x * x * (y.v2.abs() + y.re.abs()) + x * y.v1.abs() + 1.0;
                if !(res.abs() <= 1e-9 * scale) {
                    if viol.len() < 5 { viol.push(json!({"what": "ODE residual", "n": nn, "x": x, "residual": res, "scale": scale})); }
                }
            }
            n += 2;
            if !((j0.v1 + j1.re).abs() <= 1e-11) {
                if viol.len() < 5 { viol.push(json!({"what": "J0' = -J1", "x": x, "lhs": j0.v1, "rhs": -j1.re})); }
            }
            if !((2.0 * j1.v1 - (j0.re - j2.re)).abs() <= 1e-10) {
                if viol.len() < 5 { viol.push(json!({"what": "2 J1' = J0 - J2", "x": x, "lhs": 2.0 * j1.v1, "rhs": j0.re - j2.re})); }
            }
        }
    }
    json!({"evaluations": n, "violations": viol})
}
