//! Concrete configurations of the machine and the dispatch from a type key.
use crate::absval::*;
use crate::calc::*;
use crate::impl_calc;
use num_dual::*;
use num_traits::{Inv, One, Signed, Zero};
use serde_json::Value;

pub trait TypeFn {
    type Out;
    fn call<T: Calc>(self) -> Self::Out;
}

macro_rules! registry {
    ($(($key:expr, $T:ty, $F:ty, $mant:expr, $ord:ident, $bes:ident)),* $(,)?) => {
        $(impl_calc!($key, $T, $F, $mant, $ord, $bes);)*
        pub const ALL_KEYS: &[&str] = &[$($key),*];
        pub fn dispatch<V: TypeFn>(key: &str, v: V) -> Option<V::Out> {
            match key {
                $($key => Some(v.call::<$T>()),)*
                _ => None,
            }
        }
    };
}

registry! {
    ("Dual:f64", Dual64, f64, 53, ord, bes),
    ("Dual:f32", Dual32, f32, 24, ord, nobes),
    ("Dual2:f64", Dual2_64, f64, 53, ord, bes),
    ("Dual2:f32", Dual2_32, f32, 24, ord, nobes),
    ("Dual3:f64", Dual3_64, f64, 53, noord, bes),
    ("Dual3:f32", Dual3_32, f32, 24, noord, nobes),
    ("HyperDual:f64", HyperDual64, f64, 53, noord, bes),
    ("HyperDual:f32", HyperDual32, f32, 24, noord, nobes),
    ("HHD:f64", HyperHyperDual64, f64, 53, noord, bes),
    ("HHD:f32", HyperHyperDual32, f32, 24, noord, nobes),
    ("DualVec:1:f64", DualSVec64<1>, f64, 53, ord, bes),
    ("DualVec:2:f64", DualSVec64<2>, f64, 53, ord, bes),
    ("DualVec:3:f64", DualSVec64<3>, f64, 53, ord, bes),
    ("DualVec:dyn:f64", DualDVec64, f64, 53, ord, nobes),
    ("DualVec:2:f32", DualSVec32<2>, f32, 24, ord, nobes),
    ("DualVec:dyn:f32", DualDVec32, f32, 24, ord, nobes),
    ("Dual2Vec:1:f64", Dual2SVec64<1>, f64, 53, ord, bes),
    ("Dual2Vec:2:f64", Dual2SVec64<2>, f64, 53, ord, bes),
    ("Dual2Vec:3:f64", Dual2SVec64<3>, f64, 53, ord, bes),
    ("Dual2Vec:dyn:f64", Dual2DVec64, f64, 53, ord, nobes),
    ("Dual2Vec:2:f32", Dual2SVec32<2>, f32, 24, ord, nobes),
    ("Dual2Vec:dyn:f32", Dual2DVec32, f32, 24, ord, nobes),
    ("HyperDualVec:1x1:f64", HyperDualSVec64<1, 1>, f64, 53, noord, bes),
    ("HyperDualVec:1x2:f64", HyperDualSVec64<1, 2>, f64, 53, noord, bes),
    ("HyperDualVec:2x1:f64", HyperDualSVec64<2, 1>, f64, 53, noord, bes),
    ("HyperDualVec:2x2:f64", HyperDualSVec64<2, 2>, f64, 53, noord, bes),
    ("HyperDualVec:2x3:f64", HyperDualSVec64<2, 3>, f64, 53, noord, bes),
    ("HyperDualVec:dyn:f64", HyperDualDVec64, f64, 53, noord, nobes),
    ("HyperDualVec:2x2:f32", HyperDualSVec32<2, 2>, f32, 24, noord, nobes),
    ("HyperDualVec:dyn:f32", HyperDualDVec32, f32, 24, noord, nobes),
    // nestings (the scalar of a dual number is a dual number)
    ("Dual<Dual>:f64", Dual<Dual64, f64>, f64, 53, ord, bes),
    ("Dual<Dual>:f32", Dual<Dual32, f32>, f32, 24, ord, nobes),
    ("Dual<Dual<Dual>>:f64", Dual<Dual<Dual64, f64>, f64>, f64, 53, ord, bes),
    ("Dual2<Dual>:f64", Dual2<Dual64, f64>, f64, 53, ord, bes),
    ("Dual3<Dual>:f64", Dual3<Dual64, f64>, f64, 53, noord, bes),
    ("HyperDual<Dual>:f64", HyperDual<Dual64, f64>, f64, 53, noord, bes),
    ("Dual<Dual2>:f64", Dual<Dual2_64, f64>, f64, 53, ord, bes),
    ("Dual2<Dual2>:f64", Dual2<Dual2_64, f64>, f64, 53, ord, bes),
    ("HHD<Dual>:f64", HyperHyperDual<Dual64, f64>, f64, 53, noord, bes),
    ("Dual<DualVec:2>:f64", Dual<DualSVec64<2>, f64>, f64, 53, ord, bes),
    ("DualVec:2<Dual>:f64", DualVec<Dual64, f64, nalgebra::Const<2>>, f64, 53, ord, bes),
    ("DualVec:dyn<Dual>:f64", DualVec<Dual64, f64, nalgebra::Dyn>, f64, 53, ord, nobes),
    ("Dual2Vec:2<Dual>:f64", Dual2Vec<Dual64, f64, nalgebra::Const<2>>, f64, 53, ord, bes),
}

/// descriptor strings of a (possibly nested) TLC type descriptor; vector kinds yield the
/// statically sized and the dynamically sized variant
pub fn desc_keys(ty: &Value) -> Vec<String> {
    let k = ty.get("k").and_then(|x| x.as_str()).unwrap_or("");
    if k == "F" || k.is_empty() {
        return vec![String::new()];
    }
    let n = ty.get("n").and_then(|x| x.as_u64());
    let m = ty.get("m").and_then(|x| x.as_u64());
    let inner: Vec<String> = match ty.get("inner") {
        Some(i) => desc_keys(i).into_iter().map(|s| if s.is_empty() { s } else { format!("<{s}>") }).collect(),
        None => vec![String::new()],
    };
    let heads: Vec<String> = match (k, m, n) {
        ("HyperDualVec", Some(m), Some(n)) => vec![format!("{k}:{m}x{n}"), format!("{k}:dyn")],
        (_, _, Some(n)) if k.ends_with("Vec") => vec![format!("{k}:{n}"), format!("{k}:dyn")],
        _ => vec![k.to_string()],
    };
    let mut out = vec![];
    for h in &heads {
        for i in &inner {
            out.push(format!("{h}{i}"));
        }
    }
    out
}

/// the concrete configurations a TLC type descriptor (and mantissa bound) maps to
pub fn keys_for(ty: &Value, mant: u64) -> Vec<&'static str> {
    let descs = desc_keys(ty);
    let mut out = vec![];
    for key in ALL_KEYS {
        let (d, fl) = key.rsplit_once(':').unwrap();
        if fl == "f32" && mant > 24 {
            continue;
        }
        if descs.iter().any(|x| x == d) {
            out.push(*key);
        }
    }
    out
}
