//! Concrete configurations of the machine and the dispatch from a type key.
use crate::absval::*;
use crate::calc::*;
use crate::impl_calc;
use num_dual::*;
use num_traits::{Inv, One, Signed, Zero};
use serde_json::Value;

pub trait TypeFn {
    type Out;
    fn call<T: Calc>(self) -> Self::Out;
}

macro_rules! registry {
    ($(($key:expr, $T:ty, $F:ty, $mant:expr, $ord:ident)),* $(,)?) => {
        $(impl_calc!($key, $T, $F, $mant, $ord);)*
        pub const ALL_KEYS: &[&str] = &[$($key),*];
        pub fn dispatch<V: TypeFn>(key: &str, v: V) -> Option<V::Out> {
            match key {
                $($key => Some(v.call::<$T>()),)*
                _ => None,
            }
        }
    };
}

registry! {
    ("Dual:f64", Dual64, f64, 53, ord),
    ("Dual:f32", Dual32, f32, 24, ord),
    ("Dual2:f64", Dual2_64, f64, 53, ord),
    ("Dual2:f32", Dual2_32, f32, 24, ord),
    ("Dual3:f64", Dual3_64, f64, 53, noord),
    ("Dual3:f32", Dual3_32, f32, 24, noord),
    ("HyperDual:f64", HyperDual64, f64, 53, noord),
    ("HyperDual:f32", HyperDual32, f32, 24, noord),
    ("HHD:f64", HyperHyperDual64, f64, 53, noord),
    ("HHD:f32", HyperHyperDual32, f32, 24, noord),
    ("DualVec:1:f64", DualSVec64<1>, f64, 53, ord),
    ("DualVec:2:f64", DualSVec64<2>, f64, 53, ord),
    ("DualVec:3:f64", DualSVec64<3>, f64, 53, ord),
    ("DualVec:dyn:f64", DualDVec64, f64, 53, ord),
    ("DualVec:2:f32", DualSVec32<2>, f32, 24, ord),
    ("DualVec:dyn:f32", DualDVec32, f32, 24, ord),
    ("Dual2Vec:1:f64", Dual2SVec64<1>, f64, 53, ord),
    ("Dual2Vec:2:f64", Dual2SVec64<2>, f64, 53, ord),
    ("Dual2Vec:3:f64", Dual2SVec64<3>, f64, 53, ord),
    ("Dual2Vec:dyn:f64", Dual2DVec64, f64, 53, ord),
    ("Dual2Vec:2:f32", Dual2SVec32<2>, f32, 24, ord),
    ("Dual2Vec:dyn:f32", Dual2DVec32, f32, 24, ord),
    ("HyperDualVec:1x1:f64", HyperDualSVec64<1, 1>, f64, 53, noord),
    ("HyperDualVec:1x2:f64", HyperDualSVec64<1, 2>, f64, 53, noord),
    ("HyperDualVec:2x1:f64", HyperDualSVec64<2, 1>, f64, 53, noord),
    ("HyperDualVec:2x2:f64", HyperDualSVec64<2, 2>, f64, 53, noord),
    ("HyperDualVec:2x3:f64", HyperDualSVec64<2, 3>, f64, 53, noord),
    ("HyperDualVec:dyn:f64", HyperDualDVec64, f64, 53, noord),
    ("HyperDualVec:2x2:f32", HyperDualSVec32<2, 2>, f32, 24, noord),
    ("HyperDualVec:dyn:f32", HyperDualDVec32, f32, 24, noord),
}

/// the concrete configurations a TLC type descriptor (and mantissa bound) maps to
pub fn keys_for(ty: &Value, mant: u64) -> Vec<&'static str> {
    let k = ty.get("k").and_then(|x| x.as_str()).unwrap_or("");
    let n = ty.get("n").and_then(|x| x.as_u64());
    let m = ty.get("m").and_then(|x| x.as_u64());
    let dims = match (k, m, n) {
        ("HyperDualVec", Some(m), Some(n)) => Some(format!("{m}x{n}")),
        (_, _, Some(n)) if k.ends_with("Vec") => Some(format!("{n}")),
        _ => None,
    };
    let mut out = vec![];
    for key in ALL_KEYS {
        let parts: Vec<&str> = key.split(':').collect();
        if parts[0] != k {
            continue;
        }
        let fl = *parts.last().unwrap();
        if fl == "f32" && mant > 24 {
            continue;
        }
        if parts.len() == 3 {
            let d = parts[1];
            if d != "dyn" && Some(d.to_string()) != dims {
                continue;
            }
        }
        out.push(*key);
    }
    out
}
