//! The abstract state both sides agree on: a dual number projected to JSON.
//!
//! scalar  S := [n, d]            exact rational (d a power of two, |n|, d < 2^31)
//!            | {"f": "<hex bits>"} any other float (float mode)
//!            | <nested value>     when the scalar is itself a dual number
//! value     := {"re": S, "<field>": S, ...}                       scalar types
//!            | {"re": S, "<field>": {"p": false} | {"p": true, "m": [[S..]..]}, ...}  vector types
use nalgebra::allocator::Allocator;
use nalgebra::{DefaultAllocator, Dim, OMatrix};
use num_dual::*;
use serde_json::{json, Map, Value};

pub trait AbsVal: Sized + Clone {
    fn from_json(v: &Value) -> Result<Self, String>;
    fn to_json(&self) -> Value;
    /// all innermost floats as f64 (for magnitude / finiteness checks)
    fn flat(&self, out: &mut Vec<f64>);
}

fn exact_rat(x: f64) -> Option<(i64, i64)> {
    if !x.is_finite() {
        return None;
    }
    if x == 0.0 {
        // -0.0 is reported separately by callers that care
        return Some((0, 1));
    }
    let bits = x.to_bits();
    let sign = if bits >> 63 == 1 { -1i64 } else { 1 };
    let exp = ((bits >> 52) & 0x7ff) as i64;
    let frac = bits & ((1u64 << 52) - 1);
    let (mut m, mut e) = if exp == 0 { (frac, -1074i64) } else { (frac | (1u64 << 52), exp - 1075) };
    while m & 1 == 0 {
        m >>= 1;
        e += 1;
    }
    const LIM: u64 = 1 << 31;
    if e >= 0 {
        if e >= 31 || m >= LIM || (m << e) >= LIM {
            return None;
        }
        Some((sign * ((m << e) as i64), 1))
    } else {
        if -e >= 31 || m >= LIM {
            return None;
        }
        Some((sign * m as i64, 1i64 << (-e)))
    }
}

pub fn f64_to_json(x: f64) -> Value {
    match exact_rat(x) {
        // -0.0 is the rational 0: the exact model has no signed zero
        Some((n, d)) => json!([n, d]),
        _ => json!({"f": format!("{:#018x}", x.to_bits()), "v": format!("{:e}", x)}),
    }
}

pub fn f64_from_json(v: &Value) -> Result<f64, String> {
    if let Some(a) = v.as_array() {
        if a.len() == 2 {
            let n = a[0].as_i64().ok_or("rational numerator")? as f64;
            let d = a[1].as_i64().ok_or("rational denominator")? as f64;
            return Ok(n / d);
        }
        return Err(format!("bad rational {v}"));
    }
    if let Some(o) = v.as_object() {
        if let Some(Value::String(s)) = o.get("f") {
            let b = u64::from_str_radix(s.trim_start_matches("0x"), 16).map_err(|e| e.to_string())?;
            return Ok(f64::from_bits(b));
        }
    }
    if let Some(x) = v.as_f64() {
        return Ok(x);
    }
    Err(format!("bad scalar {v}"))
}

impl AbsVal for f64 {
    fn from_json(v: &Value) -> Result<Self, String> {
        f64_from_json(v)
    }
    fn to_json(&self) -> Value {
        f64_to_json(*self)
    }
    fn flat(&self, out: &mut Vec<f64>) {
        out.push(*self)
    }
}
impl AbsVal for f32 {
    fn from_json(v: &Value) -> Result<Self, String> {
        let x = f64_from_json(v)?;
        let y = x as f32;
        if (y as f64) != x && !x.is_nan() {
            return Err(format!("scalar {v} is not an f32"));
        }
        Ok(y)
    }
    fn to_json(&self) -> Value {
        f64_to_json(*self as f64)
    }
    fn flat(&self, out: &mut Vec<f64>) {
        out.push(*self as f64)
    }
}

fn get<'a>(v: &'a Value, k: &str) -> Result<&'a Value, String> {
    v.get(k).ok_or_else(|| format!("missing field {k} in {v}"))
}

macro_rules! impl_absval_scalar {
    ($ty:ident, [$($f:ident),*]) => {
        impl<T: DualNum<F> + AbsVal, F: Clone> AbsVal for $ty<T, F> {
            fn from_json(v: &Value) -> Result<Self, String> {
                Ok($ty::new(T::from_json(get(v, "re")?)?, $(T::from_json(get(v, stringify!($f))?)?),*))
            }
            fn to_json(&self) -> Value {
                let mut m = Map::new();
                m.insert("re".into(), self.re.to_json());
                $(m.insert(stringify!($f).into(), self.$f.to_json());)*
                Value::Object(m)
            }
            fn flat(&self, out: &mut Vec<f64>) {
                self.re.flat(out);
                $(self.$f.flat(out);)*
            }
        }
    };
}
impl_absval_scalar!(Dual, [eps]);
impl_absval_scalar!(Dual2, [v1, v2]);
impl_absval_scalar!(Dual3, [v1, v2, v3]);
impl_absval_scalar!(HyperDual, [eps1, eps2, eps1eps2]);
impl_absval_scalar!(HyperHyperDual, [eps1, eps2, eps3, eps1eps2, eps1eps3, eps2eps3, eps1eps2eps3]);

pub fn deriv_from_json<T: DualNum<F> + AbsVal, F, R: Dim, C: Dim>(
    v: &Value,
) -> Result<Derivative<T, F, R, C>, String>
where
    DefaultAllocator: Allocator<R, C>,
{
    let p = get(v, "p")?.as_bool().ok_or("p")?;
    if !p {
        return Ok(Derivative::none());
    }
    let rows = get(v, "m")?.as_array().ok_or("m")?;
    let (mut r, mut c) = (rows.len(), rows.first().and_then(|x| x.as_array()).map_or(0, |x| x.len()));
    if let Some(d) = v.get("dims").and_then(|d| d.as_array()) {
        r = d[0].as_u64().unwrap() as usize;
        c = d[1].as_u64().unwrap() as usize;
    }
    if let Some(n) = R::try_to_usize() {
        if n != r {
            return Err(format!("row count {r} does not fit static dimension {n}"));
        }
    }
    if let Some(n) = C::try_to_usize() {
        if n != c && !(r == 0) {
            return Err(format!("column count {c} does not fit static dimension {n}"));
        }
        c = n;
    }
    let mut err = None;
    let m = OMatrix::<T, R, C>::from_fn_generic(R::from_usize(r), C::from_usize(c), |i, j| {
        match rows[i].as_array().and_then(|row| row.get(j)).map(T::from_json) {
            Some(Ok(x)) => x,
            Some(Err(e)) => {
                err = Some(e);
                T::zero()
            }
            None => {
                err = Some(format!("ragged matrix {v}"));
                T::zero()
            }
        }
    });
    match err {
        Some(e) => Err(e),
        None => Ok(Derivative::some(m)),
    }
}

pub fn deriv_present<T: DualNum<F>, F, R: Dim, C: Dim>(d: &Derivative<T, F, R, C>) -> bool
where
    DefaultAllocator: Allocator<R, C>,
    T: PartialEq,
    F: PartialEq,
{
    *d != Derivative::none()
}

pub fn deriv_to_json<T: DualNum<F> + AbsVal, F: PartialEq + Clone, R: Dim, C: Dim>(d: &Derivative<T, F, R, C>) -> Value
where
    DefaultAllocator: Allocator<R, C>,
    T: PartialEq,
{
    if !deriv_present(d) {
        return json!({"p": false});
    }
    let m = d
        .clone()
        .unwrap_generic(R::from_usize(R::try_to_usize().unwrap_or(0)), C::from_usize(C::try_to_usize().unwrap_or(0)));
    let rows: Vec<Value> = (0..m.nrows())
        .map(|i| Value::Array((0..m.ncols()).map(|j| m[(i, j)].to_json()).collect()))
        .collect();
    json!({"p": true, "m": rows, "dims": [m.nrows(), m.ncols()]})
}

pub fn deriv_flat<T: DualNum<F> + AbsVal, F: PartialEq + Clone, R: Dim, C: Dim>(d: &Derivative<T, F, R, C>, out: &mut Vec<f64>)
where
    DefaultAllocator: Allocator<R, C>,
    T: PartialEq,
{
    if deriv_present(d) {
        let m = d
            .clone()
            .unwrap_generic(R::from_usize(R::try_to_usize().unwrap_or(0)), C::from_usize(C::try_to_usize().unwrap_or(0)));
        for x in m.iter() {
            x.flat(out);
        }
    }
}

impl<T: DualNum<F> + AbsVal + PartialEq, F: Clone + PartialEq, D: Dim> AbsVal for DualVec<T, F, D>
where
    DefaultAllocator: Allocator<D>,
{
    fn from_json(v: &Value) -> Result<Self, String> {
        Ok(DualVec::new(T::from_json(get(v, "re")?)?, deriv_from_json(get(v, "eps")?)?))
    }
    fn to_json(&self) -> Value {
        json!({"re": self.re.to_json(), "eps": deriv_to_json(&self.eps)})
    }
    fn flat(&self, out: &mut Vec<f64>) {
        self.re.flat(out);
        deriv_flat(&self.eps, out);
    }
}
impl<T: DualNum<F> + AbsVal + PartialEq, F: Clone + PartialEq, D: Dim> AbsVal for Dual2Vec<T, F, D>
where
    DefaultAllocator: Allocator<nalgebra::U1, D> + Allocator<D, D>,
{
    fn from_json(v: &Value) -> Result<Self, String> {
        Ok(Dual2Vec::new(
            T::from_json(get(v, "re")?)?,
            deriv_from_json(get(v, "v1")?)?,
            deriv_from_json(get(v, "v2")?)?,
        ))
    }
    fn to_json(&self) -> Value {
        json!({"re": self.re.to_json(), "v1": deriv_to_json(&self.v1), "v2": deriv_to_json(&self.v2)})
    }
    fn flat(&self, out: &mut Vec<f64>) {
        self.re.flat(out);
        deriv_flat(&self.v1, out);
        deriv_flat(&self.v2, out);
    }
}
impl<T: DualNum<F> + AbsVal + PartialEq, F: Clone + PartialEq, M: Dim, N: Dim> AbsVal for HyperDualVec<T, F, M, N>
where
    DefaultAllocator: Allocator<M> + Allocator<M, N> + Allocator<nalgebra::U1, N>,
{
    fn from_json(v: &Value) -> Result<Self, String> {
        Ok(HyperDualVec::new(
            T::from_json(get(v, "re")?)?,
            deriv_from_json(get(v, "eps1")?)?,
            deriv_from_json(get(v, "eps2")?)?,
            deriv_from_json(get(v, "eps1eps2")?)?,
        ))
    }
    fn to_json(&self) -> Value {
        json!({"re": self.re.to_json(), "eps1": deriv_to_json(&self.eps1),
               "eps2": deriv_to_json(&self.eps2), "eps1eps2": deriv_to_json(&self.eps1eps2)})
    }
    fn flat(&self, out: &mut Vec<f64>) {
        self.re.flat(out);
        deriv_flat(&self.eps1, out);
        deriv_flat(&self.eps2, out);
        deriv_flat(&self.eps1eps2, out);
    }
}

/// Numerical comparison of two projected values.  `Same`: identical including presence
/// flags.  `Drift`: numerically identical, but one side stores explicit zeros where the
/// other has an absent part (C07 says the two are indistinguishable: not a violation).
#[derive(Debug, PartialEq, Clone, Copy)]
pub enum Cmp {
    Same,
    Drift,
    Differ,
}

fn all_zero(m: &Value) -> bool {
    match m {
        Value::Array(a) if a.len() == 2 && a[0].is_i64() && a[1].is_i64() => a[0].as_i64() == Some(0),
        Value::Array(a) => a.iter().all(all_zero),
        Value::Object(o) => {
            if let Some(p) = o.get("p") {
                p == &Value::Bool(false) || o.get("m").map_or(true, all_zero)
            } else if o.contains_key("f") {
                false
            } else {
                o.values().all(all_zero)
            }
        }
        _ => false,
    }
}

pub fn compare(a: &Value, b: &Value) -> Cmp {
    match (a, b) {
        (Value::Object(x), Value::Object(y)) => {
            if let (Some(px), Some(py)) = (x.get("p"), y.get("p")) {
                let (px, py) = (px.as_bool().unwrap_or(false), py.as_bool().unwrap_or(false));
                return match (px, py) {
                    (false, false) => Cmp::Same,
                    (true, true) => compare(&x["m"], &y["m"]),
                    (true, false) => if all_zero(&x["m"]) { Cmp::Drift } else { Cmp::Differ },
                    (false, true) => if all_zero(&y["m"]) { Cmp::Drift } else { Cmp::Differ },
                };
            }
            if x.contains_key("f") || y.contains_key("f") {
                return if x.get("f") == y.get("f") { Cmp::Same } else { Cmp::Differ };
            }
            let mut res = Cmp::Same;
            for (k, vx) in x {
                if k == "dims" {
                    continue;
                }
                match y.get(k) {
                    None => return Cmp::Differ,
                    Some(vy) => match compare(vx, vy) {
                        Cmp::Differ => return Cmp::Differ,
                        Cmp::Drift => res = Cmp::Drift,
                        Cmp::Same => {}
                    },
                }
            }
            if y.keys().any(|k| k != "dims" && !x.contains_key(k)) {
                return Cmp::Differ;
            }
            res
        }
        (Value::Array(x), Value::Array(y)) => {
            if x.len() != y.len() {
                return Cmp::Differ;
            }
            let mut res = Cmp::Same;
            for (vx, vy) in x.iter().zip(y) {
                match compare(vx, vy) {
                    Cmp::Differ => return Cmp::Differ,
                    Cmp::Drift => res = Cmp::Drift,
                    Cmp::Same => {}
                }
            }
            res
        }
        _ => if a == b { Cmp::Same } else { Cmp::Differ },
    }
}
