mod absval;
mod calc;
mod convert;
mod cross;
mod derivops;
mod drivers;
mod emit;
mod field;
mod float;
mod forms;
mod prog;
mod registry;
mod render;
mod replay;
mod special;
mod transparent;

use serde_json::json;

fn arg(args: &[String], name: &str) -> Option<String> {
    args.iter().position(|a| a == name).and_then(|i| args.get(i + 1).cloned())
}

fn main() {
    std::panic::set_hook(Box::new(|_| {})); // panics of the code under test are data
    let args: Vec<String> = std::env::args().collect();
    let cmd = args.get(1).map(|s| s.as_str()).unwrap_or("");
    match cmd {
        "replay" => {
            let path = args.get(2).expect("replay <file>");
            let mode = match arg(&args, "--mode").as_deref() {
                Some("tworun") => replay::Mode::TwoRun,
                Some("zerofill") => replay::Mode::ZeroFill,
                _ => replay::Mode::Plain,
            };
            let st = match replay::replay_file(path, arg(&args, "--types").as_deref(), arg(&args, "--ops").as_deref(), 5, mode) {
                Ok(s) => s,
                Err(e) => {
                    eprintln!("tool error: {e}");
                    std::process::exit(2);
                }
            };
            let out = json!({
                "behaviours": st.behaviours, "events": st.events, "compared": st.compared,
                "drift": st.drift, "unsupported": st.unsupported, "n_mismatch": st.n_mismatch,
                "distinct_cases": st.per_case.len(), "per_case": st.per_case,
                "mismatches": st.mismatches, "samples": st.samples,
            });
            println!("{}", out);
        }
        "emit" => {
            // emit --type <key> --kind K --n N --m M --seed S --events E --out FILE
            let key = arg(&args, "--type").expect("--type");
            let sh = emit::Shape {
                kind: arg(&args, "--kind").expect("--kind"),
                n: arg(&args, "--n").and_then(|x| x.parse().ok()).unwrap_or(1),
                m: arg(&args, "--m").and_then(|x| x.parse().ok()).unwrap_or(1),
                inner: arg(&args, "--inner"),
            };
            let seed: u64 = arg(&args, "--seed").and_then(|x| x.parse().ok()).unwrap_or(1);
            let events: usize = arg(&args, "--events").and_then(|x| x.parse().ok()).unwrap_or(1000);
            let nr: usize = arg(&args, "--nr").and_then(|x| x.parse().ok()).unwrap_or(4);
            let path = arg(&args, "--out").expect("--out");
            let mut f = std::io::BufWriter::new(std::fs::File::create(&path).expect("create"));
            match emit::emit(&key, &sh, seed, events, nr, &mut f) {
                Some((e, t)) => println!("{}", json!({"type": key, "events": e, "tried": t, "file": path})),
                None => {
                    eprintln!("unknown type key {key}");
                    std::process::exit(2);
                }
            }
        }
        "float-elem" => {
            // float-elem --tables <file>[,<file>..] --samples N --seed S --k K [--types filter]
            let files: Vec<String> = arg(&args, "--tables").expect("--tables").split(',').map(|s| s.to_string()).collect();
            let samples: usize = arg(&args, "--samples").and_then(|x| x.parse().ok()).unwrap_or(20);
            let seed: u64 = arg(&args, "--seed").and_then(|x| x.parse().ok()).unwrap_or(1);
            let k: f64 = arg(&args, "--k").and_then(|x| x.parse().ok()).unwrap_or(64.0);
            let r = float::load(&files).and_then(|t| float::elem_sweep(&t, samples, seed, k, arg(&args, "--types").as_deref()));
            match r {
                Ok(v) => println!("{v}"),
                Err(e) => {
                    eprintln!("tool error: {e}");
                    std::process::exit(2);
                }
            }
        }
        "float-pow" => {
            let files: Vec<String> = arg(&args, "--tables").expect("--tables").split(',').map(|s| s.to_string()).collect();
            let samples: usize = arg(&args, "--samples").and_then(|x| x.parse().ok()).unwrap_or(5);
            let seed: u64 = arg(&args, "--seed").and_then(|x| x.parse().ok()).unwrap_or(1);
            let k: f64 = arg(&args, "--k").and_then(|x| x.parse().ok()).unwrap_or(64.0);
            let cases = match arg(&args, "--what").as_deref() { Some("special") => prog::special_cases(), Some("atan2") => prog::atan2_cases(), _ => prog::pow_cases() };
            let r = float::load(&files).and_then(|t| prog::op_sweep(&t, &cases, samples, seed, k, arg(&args, "--types").as_deref()));
            match r {
                Ok(v) => println!("{v}"),
                Err(e) => {
                    eprintln!("tool error: {e}");
                    std::process::exit(2);
                }
            }
        }
        "float-special" => {
            let files: Vec<String> = arg(&args, "--tables").expect("--tables").split(',').map(|s| s.to_string()).collect();
            let samples: usize = arg(&args, "--samples").and_then(|x| x.parse().ok()).unwrap_or(2);
            let seed: u64 = arg(&args, "--seed").and_then(|x| x.parse().ok()).unwrap_or(1);
            let what = arg(&args, "--what").unwrap_or("sph".into());
            let r = float::load(&files).and_then(|t| special::load_series(&files).and_then(|s| special::special_sweep(&t, &s, &what, samples, seed, arg(&args, "--types").as_deref())));
            let r = r.and_then(|mut v| { if what == "bessel" { v["bessel_classes"] = serde_json::Value::Array(special::bessel_class_coverage(&files)?); } Ok(v) });
            match r {
                Ok(v) => println!("{v}"),
                Err(e) => {
                    eprintln!("tool error: {e}");
                    std::process::exit(2);
                }
            }
        }
        "bessel-parity" => {
            let seed: u64 = arg(&args, "--seed").and_then(|x| x.parse().ok()).unwrap_or(1);
            let samples: usize = arg(&args, "--samples").and_then(|x| x.parse().ok()).unwrap_or(300);
            println!("{}", special::bessel_parity(seed, samples));
        }
        "float-cross" => {
            let files: Vec<String> = arg(&args, "--tables").expect("--tables").split(',').map(|s| s.to_string()).collect();
            let progs = arg(&args, "--programs").expect("--programs");
            let seed: u64 = arg(&args, "--seed").and_then(|x| x.parse().ok()).unwrap_or(1);
            let k: f64 = arg(&args, "--k").and_then(|x| x.parse().ok()).unwrap_or(64.0);
            let r = float::load(&files).and_then(|t| cross::load_members(&files).and_then(|ms| cross::run(&t, &ms, &progs, seed, k)));
            match r {
                Ok(v) => println!("{v}"),
                Err(e) => {
                    eprintln!("tool error: {e}");
                    std::process::exit(2);
                }
            }
        }
        "convert" => {
            let seed: u64 = arg(&args, "--seed").and_then(|x| x.parse().ok()).unwrap_or(1);
            let samples: usize = arg(&args, "--samples").and_then(|x| x.parse().ok()).unwrap_or(40);
            println!("{}", convert::run(seed, samples));
        }
        "field" => {
            let seed: u64 = arg(&args, "--seed").and_then(|x| x.parse().ok()).unwrap_or(1);
            let samples: usize = arg(&args, "--samples").and_then(|x| x.parse().ok()).unwrap_or(4);
            match field::run(args.get(2).expect("field <file>"), seed, samples) {
                Ok(v) => println!("{v}"),
                Err(e) => {
                    eprintln!("tool error: {e}");
                    std::process::exit(2);
                }
            }
        }
        "float-prog" => {
            let files: Vec<String> = arg(&args, "--tables").expect("--tables").split(',').map(|s| s.to_string()).collect();
            let progs = arg(&args, "--programs").expect("--programs");
            let seed: u64 = arg(&args, "--seed").and_then(|x| x.parse().ok()).unwrap_or(1);
            let k: f64 = arg(&args, "--k").and_then(|x| x.parse().ok()).unwrap_or(16.0);
            let per: usize = arg(&args, "--per-prog").and_then(|x| x.parse().ok()).unwrap_or(3);
            let r = float::load(&files).and_then(|t| prog::run_programs(&t, &progs, seed, k, arg(&args, "--types").as_deref(), per));
            match r {
                Ok(v) => println!("{v}"),
                Err(e) => {
                    eprintln!("tool error: {e}");
                    std::process::exit(2);
                }
            }
        }
        "derivops" => {
            match derivops::run(args.get(2).expect("derivops <file>")) {
                Ok(v) => println!("{v}"),
                Err(e) => {
                    eprintln!("tool error: {e}");
                    std::process::exit(2);
                }
            }
        }
        "transparent" => {
            let seed: u64 = arg(&args, "--seed").and_then(|x| x.parse().ok()).unwrap_or(1);
            let samples: usize = arg(&args, "--samples").and_then(|x| x.parse().ok()).unwrap_or(20);
            match transparent::run(args.get(2).expect("transparent <file>"), seed, samples) {
                Ok(v) => println!("{v}"),
                Err(e) => {
                    eprintln!("tool error: {e}");
                    std::process::exit(2);
                }
            }
        }
        "probe" => {
            // probe <key> <op> <x> [y] [s] [n]
            let f = |i: usize, d: f64| args.get(i).and_then(|x| x.parse::<f64>().ok()).unwrap_or(d);
            match transparent::probe(&args[2], &args[3], f(4, 1.0), f(5, 1.0), f(6, 2.5), f(7, 3.0) as i32) {
                Ok(s) => println!("{s}"),
                Err(e) => { eprintln!("tool error: {e}"); std::process::exit(2); }
            }
        }
        "forms" => {
            match forms::run(args.get(2).expect("forms <file>")) {
                Ok(v) => println!("{v}"),
                Err(e) => {
                    eprintln!("tool error: {e}");
                    std::process::exit(2);
                }
            }
        }
        "drivers" => {
            match drivers::run(args.get(2).expect("drivers <file>")) {
                Ok(v) => println!("{v}"),
                Err(e) => {
                    eprintln!("tool error: {e}");
                    std::process::exit(2);
                }
            }
        }
        "render" => {
            match render::render_file(args.get(2).expect("render <file>")) {
                Ok(v) => println!("{v}"),
                Err(e) => {
                    eprintln!("tool error: {e}");
                    std::process::exit(2);
                }
            }
        }
        "keysfor" => {
            // keysfor <json list of type descriptors> <json list of mantissas>
            let tys: Vec<serde_json::Value> = serde_json::from_str(&args[2]).unwrap();
            let mants: Vec<u64> = serde_json::from_str(&args[3]).unwrap();
            let mut out = std::collections::BTreeSet::new();
            for t in &tys {
                for m in &mants {
                    for k in registry::keys_for(t, *m) {
                        // a Mant = 53 run is replayed on f64 types only, a Mant = 24 run on both
                        out.insert(k.to_string());
                    }
                }
            }
            println!("{}", json!(out.into_iter().collect::<Vec<_>>()));
        }
        "keys" => {
            for k in registry::ALL_KEYS {
                println!("{k}");
            }
        }
        _ => {
            eprintln!("usage: hcore replay <file> [--types f] [--ops a,b] | keys");
            std::process::exit(2);
        }
    }
}
