mod absval;
mod calc;
mod registry;
mod replay;

use serde_json::json;

fn arg(args: &[String], name: &str) -> Option<String> {
    args.iter().position(|a| a == name).and_then(|i| args.get(i + 1).cloned())
}

fn main() {
    std::panic::set_hook(Box::new(|_| {})); // panics of the code under test are data
    let args: Vec<String> = std::env::args().collect();
    let cmd = args.get(1).map(|s| s.as_str()).unwrap_or("");
    match cmd {
        "replay" => {
            let path = args.get(2).expect("replay <file>");
            let st = match replay::replay_file(path, arg(&args, "--types").as_deref(), arg(&args, "--ops").as_deref(), 5) {
                Ok(s) => s,
                Err(e) => {
                    eprintln!("tool error: {e}");
                    std::process::exit(2);
                }
            };
            let out = json!({
                "behaviours": st.behaviours, "events": st.events, "compared": st.compared,
                "drift": st.drift, "unsupported": st.unsupported, "n_mismatch": st.n_mismatch,
                "distinct_cases": st.per_case.len(), "per_case": st.per_case,
                "mismatches": st.mismatches, "samples": st.samples,
            });
            println!("{}", out);
        }
        "keys" => {
            for k in registry::ALL_KEYS {
                println!("{k}");
            }
        }
        _ => {
            eprintln!("usage: hcore replay <file> [--types f] [--ops a,b] | keys");
            std::process::exit(2);
        }
    }
}
