//! Float-mode conformance (T): the TLC-exported tables (Tables.tla, Towers.tla) are
//! interpreted at floating-point operands and compared with the real crate.
//! This file contains NO differentiation formula: a polynomial evaluator with a running
//! magnitude sum, a dictionary of primitive real functions (the generators of
//! Towers.tla), and the plumbing between abstract values and symbol names.
use crate::absval::*;
use crate::calc::*;
use crate::emit::Rng;
use crate::registry::*;
use serde_json::{json, Value};
use std::collections::{BTreeMap, HashMap};

pub type Poly = Vec<(f64, Vec<(String, i32)>)>;

fn parse_poly(v: &Value) -> Poly {
    v.as_array()
        .map(|a| {
            a.iter()
                .map(|t| {
                    let c = &t["c"];
                    let coef = c[0].as_f64().unwrap() / c[1].as_f64().unwrap();
                    let e = t["e"].as_array().map(|es| es.iter().map(|p| (p[0].as_str().unwrap().to_string(), p[1].as_i64().unwrap() as i32)).collect()).unwrap_or_default();
                    (coef, e)
                })
                .collect()
        })
        .unwrap_or_default()
}

pub struct Table {
    pub ty: Value,
    pub op: String,
    pub nderiv: usize,
    pub re: String,
    pub parts: Vec<(String, usize, Poly)>, // path, order, polynomial
}

pub struct Tables {
    pub towers: HashMap<String, Vec<Poly>>,
    pub tables: Vec<Table>,
}

pub fn load(paths: &[String]) -> Result<Tables, String> {
    let mut t = Tables { towers: HashMap::new(), tables: vec![] };
    for p in paths {
        let text = std::fs::read_to_string(p).map_err(|e| format!("{p}: {e}"))?;
        for line in text.lines() {
            if let Some(v) = crate::replay::parse_tagged(line, "TOWER") {
                let tw = v["tower"].as_array().ok_or("tower")?.iter().map(parse_poly).collect();
                t.towers.insert(v["fn"].as_str().unwrap_or("").to_string(), tw);
            } else if let Some(v) = crate::replay::parse_tagged(line, "TABLE") {
                let parts = v["parts"].as_array().ok_or("parts")?.iter().map(|p| {
                    (p["path"].as_str().unwrap().to_string(), p["order"].as_u64().unwrap() as usize, parse_poly(&p["poly"]))
                }).collect();
                t.tables.push(Table {
                    ty: v["ty"].clone(), op: v["op"].as_str().unwrap().to_string(),
                    nderiv: v["nderiv"].as_u64().unwrap() as usize, re: v["re"].as_str().unwrap().to_string(), parts,
                });
            }
        }
    }
    Ok(t)
}

/// value and magnitude sum (sum of the absolute values of the contributing terms)
#[derive(Clone, Copy, Debug)]
pub struct VM {
    pub v: f64,
    pub m: f64,
}

pub fn eval_poly(p: &Poly, sym: &dyn Fn(&str) -> Option<VM>) -> Result<VM, String> {
    let mut v = 0.0;
    let mut m = 0.0;
    for (c, es) in p {
        let mut tv = *c;
        let mut tm = c.abs();
        for (s, e) in es {
            let x = sym(s).ok_or_else(|| format!("unknown symbol {s}"))?;
            tv *= x.v.powi(*e);
            tm *= if *e >= 0 { x.m.powi(*e) } else { x.v.abs().powi(*e) };
        }
        v += tv;
        m += tm;
    }
    Ok(VM { v, m })
}

/// the generators of Towers.tla (GenMeaning) as primitive functions of std
pub fn generator(g: &str, x: f64, par: &Params) -> Option<f64> {
    Some(match g {
        "x" => x,
        "r" => 1.0 / x,
        "s" => x.sqrt(),
        "c" => x.cbrt(),
        "e" => x.exp(),
        "e2" => x.exp2(),
        "ln2" => std::f64::consts::LN_2,
        "iln2" => 1.0 / std::f64::consts::LN_2,
        "iln10" => 1.0 / std::f64::consts::LN_10,
        "ilnb" => 1.0 / par.base.ln(),
        "m" => x.exp_m1(),
        "l" => x.ln(),
        "lb" => x.log2(),
        "l10" => x.log10(),
        "lg" => x.log(par.base),
        "r1" => 1.0 / (1.0 + x),
        "l1" => x.ln_1p(),
        "sin" => x.sin(),
        "cos" => x.cos(),
        "sh" => x.sinh(),
        "ch" => x.cosh(),
        "tan" => x.tan(),
        "tanh" => x.tanh(),
        "u" => 1.0 / ((1.0 - x) * (1.0 + x)).sqrt(),
        "as" => x.asin(),
        "ac" => x.acos(),
        "w" => if x.abs() > 1.0 { let r = 1.0 / x; r * r / (1.0 + r * r) } else { 1.0 / (1.0 + x * x) },
        "at" => x.atan(),
        "v" => 1.0 / x.hypot(1.0),
        "ash" => x.asinh(),
        "y" => if x > 2.0 { let r = 1.0 / x; r / ((1.0 - r) * (1.0 + r)).sqrt() } else { 1.0 / ((x - 1.0) * (x + 1.0)).sqrt() },
        "ach" => x.acosh(),
        "z" => 1.0 / ((1.0 - x) * (1.0 + x)),
        "ath" => x.atanh(),
        "p" => if par.n.fract() == 0.0 && par.n.abs() < 1e9 { x.powi(par.n as i32 - 3) } else { x.powf(par.n - 3.0) },
        "n" => par.n,
        // x^(n-j); for integral n >= 0 the entries beyond the n-th derivative vanish identically
        "pw0" | "pw1" | "pw2" | "pw3" | "pw4" | "pw5" => {
            let j = g[2..].parse::<i32>().ok()? as f64;
            let e = par.n - j;
            if par.n.fract() == 0.0 && par.n >= 0.0 && e < 0.0 { 0.0 }
            else if e.fract() == 0.0 && e.abs() < 2e9 { x.powi(e as i32) } else { x.powf(e) }
        }
        "j0" => par.j0?,
        "j1" => par.j1?,
        _ => return None,
    })
}

#[derive(Clone, Debug, Default)]
pub struct Params {
    pub base: f64,
    pub n: f64,
    pub j0: Option<f64>,
    pub j1: Option<f64>,
}

pub fn eval_tower(tw: &[Poly], x: f64, par: &Params) -> Result<Vec<VM>, String> {
    tw.iter()
        .map(|p| eval_poly(p, &|g| generator(g, x, par).map(|v| VM { v, m: v.abs() })))
        .collect()
}

// ------------------------------------------------------------------ values <-> path maps
pub fn fields_of(kind: &str) -> Vec<&'static str> {
    match kind {
        "Dual" | "DualVec" => vec!["eps"],
        "Dual2" | "Dual2Vec" => vec!["v1", "v2"],
        "Dual3" => vec!["v1", "v2", "v3"],
        "HyperDual" | "HyperDualVec" => vec!["eps1", "eps2", "eps1eps2"],
        _ => vec!["eps1", "eps2", "eps3", "eps1eps2", "eps1eps3", "eps2eps3", "eps1eps2eps3"],
    }
}

fn part_dims(ty: &Value, f: &str) -> (usize, usize) {
    let n = ty.get("n").and_then(|x| x.as_u64()).unwrap_or(1) as usize;
    let m = ty.get("m").and_then(|x| x.as_u64()).unwrap_or(1) as usize;
    match (ty["k"].as_str().unwrap_or(""), f) {
        ("DualVec", _) => (n, 1),
        ("Dual2Vec", "v1") => (1, n),
        ("Dual2Vec", _) => (n, n),
        ("HyperDualVec", "eps1") => (m, 1),
        ("HyperDualVec", "eps2") => (1, n),
        _ => (m, n),
    }
}

fn fbits(x: f64) -> Value {
    json!({"f": format!("{:#018x}", x.to_bits())})
}

/// abstract value (JSON) of descriptor `ty` from a path map; `absent` lists top-level
/// optional parts to leave absent
pub fn build_json(ty: &Value, prefix: &str, map: &BTreeMap<String, f64>, absent: &[String]) -> Value {
    let k = ty["k"].as_str().unwrap_or("F");
    if k == "F" {
        return fbits(*map.get(prefix).unwrap_or(&0.0));
    }
    let inner = &ty["inner"];
    let mut o = serde_json::Map::new();
    o.insert("re".into(), build_json(inner, &format!("{prefix}.re"), map, &[]));
    for f in fields_of(k) {
        if k.ends_with("Vec") {
            if absent.iter().any(|a| a == f) {
                o.insert(f.into(), json!({"p": false}));
                continue;
            }
            let (r, c) = part_dims(ty, f);
            let rows: Vec<Value> = (1..=r).map(|i| Value::Array((1..=c).map(|j| build_json(inner, &format!("{prefix}.{f}[{i},{j}]"), map, &[])).collect())).collect();
            o.insert(f.into(), json!({"p": true, "m": rows, "dims": [r, c]}));
        } else {
            o.insert(f.into(), build_json(inner, &format!("{prefix}.{f}"), map, &[]));
        }
    }
    Value::Object(o)
}

/// inverse of build_json on a projected value (absent parts contribute nothing)
pub fn flatten_json(v: &Value, prefix: &str, out: &mut BTreeMap<String, f64>) {
    match v {
        Value::Array(_) => {
            out.insert(prefix.to_string(), f64_from_json(v).unwrap_or(f64::NAN));
        }
        Value::Object(o) => {
            if o.contains_key("f") {
                out.insert(prefix.to_string(), f64_from_json(v).unwrap_or(f64::NAN));
                return;
            }
            for (k, x) in o {
                if let Some(p) = x.get("p") {
                    if p.as_bool() == Some(true) {
                        for (i, row) in x["m"].as_array().unwrap().iter().enumerate() {
                            for (j, e) in row.as_array().unwrap().iter().enumerate() {
                                flatten_json(e, &format!("{prefix}.{k}[{},{}]", i + 1, j + 1), out);
                            }
                        }
                    }
                } else {
                    flatten_json(x, &format!("{prefix}.{k}"), out);
                }
            }
        }
        _ => {}
    }
}

// ------------------------------------------------------------------ the elementary-function sweep
pub struct FnSpec {
    pub name: &'static str,
    /// sampling intervals of the real part (margin from singularities)
    pub dom: &'static [(f64, f64)],
}

pub const ELEM_FNS: &[FnSpec] = &[
    FnSpec { name: "recip", dom: &[(0.05, 20.0), (-20.0, -0.05)] },
    FnSpec { name: "sqrt", dom: &[(0.01, 50.0)] },
    FnSpec { name: "cbrt", dom: &[(0.01, 50.0), (-50.0, -0.01)] },
    FnSpec { name: "exp", dom: &[(-5.0, 5.0)] },
    FnSpec { name: "exp2", dom: &[(-8.0, 8.0)] },
    FnSpec { name: "exp_m1", dom: &[(-3.0, 3.0)] },
    FnSpec { name: "ln", dom: &[(0.05, 40.0)] },
    FnSpec { name: "log", dom: &[(0.05, 40.0)] },
    FnSpec { name: "log2", dom: &[(0.05, 40.0)] },
    FnSpec { name: "log10", dom: &[(0.05, 40.0)] },
    FnSpec { name: "ln_1p", dom: &[(-0.9, 20.0)] },
    FnSpec { name: "sin", dom: &[(-10.0, 10.0)] },
    FnSpec { name: "cos", dom: &[(-10.0, 10.0)] },
    FnSpec { name: "sin_cos.0", dom: &[(-10.0, 10.0)] },
    FnSpec { name: "sin_cos.1", dom: &[(-10.0, 10.0)] },
    FnSpec { name: "tan", dom: &[(-1.45, 1.45), (1.7, 4.6), (-4.6, -1.7)] },
    FnSpec { name: "sinh", dom: &[(-4.0, 4.0)] },
    FnSpec { name: "cosh", dom: &[(-4.0, 4.0)] },
    FnSpec { name: "tanh", dom: &[(-4.0, 4.0), (-40.0, 40.0), (700.0, 760.0), (-760.0, -700.0), (80.0, 100.0)] },
    FnSpec { name: "asin", dom: &[(-0.95, 0.95)] },
    FnSpec { name: "acos", dom: &[(-0.95, 0.95)] },
    // (large arguments: the closed forms switch to r = 1/x above 1 resp. 2; x * x overflows f32 above 1.8e19)
    FnSpec { name: "atan", dom: &[(-20.0, 20.0), (-20.0, 20.0), (1e3, 1e4), (-1e9, -1e8), (1e19, 1e21), (-1e30, -1e25)] },
    FnSpec { name: "asinh", dom: &[(-20.0, 20.0), (-20.0, 20.0), (1e3, 1e4), (-1e9, -1e8), (1e19, 1e21), (-1e30, -1e25)] },
    FnSpec { name: "acosh", dom: &[(1.05, 20.0), (1.05, 20.0), (1e3, 1e4), (1e8, 1e9), (1e19, 1e21), (1e25, 1e30)] },
    FnSpec { name: "atanh", dom: &[(-0.95, 0.95)] },
];

pub struct Sweep<'a> {
    pub tabs: &'a Tables,
    pub table: &'a Table,
    pub fns: &'a [FnSpec],
    pub samples: usize,
    pub seed: u64,
    pub k_tol: f64,
    pub report: &'a mut SweepReport,
}

#[derive(Default)]
pub struct SweepReport {
    pub evaluations: u64,
    pub parts_compared: u64,
    pub per_case: BTreeMap<String, u64>,
    pub worst: BTreeMap<String, f64>, // fn -> worst err / (u * mag)
    pub violations: Vec<Value>,
    pub n_viol: u64,
    pub samples: Vec<Value>,
    /// recorded findings (KNOWN_FINDINGS): key -> count
    pub known: BTreeMap<String, u64>,
}

pub fn rand_in(rng: &mut Rng, dom: &[(f64, f64)]) -> f64 {
    let (lo, hi) = dom[rng.below(dom.len() as u64) as usize];
    lo + (hi - lo) * rng.unit()
}

fn rand_part(rng: &mut Rng) -> f64 {
    match rng.below(10) {
        0 => 0.0,
        1 => 1.0,
        2 => -1.0,
        _ => (rng.unit() * 4.0 - 2.0) * if rng.below(4) == 0 { 10.0 } else { 1.0 },
    }
}

impl<'a> TypeFn for Sweep<'a> {
    type Out = Result<(), String>;
    fn call<T: Calc>(self) -> Result<(), String> {
        let f32mode = T::MANT < 53;
        let u = if f32mode { 2f64.powi(-24) } else { 2f64.powi(-53) };
        let rnd = |x: f64| if f32mode { (x as f32) as f64 } else { x };
        let mut rng = Rng(self.seed ^ (T::KEY.len() as u64 * 0x9E37) ^ 0xABCDEF);
        let kind = self.table.ty["k"].as_str().unwrap_or("");
        for f in self.fns {
            // sin_cos returns the pair (sin, cos): each component is judged against the tower of its own function
            let tower_name = match f.name { "sin_cos.0" => "sin", "sin_cos.1" => "cos", n => n };
            let tower = self.tabs.towers.get(tower_name).ok_or_else(|| format!("no tower for {}", f.name))?;
            for s in 0..self.samples {
                let par = Params { base: 3.5, n: 0.0, j0: None, j1: None };
                // operand: real part in the domain, every other location random
                let mut map = BTreeMap::new();
                for (path, _, _) in &self.table.parts {
                    let key = format!("a{path}");
                    let v = if *path == self.table.re { rnd(rand_in(&mut rng, f.dom)) } else { rnd(rand_part(&mut rng)) };
                    map.insert(key, v);
                }
                let mut absent: Vec<String> = vec![];
                if kind.ends_with("Vec") && s % 3 == 2 {
                    for fl in fields_of(kind) {
                        if rng.below(3) == 0 {
                            absent.push(fl.to_string());
                        }
                    }
                    for (path, _, _) in &self.table.parts {
                        if absent.iter().any(|a| path.starts_with(&format!(".{a}["))) {
                            map.insert(format!("a{path}"), 0.0);
                        }
                    }
                }
                let x = map[&format!("a{}", self.table.re)];
                let tw = eval_tower(tower, x, &par)?;
                let opj = build_json(&self.table.ty, "a", &map, &absent);
                let operand = T::from_json(&opj)?;
                let mut ev = Ev::from_json(&json!({"op": f.name, "a": 1, "b": 1, "c": 1, "d": 1})).unwrap();
                ev.s = par.base;
                let res = std::panic::catch_unwind(std::panic::AssertUnwindSafe(|| T::apply(&[operand.clone()], &ev)));
                let val = match res {
                    Ok(Ok(Out::Val(v))) => v,
                    Ok(Ok(_)) | Ok(Err(_)) => return Err(format!("{}: {} not applicable", T::KEY, f.name)),
                    Err(_) => {
                        self.report.n_viol += 1;
                        self.report.violations.push(json!({"type": T::KEY, "fn": f.name, "operand": opj, "observed": "panic"}));
                        continue;
                    }
                };
                let mut got = BTreeMap::new();
                flatten_json(&val.to_json(), "r", &mut got);
                self.report.evaluations += 1;
                *self.report.per_case.entry(format!("{}|{}", T::KEY, f.name)).or_insert(0) += 1;
                for (path, _order, poly) in &self.table.parts {
                    let exp = eval_poly(poly, &|sym| {
                        if let Some(k) = sym.strip_prefix('f') {
                            if let Ok(k) = k.parse::<usize>() {
                                return tw.get(k).copied();
                            }
                        }
                        map.get(sym).map(|v| VM { v: *v, m: v.abs() })
                    })?;
                    let obs = *got.get(&format!("r{path}")).unwrap_or(&0.0);
                    // (absolute floor: results below the normal range of the float type underflow)
                    let tol = self.k_tol * u * exp.m + if u > 1e-10 { 1e-36 } else { f64::MIN_POSITIVE };
                    let err = (obs - exp.v).abs();
                    self.report.parts_compared += 1;
                    let ratio = if exp.m > 0.0 { err / (u * exp.m) } else if err == 0.0 { 0.0 } else { f64::INFINITY };
                    let w = self.report.worst.entry(f.name.to_string()).or_insert(0.0);
                    if ratio > *w && ratio.is_finite() {
                        *w = ratio;
                    }
                    if !(err <= tol) {
                        self.report.n_viol += 1;
                        if self.report.violations.len() < 5 {
                            self.report.violations.push(json!({
                                "type": T::KEY, "fn": f.name, "part": path, "operand": opj, "expected": exp.v,
                                "observed": obs, "error": err, "tolerance": tol, "magnitude_sum": exp.m,
                                "base": par.base,
                            }));
                        }
                    }
                }
                if self.report.samples.len() < 3 && s == 0 {
                    self.report.samples.push(json!({"type": T::KEY, "fn": f.name, "x": x, "result": val.to_json()}));
                }
            }
        }
        Ok(())
    }
}

pub fn report_json(r: &SweepReport) -> Value {
    json!({"evaluations": r.evaluations, "parts_compared": r.parts_compared, "per_case": r.per_case,
           "distinct_cases": r.per_case.len(), "worst_ratio": r.worst, "known": r.known, "n_violations": r.n_viol,
           "violations": r.violations, "samples": r.samples})
}

/// C01 sweep: every elementary function on every concrete configuration that has a table
pub fn elem_sweep(tabs: &Tables, samples: usize, seed: u64, k_tol: f64, only: Option<&str>) -> Result<Value, String> {
    let mut rep = SweepReport::default();
    for table in tabs.tables.iter().filter(|t| t.op == "chain") {
        for key in keys_for(&table.ty, 24) {
            if let Some(f) = only {
                if !key.contains(f) {
                    continue;
                }
            }
            match dispatch(key, Sweep { tabs, table, fns: ELEM_FNS, samples, seed, k_tol, report: &mut rep }) {
                Some(Ok(())) => {}
                Some(Err(e)) => return Err(e),
                None => {}
            }
        }
    }
    Ok(report_json(&rep))
}
