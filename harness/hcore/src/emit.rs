//! Trace emission (implementation -> spec): seeded random programs on the real crate,
//! one NDJSON event per public call, logged at its return with the full projected result.
//! TLC validates the trace with spec/TraceCalc.tla.
use crate::absval::*;
use crate::calc::*;
use crate::registry::*;
use serde_json::{json, Value};
use std::io::Write;
use std::panic::{catch_unwind, AssertUnwindSafe};

pub struct Rng(pub u64);
impl Rng {
    pub fn next(&mut self) -> u64 {
        // splitmix64
        self.0 = self.0.wrapping_add(0x9E3779B97F4A7C15);
        let mut z = self.0;
        z = (z ^ (z >> 30)).wrapping_mul(0xBF58476D1CE4E5B9);
        z = (z ^ (z >> 27)).wrapping_mul(0x94D049BB133111EB);
        z ^ (z >> 31)
    }
    pub fn below(&mut self, n: u64) -> u64 {
        self.next() % n
    }
    pub fn pick<'a, T>(&mut self, xs: &'a [T]) -> &'a T {
        &xs[self.below(xs.len() as u64) as usize]
    }
    pub fn unit(&mut self) -> f64 {
        (self.next() >> 11) as f64 / (1u64 << 53) as f64
    }
}

fn strip_dims(v: &mut Value) {
    match v {
        Value::Object(o) => {
            o.remove("dims");
            for (_, x) in o.iter_mut() {
                strip_dims(x);
            }
        }
        Value::Array(a) => a.iter_mut().for_each(strip_dims),
        _ => {}
    }
}

fn has_inexact(v: &Value) -> bool {
    match v {
        Value::Object(o) => o.contains_key("f") || o.values().any(has_inexact),
        Value::Array(a) => a.iter().any(has_inexact),
        _ => false,
    }
}

pub struct Shape {
    pub kind: String,
    pub n: usize,
    pub m: usize,
    /// nested types: the scalar dual number type the stored scalars belong to
    pub inner: Option<String>,
}

fn fields(kind: &str) -> Vec<&'static str> {
    match kind {
        "Dual" | "DualVec" => vec!["eps"],
        "Dual2" | "Dual2Vec" => vec!["v1", "v2"],
        "Dual3" => vec!["v1", "v2", "v3"],
        "HyperDual" | "HyperDualVec" => vec!["eps1", "eps2", "eps1eps2"],
        _ => vec!["eps1", "eps2", "eps3", "eps1eps2", "eps1eps3", "eps2eps3", "eps1eps2eps3"],
    }
}

fn dims(sh: &Shape, f: &str) -> (usize, usize) {
    match (sh.kind.as_str(), f) {
        ("DualVec", _) => (sh.n, 1),
        ("Dual2Vec", "v1") => (1, sh.n),
        ("Dual2Vec", _) => (sh.n, sh.n),
        ("HyperDualVec", "eps1") => (sh.m, 1),
        ("HyperDualVec", "eps2") => (1, sh.n),
        _ => (sh.m, sh.n),
    }
}

const SMALL: [(i64, i64); 11] = [(0, 1), (1, 1), (-1, 1), (2, 1), (-2, 1), (3, 1), (-3, 1), (1, 2), (-1, 2), (3, 2), (-3, 2)];
const SMALL_INT: [(i64, i64); 7] = [(0, 1), (1, 1), (-1, 1), (2, 1), (-2, 1), (3, 1), (-3, 1)];
const RE_VALS: [(i64, i64); 9] = [(0, 1), (1, 1), (-1, 1), (2, 1), (-2, 1), (4, 1), (1, 2), (-1, 2), (1, 4)];
const RE_INT: [(i64, i64); 6] = [(0, 1), (1, 1), (-1, 1), (2, 1), (-2, 1), (4, 1)];

pub fn random_value(rng: &mut Rng, sh: &Shape, f32mode: bool) -> Value {
    // a stored scalar: a rational, or (nested types) an inner number with that real part and small integer parts
    let lift = |rng: &mut Rng, re: Value| -> Value {
        match &sh.inner {
            None => re,
            Some(k) => {
                let mut o = serde_json::Map::new();
                o.insert("re".into(), re);
                for f in fields(k) {
                    let (n, d) = if rng.below(5) == 0 { (0, 1) } else { *rng.pick(&SMALL_INT) };
                    o.insert(f.into(), json!([n, d]));
                }
                Value::Object(o)
            }
        }
    };
    let ints = f32mode || sh.inner.is_some();
    let part = |rng: &mut Rng| {
        let (n, d) = if ints { if sh.inner.is_some() && rng.below(4) == 0 { (0, 1) } else { *rng.pick(&SMALL_INT) } } else { *rng.pick(&SMALL) };
        lift(rng, json!([n, d]))
    };
    let (rn, rd) = if ints { *rng.pick(&RE_INT) } else { *rng.pick(&RE_VALS) };
    let mut o = serde_json::Map::new();
    o.insert("re".into(), lift(rng, json!([rn, rd])));
    let vec = sh.kind.ends_with("Vec");
    for f in fields(&sh.kind) {
        if vec {
            if rng.below(4) == 0 {
                o.insert(f.into(), json!({"p": false}));
            } else {
                let (r, c) = dims(sh, f);
                let zero = rng.below(6) == 0;
                let m: Vec<Value> = (0..r).map(|_| Value::Array((0..c).map(|_| if zero { lift(rng, json!([0, 1])) } else { part(rng) }).collect())).collect();
                o.insert(f.into(), json!({"p": true, "m": m}));
            }
        } else {
            o.insert(f.into(), part(rng));
        }
    }
    Value::Object(o)
}

struct Emit<'a> {
    sh: &'a Shape,
    seed: u64,
    events: usize,
    out: &'a mut dyn Write,
    nr: usize,
}

fn is_pm2k(x: f64) -> bool {
    x != 0.0 && x.is_finite() && {
        let b = x.abs().to_bits();
        (b & ((1u64 << 52) - 1)) == 0 && ((b >> 52) & 0x7ff) != 0
    }
}

impl<'a> TypeFn for Emit<'a> {
    type Out = (usize, usize);
    fn call<T: Calc>(self) -> (usize, usize) {
        let mut rng = Rng(self.seed ^ 0xD1B54A32D192ED03);
        let f32mode = T::MANT < 53;
        let nr = self.nr;
        let mut regs: Vec<T> = (0..nr).map(|_| T::zero()).collect();
        let ord = T::KEY.split(':').next().map(|k| k.ends_with("Vec") || k == "Dual" || k == "Dual2").unwrap_or(false);
        let bin = ["add", "sub", "mul", "div"];
        let binf = ["add_f", "sub_f", "mul_f", "div_f"];
        let forms = ["oo", "or", "ro", "rr", "assign"];
        let un = ["neg", "neg_ref", "abs", "signum", "inv", "recip", "sqrt", "exp", "sin", "cos", "ln", "exp_m1", "ln_1p", "atan", "tan", "tanh", "sinh", "cosh", "asin", "asinh", "atanh"];
        let obs = ["is_zero", "is_one", "is_positive", "is_negative", "re"];
        let cmps = ["eq", "ne", "lt", "le", "gt", "ge"];
        let scal: [(i64, i64); 6] = [(2, 1), (-1, 2), (3, 1), (-2, 1), (1, 4), (-3, 1)];
        let mut emitted = 0usize;
        let mut tried = 0usize;
        while emitted < self.events && tried < self.events * 20 {
            tried += 1;
            let r = |rng: &mut Rng| 1 + rng.below(nr as u64) as usize;
            let (a, b, c, d) = (r(&mut rng), r(&mut rng), r(&mut rng), r(&mut rng));
            let mut ev = json!({"op": "", "form": "", "a": a, "b": b, "c": c, "d": d, "s": [0, 1], "n": 0, "rs": []});
            let roll = rng.below(100);
            if roll < 30 || emitted < nr {
                let dd = if emitted < nr { emitted + 1 } else { d };
                ev["op"] = json!("load");
                ev["a"] = json!(dd); ev["b"] = json!(dd); ev["c"] = json!(dd); ev["d"] = json!(dd);
                ev["v"] = random_value(&mut rng, self.sh, f32mode);
            } else if roll < 55 {
                let f = *rng.pick(&forms);
                ev["op"] = json!(*rng.pick(&bin));
                ev["form"] = json!(f);
                if f == "assign" { ev["d"] = json!(a); }
            } else if roll < 65 {
                let f = if rng.below(2) == 0 { "op" } else { "assign" };
                let op = *rng.pick(&binf);
                ev["op"] = json!(op);
                ev["form"] = json!(f);
                let (n, dd) = if op == "div_f" { *rng.pick(&[(2i64, 1i64), (-2, 1), (1, 2), (4, 1), (-1, 1)]) } else { *rng.pick(&scal) };
                ev["s"] = json!([n, dd]);
                if f == "assign" { ev["d"] = json!(a); }
            } else if roll < 78 {
                let op = *rng.pick(&un);
                // elementary functions only at the points where the model has exact values
                let mut fl = vec![];
                regs[a - 1].flat(&mut fl);
                let re = fl[0];
                let ok = match op {
                    "neg" | "neg_ref" => true,
                    "abs" | "signum" => re != 0.0,
                    "inv" | "recip" => is_pm2k(re),
                    "sqrt" => re > 0.0 && is_pm2k(re) && is_pm2k(re.sqrt()),
                    "ln" => re == 1.0,
                    _ => re == 0.0,
                };
                if !ok { continue; }
                ev["op"] = json!(op);
            } else if roll < 83 {
                ev["op"] = json!("powi");
                ev["n"] = json!(*rng.pick(&[-2i64, -1, 0, 1, 2, 3, 4, 5]));
            } else if roll < 86 {
                ev["op"] = json!("mul_add");
            } else if roll < 90 {
                ev["op"] = json!(if rng.below(2) == 0 { "sum" } else { "product" });
                ev["form"] = json!(if rng.below(2) == 0 { "owned" } else { "ref" });
                let k = rng.below(4) as usize;
                ev["rs"] = json!((0..k).map(|_| r(&mut rng)).collect::<Vec<_>>());
            } else if roll < 92 {
                ev["op"] = json!("abs_sub");
            } else if roll < 94 {
                ev["op"] = json!(*rng.pick(&["zero", "one", "from_f"]));
                let (n, dd) = *rng.pick(&scal);
                ev["s"] = json!([n, dd]);
            } else if roll < 97 || !ord {
                let op = *rng.pick(&obs);
                ev["op"] = json!(op);
            } else {
                ev["op"] = json!(*rng.pick(&cmps));
            }
            let evp = match Ev::from_json(&ev) { Ok(e) => e, Err(_) => continue };
            let res = catch_unwind(AssertUnwindSafe(|| T::apply(&regs, &evp)));
            let (mut post, newval): (Value, Option<T>) = match res {
                Err(_) => (json!({"panic": true}), None),
                Ok(Err(_)) | Ok(Ok(Out::Unsupported)) => continue,
                Ok(Ok(Out::Bool(b))) => (json!(b), None),
                Ok(Ok(Out::Re(x))) => (f64_to_json(x), None),
                Ok(Ok(Out::Val(v))) => (v.to_json(), Some(v)),
            };
            strip_dims(&mut post);
            if has_inexact(&post) {
                // the result left the range the exact model can represent: do not log, do not store
                continue;
            }
            if let Some(v) = newval {
                regs[evp.d - 1] = v;
            }
            emitted += 1;
            writeln!(self.out, "{}", json!({"ev": ev, "post": post})).unwrap();
        }
        (emitted, tried)
    }
}

pub fn emit(key: &str, sh: &Shape, seed: u64, events: usize, nr: usize, out: &mut dyn Write) -> Option<(usize, usize)> {
    dispatch(key, Emit { sh, seed, events, out, nr })
}
