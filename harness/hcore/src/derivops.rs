//! C07 at the source: every public operator of `Derivative` replayed on the cases enumerated
//! by TLC (DerivOps.tla) for statically and dynamically sized matrices.
use crate::absval::*;
use nalgebra::allocator::Allocator;
use nalgebra::{Const, DefaultAllocator, Dim, Dyn};
use num_dual::Derivative;
use serde_json::{json, Value};
use std::collections::BTreeMap;

type Dv<R, C> = Derivative<f64, f64, R, C>;

fn q(v: &Value) -> f64 {
    v[0].as_f64().unwrap() / v[1].as_f64().unwrap()
}

fn same_shape<R: Dim, C: Dim>(op: &str, a: &Value, b: &Value, s: f64, r: usize, c: usize) -> Result<Option<Value>, String>
where
    DefaultAllocator: Allocator<R, C>,
{
    let da: Dv<R, C> = deriv_from_json(a)?;
    let db: Dv<R, C> = deriv_from_json(b)?;
    let res: Dv<R, C> = match op {
        "add_oo" => da + db,
        "add_or" => da + &db,
        "add_rr" => &da + &db,
        "sub_oo" => da - db,
        "sub_or" => da - &db,
        "sub_rr" => &da - &db,
        "add_assign" => { let mut x = da; x += db; x }
        "sub_assign" => { let mut x = da; x -= db; x }
        "mul_t" => da * s,
        "mul_t_ref" => &da * s,
        "div_t" => da / s,
        "div_t_ref" => &da / s,
        "mul_assign_t" => { let mut x = da; x *= s; x }
        "div_assign_t" => { let mut x = da; x /= s; x }
        "neg" => -da,
        "neg_ref" => -&da,
        "unwrap_generic" => Derivative::some(da.unwrap_generic(R::from_usize(r), C::from_usize(c))),
        _ => return Ok(None),
    };
    Ok(Some(deriv_to_json(&res)))
}

macro_rules! by_shape {
    ($r:expr, $c:expr, $f:ident, $($args:expr),*) => {
        match ($r, $c) {
            (1, 1) => $f::<Const<1>, Const<1>>($($args),*),
            (2, 1) => $f::<Const<2>, Const<1>>($($args),*),
            (1, 2) => $f::<Const<1>, Const<2>>($($args),*),
            (2, 2) => $f::<Const<2>, Const<2>>($($args),*),
            (3, 1) => $f::<Const<3>, Const<1>>($($args),*),
            _ => Ok(None),
        }
    };
}

pub fn run(path: &str) -> Result<Value, String> {
    let text = std::fs::read_to_string(path).map_err(|e| format!("{path}: {e}"))?;
    let (mut cases, mut checks, mut drift, mut n_viol) = (0u64, 0u64, 0u64, 0u64);
    let mut per_case: BTreeMap<String, u64> = BTreeMap::new();
    let mut viol: Vec<Value> = vec![];
    let mut samples: Vec<Value> = vec![];
    for line in text.lines() {
        let Some(v) = crate::replay::parse_tagged(line, "DERIV") else { continue };
        cases += 1;
        let c = &v["case"];
        let op = c["op"].as_str().unwrap_or("");
        let (r, cc) = (c["sh"][0].as_u64().unwrap() as usize, c["sh"][1].as_u64().unwrap() as usize);
        let (r2, c2) = (c["sh2"][0].as_u64().unwrap() as usize, c["sh2"][1].as_u64().unwrap() as usize);
        let s = q(&c["s"]);
        let mut results: Vec<(String, Value)> = vec![];
        if op == "mul" || op == "tr_mul" {
            // dynamically sized, and the statically sized outer products that the vector types use
            let da: Dv<Dyn, Dyn> = deriv_from_json(&c["a"])?;
            let db: Dv<Dyn, Dyn> = deriv_from_json(&c["b"])?;
            let res = if op == "mul" { &da * &db } else { da.tr_mul(&db) };
            results.push(("dyn".into(), deriv_to_json(&res)));
            if op == "mul" && (r, c2) == (2, 2) {
                let a: Dv<Const<2>, Const<1>> = deriv_from_json(&c["a"])?;
                let b: Dv<Const<1>, Const<2>> = deriv_from_json(&c["b"])?;
                results.push(("static".into(), deriv_to_json(&(&a * &b))));
            }
            if op == "tr_mul" && (cc, c2) == (2, 2) {
                let a: Dv<Const<1>, Const<2>> = deriv_from_json(&c["a"])?;
                let b: Dv<Const<1>, Const<2>> = deriv_from_json(&c["b"])?;
                results.push(("static".into(), deriv_to_json(&a.tr_mul(&b))));
            }
            let _ = r2;
        } else {
            if let Some(x) = by_shape!(r, cc, same_shape, op, &c["a"], &c["b"], s, r, cc)? { results.push(("static".into(), x)); }
            if let Some(x) = same_shape::<Dyn, Dyn>(op, &c["a"], &c["b"], s, r, cc)? { results.push(("dyn".into(), x)); }
        }
        for (st, obs) in results {
            checks += 1;
            *per_case.entry(format!("{op}|{st}|{}", if c["a"]["p"] == json!(true) { "some" } else { "none" }.to_string() + "," + if c["b"]["p"] == json!(true) { "some" } else { "none" })).or_insert(0) += 1;
            match compare(&obs, &v["result"]) {
                Cmp::Same => {}
                Cmp::Drift => drift += 1,
                Cmp::Differ => {
                    n_viol += 1;
                    if viol.len() < 6 { viol.push(json!({"case": c, "storage": st, "expected": v["result"], "observed": obs})); }
                }
            }
            if samples.len() < 3 && op == "sub_assign" && c["a"]["p"] == json!(false) && c["b"]["p"] == json!(true) { samples.push(json!({"case": c, "observed": obs})); }
        }
    }
    Ok(json!({"cases": cases, "checks": checks, "presence_drift": drift, "distinct_cases": per_case.len(), "per_case": per_case,
              "n_violations": n_viol, "violations": viol, "samples": samples}))
}
