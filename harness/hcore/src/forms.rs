//! C08, conversions: every FromPrimitive entry point and every FloatConst constant of every
//! concrete type against the scalar type's own conversion / constant (table from Forms.tla).
use crate::absval::*;
use crate::calc::*;
use crate::registry::*;
use serde_json::{json, Value};

struct FormsFn<'a> {
    table: &'a Value,
}

pub struct FormsOut {
    pub checks: u64,
    pub entry_points: u64,
    pub viol: Vec<Value>,
}

fn is_constant<T: Calc>(x: &T, re: f64) -> Result<(), String> {
    let mut flat = vec![];
    x.flat(&mut flat);
    if flat.is_empty() {
        return Err("empty value".into());
    }
    if flat[0].to_bits() != re.to_bits() && !(flat[0].is_nan() && re.is_nan()) {
        return Err(format!("real part {:e} instead of {:e}", flat[0], re));
    }
    if let Some((k, d)) = flat.iter().enumerate().skip(1).find(|(_, d)| **d != 0.0 || d.is_nan()) {
        return Err(format!("derivative part #{k} is {d:e}, not zero"));
    }
    Ok(())
}

impl<'a> TypeFn for FormsFn<'a> {
    type Out = Result<FormsOut, String>;
    fn call<T: Calc>(self) -> Self::Out {
        let mut out = FormsOut { checks: 0, entry_points: 0, viol: vec![] };
        for en in self.table["from_prim"].as_array().ok_or("from_prim")? {
            let name = en["name"].as_str().ok_or("name")?;
            out.entry_points += 1;
            for a in en["args"].as_array().ok_or("args")? {
                let (s, e, o) = (a["s"].as_i64().unwrap() as i32, a["e"].as_u64().unwrap() as u32, a["o"].as_i64().unwrap());
                let (got, want) = T::from_prim(name, s, e, o).ok_or(format!("unknown entry point {name}"))?;
                out.checks += 1;
                let verdict = match (&got, want) {
                    (None, None) => Ok(()),
                    (Some(g), Some(w)) => is_constant(g, w),
                    (None, Some(w)) => Err(format!("None, the scalar conversion gives {w:e}")),
                    (Some(g), None) => Err(format!("{}, the scalar conversion gives None", g.show())),
                };
                if let Err(why) = verdict {
                    out.viol.push(json!({"key": T::KEY, "entry": name, "arg": a, "why": why,
                                         "got": got.as_ref().map(|g| g.to_json())}));
                }
            }
        }
        // from_inner: the inner number becomes the real part, every derivative part is zero / absent
        {
            let mut tmpl = T::zero().to_json()["re"].clone();
            let mut k = 0.0f64;
            fn fill(v: &mut Value, k: &mut f64) {
                match v {
                    Value::Array(a) if a.len() == 2 && a[0].is_number() => { *k += 1.0; *v = f64_to_json((*k * 3.0 - 7.0) / 2.0); }
                    Value::Array(a) => a.iter_mut().for_each(|x| fill(x, k)),
                    Value::Object(o) => o.iter_mut().for_each(|(_, x)| fill(x, k)),
                    _ => {}
                }
            }
            fill(&mut tmpl, &mut k);
            let got = T::from_inner_json(&tmpl)?;
            out.checks += 1;
            out.entry_points += 1;
            let gj = got.to_json();
            let mut flat = vec![];
            got.flat(&mut flat);
            let n_inner = k as usize;
            let rest_zero = flat.iter().skip(n_inner).all(|x| *x == 0.0);
            if compare(&gj["re"], &tmpl) != Cmp::Same || !rest_zero || flat.len() < n_inner {
                out.viol.push(json!({"key": T::KEY, "entry": "from_inner", "why": "from_inner(x) is not the constant x", "inner": tmpl, "got": gj}));
            }
        }
        for c in self.table["float_const"].as_array().ok_or("float_const")? {
            let name = c.as_str().ok_or("const")?;
            let (got, want) = T::float_const(name).ok_or(format!("unknown constant {name}"))?;
            out.checks += 1;
            out.entry_points += 1;
            if let Err(why) = is_constant(&got, want) {
                out.viol.push(json!({"key": T::KEY, "entry": name, "why": why, "got": got.to_json()}));
            }
        }
        Ok(out)
    }
}

pub fn run(path: &str) -> Result<Value, String> {
    let text = std::fs::read_to_string(path).map_err(|e| format!("{path}: {e}"))?;
    let table = text.lines().find_map(|l| crate::replay::parse_tagged(l, "FORMS")).ok_or("no FORMS line")?;
    let (mut checks, mut entries, mut types) = (0u64, 0u64, 0u64);
    let mut viol = vec![];
    for key in ALL_KEYS {
        let r = dispatch(key, FormsFn { table: &table }).ok_or("key")??;
        checks += r.checks;
        entries = r.entry_points;
        types += 1;
        viol.extend(r.viol);
    }
    Ok(json!({"types": types, "entry_points_per_type": entries, "checks": checks,
              "violations": viol.len(), "viol": viol.into_iter().take(20).collect::<Vec<_>>()}))
}
