//! The concrete machine: one public call of num-dual per event, by name and form.
use crate::absval::*;
#[allow(unused_imports)]
use num_dual::*;
#[allow(unused_imports)]
use num_traits::{Inv, One, Signed, Zero};
use serde_json::Value;

#[derive(Debug, Clone)]
pub struct Ev {
    pub op: String,
    pub form: String,
    pub a: usize,
    pub b: usize,
    pub c: usize,
    pub d: usize,
    pub s: f64,
    pub n: i32,
    pub rs: Vec<usize>,
    pub v: Value,
}

impl Ev {
    pub fn from_json(v: &Value) -> Result<Ev, String> {
        let idx = |k: &str| v.get(k).and_then(|x| x.as_u64()).map(|x| x as usize).unwrap_or(1);
        Ok(Ev {
            op: v.get("op").and_then(|x| x.as_str()).ok_or("op")?.to_string(),
            form: v.get("form").and_then(|x| x.as_str()).unwrap_or("").to_string(),
            a: idx("a"),
            b: idx("b"),
            c: idx("c"),
            d: idx("d"),
            s: v.get("s").map(f64_from_json).transpose()?.unwrap_or(0.0),
            n: v.get("n").and_then(|x| x.as_i64()).unwrap_or(0) as i32,
            rs: v
                .get("rs")
                .and_then(|x| x.as_array())
                .map(|a| a.iter().map(|x| x.as_u64().unwrap() as usize).collect())
                .unwrap_or_default(),
            v: v.get("v").cloned().unwrap_or(Value::Null),
        })
    }
}

pub enum Out<T> {
    Val(T),
    Bool(bool),
    Re(f64),
    Unsupported,
}

pub trait Calc: AbsVal + 'static {
    const KEY: &'static str;
    const MANT: u32;
    const NDERIV: usize;
    fn zero() -> Self;
    fn show(&self) -> String;
    /// Display under one of the format specs of Render.tla (None: a spec this harness does not know)
    fn show_spec(&self, spec: &str) -> Option<String>;
    /// registers are 1-based in events
    fn apply(regs: &[Self], ev: &Ev) -> Result<Out<Self>, String>;
    /// FromPrimitive entry point `name` on sign * 2^e + o: (what the type returns, what the scalar
    /// type F returns for the same entry point, widened to f64); None: unknown entry point
    fn from_prim(name: &str, sign: i32, e: u32, o: i64) -> Option<(Option<Self>, Option<f64>)>;
    /// FloatConst constant `name`: (the type's constant, F's constant widened to f64)
    fn float_const(name: &str) -> Option<(Self, f64)>;
    /// DualNum::from_inner on the inner number described by `v` (the projection of a value of the scalar type)
    fn from_inner_json(v: &Value) -> Result<Self, String>;
}

pub fn prim_signed(sign: i32, e: u32, o: i64) -> i128 {
    let p = if e >= 127 { i128::MIN } else { 1i128 << e };
    // -2^127 is representable, +2^127 - 1 is reached through the wrapping subtraction
    if sign < 0 { p.wrapping_neg().wrapping_add(o as i128) } else { p.wrapping_add(o as i128) }
}
pub fn prim_unsigned(e: u32, o: i64) -> u128 {
    let p = if e >= 128 { 0u128 } else { 1u128 << e };
    p.wrapping_add(o as i128 as u128)
}

#[macro_export]
macro_rules! cmp_arm {
    (ord, $x:expr, $y:expr, $op:tt) => { Out::Bool($x $op $y) };
    (noord, $x:expr, $y:expr, $op:tt) => { Out::Unsupported };
}

#[macro_export]
macro_rules! approx_arm {
    (ord, $e:expr) => { Out::Bool($e) };
    (noord, $e:expr) => { Out::Unsupported };
}

#[macro_export]
macro_rules! approx_val_arm {
    (ord, $e:expr) => { $e };
    (noord, $e:expr) => { Out::Unsupported };
}

#[macro_export]
macro_rules! bessel_arm {
    (bes, $x:expr, $f:ident) => { Out::Val(num_dual::BesselDual::$f($x.clone())) };
    (nobes, $x:expr, $f:ident) => { Out::Unsupported };
}

#[macro_export]
macro_rules! impl_calc {
    ($key:expr, $T:ty, $F:ty, $mant:expr, $ord:ident, $bes:ident) => {
        impl Calc for $T {
            const KEY: &'static str = $key;
            const MANT: u32 = $mant;
            const NDERIV: usize = <$T as DualNum<$F>>::NDERIV;
            fn zero() -> Self {
                <$T as Zero>::zero()
            }
            fn show(&self) -> String {
                format!("{}", self)
            }
            fn show_spec(&self, spec: &str) -> Option<String> {
                Some(match spec {
                    "{}" => format!("{}", self),
                    "{:.2}" => format!("{:.2}", self),
                    "{:>40}" => format!("{:>40}", self),
                    "{:<40.1}" => format!("{:<40.1}", self),
                    "{:^9.0}" => format!("{:^9.0}", self),
                    "{:012.3}" => format!("{:012.3}", self),
                    _ => return None,
                })
            }
            fn from_prim(name: &str, sign: i32, e: u32, o: i64) -> Option<(Option<Self>, Option<f64>)> {
                use num_traits::FromPrimitive as FP;
                type D = $T;
                let i = $crate::calc::prim_signed(sign, e, o);
                let u = $crate::calc::prim_unsigned(e, o);
                let fl = (sign as f64) * (e as f64).exp2() + (o as f64) + 0.3;
                let w = |x: Option<$F>| x.map(|f| f as f64);
                Some(match name {
                    "from_isize" => (<D as FP>::from_isize(i as isize), w(<$F as FP>::from_isize(i as isize))),
                    "from_i8" => (<D as FP>::from_i8(i as i8), w(<$F as FP>::from_i8(i as i8))),
                    "from_i16" => (<D as FP>::from_i16(i as i16), w(<$F as FP>::from_i16(i as i16))),
                    "from_i32" => (<D as FP>::from_i32(i as i32), w(<$F as FP>::from_i32(i as i32))),
                    "from_i64" => (<D as FP>::from_i64(i as i64), w(<$F as FP>::from_i64(i as i64))),
                    "from_i128" => (<D as FP>::from_i128(i), w(<$F as FP>::from_i128(i))),
                    "from_usize" => (<D as FP>::from_usize(u as usize), w(<$F as FP>::from_usize(u as usize))),
                    "from_u8" => (<D as FP>::from_u8(u as u8), w(<$F as FP>::from_u8(u as u8))),
                    "from_u16" => (<D as FP>::from_u16(u as u16), w(<$F as FP>::from_u16(u as u16))),
                    "from_u32" => (<D as FP>::from_u32(u as u32), w(<$F as FP>::from_u32(u as u32))),
                    "from_u64" => (<D as FP>::from_u64(u as u64), w(<$F as FP>::from_u64(u as u64))),
                    "from_u128" => (<D as FP>::from_u128(u), w(<$F as FP>::from_u128(u))),
                    "from_f32" => (<D as FP>::from_f32(fl as f32), w(<$F as FP>::from_f32(fl as f32))),
                    "from_f64" => (<D as FP>::from_f64(fl), w(<$F as FP>::from_f64(fl))),
                    _ => return None,
                })
            }
            fn from_inner_json(v: &Value) -> Result<Self, String> {
                let inner = <<$T as DualNum<$F>>::Inner as AbsVal>::from_json(v)?;
                Ok(<$T as DualNum<$F>>::from_inner(inner))
            }
            fn float_const(name: &str) -> Option<(Self, f64)> {
                use num_traits::FloatConst as FC;
                type D = $T;
                macro_rules! fc {
                    ($c:ident) => { (<D as FC>::$c(), <$F as FC>::$c() as f64) };
                }
                Some(match name {
                    "E" => fc!(E), "FRAC_1_PI" => fc!(FRAC_1_PI), "FRAC_1_SQRT_2" => fc!(FRAC_1_SQRT_2),
                    "FRAC_2_PI" => fc!(FRAC_2_PI), "FRAC_2_SQRT_PI" => fc!(FRAC_2_SQRT_PI), "FRAC_PI_2" => fc!(FRAC_PI_2),
                    "FRAC_PI_3" => fc!(FRAC_PI_3), "FRAC_PI_4" => fc!(FRAC_PI_4), "FRAC_PI_6" => fc!(FRAC_PI_6),
                    "FRAC_PI_8" => fc!(FRAC_PI_8), "LN_10" => fc!(LN_10), "LN_2" => fc!(LN_2), "LOG10_E" => fc!(LOG10_E),
                    "LOG2_E" => fc!(LOG2_E), "PI" => fc!(PI), "SQRT_2" => fc!(SQRT_2),
                    _ => return None,
                })
            }
            #[allow(clippy::redundant_clone)]
            fn apply(regs: &[Self], ev: &Ev) -> Result<Out<Self>, String> {
                type D = $T;
                let a = &regs[ev.a - 1];
                let b = &regs[ev.b - 1];
                let c = &regs[ev.c - 1];
                let s = ev.s as $F;
                let n = ev.n;
                let r = match (ev.op.as_str(), ev.form.as_str()) {
                    ("load", _) => Out::Val(<D as AbsVal>::from_json(&ev.v)?),
                    ("add", "oo") => Out::Val(a.clone() + b.clone()),
                    ("add", "or") => Out::Val(a.clone() + b),
                    ("add", "ro") => Out::Val(a + b.clone()),
                    ("add", "rr") => Out::Val(a + b),
                    ("add", "assign") => { let mut x = a.clone(); x += b.clone(); Out::Val(x) }
                    ("sub", "oo") => Out::Val(a.clone() - b.clone()),
                    ("sub", "or") => Out::Val(a.clone() - b),
                    ("sub", "ro") => Out::Val(a - b.clone()),
                    ("sub", "rr") => Out::Val(a - b),
                    ("sub", "assign") => { let mut x = a.clone(); x -= b.clone(); Out::Val(x) }
                    ("mul", "oo") => Out::Val(a.clone() * b.clone()),
                    ("mul", "or") => Out::Val(a.clone() * b),
                    ("mul", "ro") => Out::Val(a * b.clone()),
                    ("mul", "rr") => Out::Val(a * b),
                    ("mul", "assign") => { let mut x = a.clone(); x *= b.clone(); Out::Val(x) }
                    ("div", "oo") => Out::Val(a.clone() / b.clone()),
                    ("div", "or") => Out::Val(a.clone() / b),
                    ("div", "ro") => Out::Val(a / b.clone()),
                    ("div", "rr") => Out::Val(a / b),
                    ("div", "assign") => { let mut x = a.clone(); x /= b.clone(); Out::Val(x) }
                    ("add_f", "op") => Out::Val(a.clone() + s),
                    ("add_f", "assign") => { let mut x = a.clone(); x += s; Out::Val(x) }
                    ("sub_f", "op") => Out::Val(a.clone() - s),
                    ("sub_f", "assign") => { let mut x = a.clone(); x -= s; Out::Val(x) }
                    ("mul_f", "op") => Out::Val(a.clone() * s),
                    ("mul_f", "assign") => { let mut x = a.clone(); x *= s; Out::Val(x) }
                    ("div_f", "op") => Out::Val(a.clone() / s),
                    ("div_f", "assign") => { let mut x = a.clone(); x /= s; Out::Val(x) }
                    ("neg", _) => Out::Val(-a.clone()),
                    ("neg_ref", _) => Out::Val(-a),
                    ("abs", _) => Out::Val(<D as Signed>::abs(a)),
                    ("signum", _) => Out::Val(<D as Signed>::signum(a)),
                    ("abs_sub", _) => Out::Val(<D as Signed>::abs_sub(a, b)),
                    ("inv", _) => Out::Val(<D as Inv>::inv(a.clone())),
                    ("recip", _) => Out::Val(<D as DualNum<$F>>::recip(a)),
                    ("sqrt", _) => Out::Val(<D as DualNum<$F>>::sqrt(a)),
                    ("cbrt", _) => Out::Val(<D as DualNum<$F>>::cbrt(a)),
                    ("exp", _) => Out::Val(<D as DualNum<$F>>::exp(a)),
                    ("exp2", _) => Out::Val(<D as DualNum<$F>>::exp2(a)),
                    ("exp_m1", _) => Out::Val(<D as DualNum<$F>>::exp_m1(a)),
                    ("ln", _) => Out::Val(<D as DualNum<$F>>::ln(a)),
                    ("log", _) => Out::Val(<D as DualNum<$F>>::log(a, s)),
                    ("log2", _) => Out::Val(<D as DualNum<$F>>::log2(a)),
                    ("log10", _) => Out::Val(<D as DualNum<$F>>::log10(a)),
                    ("ln_1p", _) => Out::Val(<D as DualNum<$F>>::ln_1p(a)),
                    ("sin", _) => Out::Val(<D as DualNum<$F>>::sin(a)),
                    ("cos", _) => Out::Val(<D as DualNum<$F>>::cos(a)),
                    ("sin_cos.0", _) => Out::Val(<D as DualNum<$F>>::sin_cos(a).0),
                    ("sin_cos.1", _) => Out::Val(<D as DualNum<$F>>::sin_cos(a).1),
                    ("tan", _) => Out::Val(<D as DualNum<$F>>::tan(a)),
                    ("asin", _) => Out::Val(<D as DualNum<$F>>::asin(a)),
                    ("acos", _) => Out::Val(<D as DualNum<$F>>::acos(a)),
                    ("atan", _) => Out::Val(<D as DualNum<$F>>::atan(a)),
                    ("atan2", _) => Out::Val(<D as DualNum<$F>>::atan2(a, b.clone())),
                    ("sinh", _) => Out::Val(<D as DualNum<$F>>::sinh(a)),
                    ("cosh", _) => Out::Val(<D as DualNum<$F>>::cosh(a)),
                    ("tanh", _) => Out::Val(<D as DualNum<$F>>::tanh(a)),
                    ("asinh", _) => Out::Val(<D as DualNum<$F>>::asinh(a)),
                    ("acosh", _) => Out::Val(<D as DualNum<$F>>::acosh(a)),
                    ("atanh", _) => Out::Val(<D as DualNum<$F>>::atanh(a)),
                    ("sph_j0", _) => Out::Val(<D as DualNum<$F>>::sph_j0(a)),
                    ("sph_j1", _) => Out::Val(<D as DualNum<$F>>::sph_j1(a)),
                    ("sph_j2", _) => Out::Val(<D as DualNum<$F>>::sph_j2(a)),
                    ("bessel_j0", _) => $crate::bessel_arm!($bes, a, bessel_j0),
                    ("bessel_j1", _) => $crate::bessel_arm!($bes, a, bessel_j1),
                    ("bessel_j2", _) => $crate::bessel_arm!($bes, a, bessel_j2),
                    ("powi", _) => Out::Val(<D as DualNum<$F>>::powi(a, n)),
                    ("powf", _) => Out::Val(<D as DualNum<$F>>::powf(a, s)),
                    ("powd", _) => Out::Val(<D as DualNum<$F>>::powd(a, b.clone())),
                    ("mul_add", _) => Out::Val(<D as DualNum<$F>>::mul_add(a, b.clone(), c.clone())),
                    ("sum", "owned") => Out::Val(ev.rs.iter().map(|&i| regs[i - 1].clone()).sum::<D>()),
                    ("sum", "ref") => Out::Val(ev.rs.iter().map(|&i| &regs[i - 1]).sum::<D>()),
                    ("product", "owned") => Out::Val(ev.rs.iter().map(|&i| regs[i - 1].clone()).product::<D>()),
                    ("product", "ref") => Out::Val(ev.rs.iter().map(|&i| &regs[i - 1]).product::<D>()),
                    ("from_f", _) => Out::Val(<D as From<$F>>::from(s)),
                    ("zero", _) => Out::Val(<D as Zero>::zero()),
                    ("one", _) => Out::Val(<D as One>::one()),
                    ("is_zero", _) => Out::Bool(<D as Zero>::is_zero(a)),
                    ("is_one", _) => Out::Bool(<D as One>::is_one(a)),
                    ("is_positive", _) => Out::Bool(<D as Signed>::is_positive(a)),
                    ("is_negative", _) => Out::Bool(<D as Signed>::is_negative(a)),
                    ("re", _) => Out::Re(<D as DualNum<$F>>::re(a) as f64),
                    ("eq", _) => $crate::cmp_arm!($ord, a, b, ==),
                    ("ne", _) => $crate::cmp_arm!($ord, a, b, !=),
                    ("lt", _) => $crate::cmp_arm!($ord, a, b, <),
                    ("le", _) => $crate::cmp_arm!($ord, a, b, <=),
                    ("gt", _) => $crate::cmp_arm!($ord, a, b, >),
                    ("ge", _) => $crate::cmp_arm!($ord, a, b, >=),
                    ("abs_diff_eq", _) => $crate::approx_arm!($ord, approx::AbsDiffEq::abs_diff_eq(a, b, c.clone())),
                    ("relative_eq", _) => $crate::approx_arm!($ord, approx::RelativeEq::relative_eq(a, b, c.clone(), c.clone())),
                    ("ulps_eq", _) => $crate::approx_arm!($ord, approx::UlpsEq::ulps_eq(a, b, c.clone(), 4)),
                    ("default_epsilon", _) => $crate::approx_val_arm!($ord, Out::Val(<D as approx::AbsDiffEq>::default_epsilon())),
                    ("default_max_relative", _) => $crate::approx_val_arm!($ord, Out::Val(<D as approx::RelativeEq>::default_max_relative())),
                    ("default_max_ulps", _) => $crate::approx_val_arm!($ord, Out::Re(<D as approx::UlpsEq>::default_max_ulps() as f64)),
                    _ => Out::Unsupported,
                };
                Ok(r)
            }
        }
    };
}
