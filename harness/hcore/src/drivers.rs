//! C05: the twenty driver functions on the closures described by TLC (Drivers.tla, "num"
//! mode): generic cubic polynomial maps with pairwise distinct integer coefficients.  The
//! closure is built from the description with generic DualNum operations only; expected
//! values are TLC's formal derivatives.  Everything is an integer: comparisons are exact.
use nalgebra::{Const, DVector, Dyn, OMatrix, OVector, SVector};
use num_dual::*;
use serde_json::{json, Value};
use std::collections::BTreeMap;

type Terms = Vec<(Vec<u32>, f64)>;

fn poly<D: DualNum<F> + Clone, F: DualNumFloat>(terms: &Terms, xs: &[D]) -> D {
    let mut acc = D::from(F::from(0.0).unwrap());
    for (e, c) in terms {
        let mut t = D::from(F::from(*c).unwrap());
        for (i, &ei) in e.iter().enumerate() {
            for _ in 0..ei {
                t = t * xs[i].clone();
            }
        }
        acc = acc + t;
    }
    acc
}

fn rat(v: &Value) -> f64 {
    v[0].as_f64().unwrap() / v[1].as_f64().unwrap()
}
fn vecq(v: &Value) -> Vec<f64> {
    v.as_array().map(|a| a.iter().map(rat).collect()).unwrap_or_default()
}
fn matq(v: &Value) -> Vec<Vec<f64>> {
    v.as_array().map(|a| a.iter().map(vecq).collect()).unwrap_or_default()
}

pub struct Rep {
    pub calls: u64,
    pub per_driver: BTreeMap<String, u64>,
    pub mismatches: Vec<Value>,
    pub n_mismatch: u64,
    pub samples: Vec<Value>,
}

impl Rep {
    fn check(&mut self, what: &str, case: &Value, ok: bool, observed: String, expected: String) {
        self.calls += 1;
        *self.per_driver.entry(what.to_string()).or_insert(0) += 1;
        if !ok {
            self.n_mismatch += 1;
            if self.mismatches.len() < 6 {
                self.mismatches.push(json!({"driver": what, "case": case, "observed": observed, "expected": expected}));
            }
        } else if self.samples.len() < 4 && self.calls % 53 == 1 {
            self.samples.push(json!({"driver": what, "case": case["case"], "result": observed}));
        }
    }
}

const ERRS: [u32; 3] = [0, 7, 4242];

macro_rules! scalar_drivers {
    ($F:ty, $tag:expr, $rep:expr, $case:expr, $terms:expr, $x:expr, $want:expr) => {{
        let d = $case["case"]["d"].as_str().unwrap();
        let t = &$terms[0];
        let w: Vec<$F> = $want.iter().map(|v| *v as $F).collect();
        match d {
            "first_derivative" => {
                let x0 = $x[0] as $F;
                let r = first_derivative(|v| poly::<_, $F>(t, &[v]), x0);
                $rep.check(&format!("first_derivative:{}", $tag), $case, vec![r.0, r.1] == w, format!("{:?}", r), format!("{:?}", w));
                let r2 = try_first_derivative(|v| Ok::<_, u32>(poly::<_, $F>(t, &[v])), x0);
                $rep.check(&format!("try_first_derivative:{}", $tag), $case, r2 == Ok(r), format!("{:?}", r2), format!("{:?}", r));
                for e in ERRS {
                    let r3 = try_first_derivative(|_v: Dual<$F, $F>| Err::<Dual<$F, $F>, u32>(e), x0);
                    $rep.check(&format!("try_first_derivative:err:{}", $tag), $case, r3 == Err(e), format!("{:?}", r3), format!("Err({e})"));
                }
            }
            "second_derivative" => {
                let x0 = $x[0] as $F;
                let r = second_derivative(|v| poly::<_, $F>(t, &[v]), x0);
                $rep.check(&format!("second_derivative:{}", $tag), $case, vec![r.0, r.1, r.2] == w, format!("{:?}", r), format!("{:?}", w));
                let r2 = try_second_derivative(|v| Ok::<_, String>(poly::<_, $F>(t, &[v])), x0);
                $rep.check(&format!("try_second_derivative:{}", $tag), $case, r2 == Ok(r), format!("{:?}", r2), format!("{:?}", r));
                let r3 = try_second_derivative(|_v: Dual2<$F, $F>| Err::<Dual2<$F, $F>, String>("boom".into()), x0);
                $rep.check(&format!("try_second_derivative:err:{}", $tag), $case, r3 == Err("boom".to_string()), format!("{:?}", r3), "Err(boom)".into());
            }
            "third_derivative" => {
                let x0 = $x[0] as $F;
                let r = third_derivative(|v| poly::<_, $F>(t, &[v]), x0);
                $rep.check(&format!("third_derivative:{}", $tag), $case, vec![r.0, r.1, r.2, r.3] == w, format!("{:?}", r), format!("{:?}", w));
                let r2 = try_third_derivative(|v| Ok::<_, u32>(poly::<_, $F>(t, &[v])), x0);
                $rep.check(&format!("try_third_derivative:{}", $tag), $case, r2 == Ok(r), format!("{:?}", r2), format!("{:?}", r));
                for e in ERRS {
                    let r3 = try_third_derivative(|_v: Dual3<$F, $F>| Err::<Dual3<$F, $F>, u32>(e), x0);
                    $rep.check(&format!("try_third_derivative:err:{}", $tag), $case, r3 == Err(e), format!("{:?}", r3), format!("Err({e})"));
                }
                // the drivers over a scalar type that is itself a dual number (T = Dual / Dual2 seeded in x): every output
                // carries the derivative of one order more, so the four numbers of this case fix all of them
                let one = 1.0 as $F;
                let r = second_derivative(|v| poly::<_, $F>(t, &[v]), Dual::<$F, $F>::new(x0, one));
                $rep.check(&format!("second_derivative<Dual>:{}", $tag), $case,
                           vec![r.0.re, r.1.re, r.2.re] == w[0..3] && vec![r.0.eps, r.1.eps, r.2.eps] == w[1..4], format!("{:?}", r), format!("{:?}", w));
                let r2 = try_second_derivative(|v| Ok::<_, u32>(poly::<_, $F>(t, &[v])), Dual::<$F, $F>::new(x0, one));
                $rep.check(&format!("try_second_derivative<Dual>:{}", $tag), $case, r2 == Ok(r), format!("{:?}", r2), format!("{:?}", r));
                let r = first_derivative(|v| poly::<_, $F>(t, &[v]), Dual2::<$F, $F>::new(x0, one, 0.0 as $F));
                $rep.check(&format!("first_derivative<Dual2>:{}", $tag), $case,
                           vec![r.0.re, r.0.v1, r.0.v2] == w[0..3] && vec![r.1.re, r.1.v1, r.1.v2] == w[1..4], format!("{:?}", r), format!("{:?}", w));
                let r = third_derivative(|v| poly::<_, $F>(t, &[v]), Dual::<$F, $F>::new(x0, 0.0 as $F));
                $rep.check(&format!("third_derivative<Dual>:{}", $tag), $case,
                           vec![r.0.re, r.1.re, r.2.re, r.3.re] == w && r.0.eps == 0.0 as $F && r.3.eps == 0.0 as $F, format!("{:?}", r), format!("{:?}", w));
            }
            "second_partial_derivative" => {
                let (x0, y0) = ($x[0] as $F, $x[1] as $F);
                let r = second_partial_derivative(|a, b| poly::<_, $F>(t, &[a, b]), x0, y0);
                $rep.check(&format!("second_partial_derivative:{}", $tag), $case, vec![r.0, r.1, r.2, r.3] == w, format!("{:?}", r), format!("{:?}", w));
                let r2 = try_second_partial_derivative(|a, b| Ok::<_, u32>(poly::<_, $F>(t, &[a, b])), x0, y0);
                $rep.check(&format!("try_second_partial_derivative:{}", $tag), $case, r2 == Ok(r), format!("{:?}", r2), format!("{:?}", r));
                for e in ERRS {
                    let r3 = try_second_partial_derivative(|_a: HyperDual<$F, $F>, _b: HyperDual<$F, $F>| Err::<HyperDual<$F, $F>, u32>(e), x0, y0);
                    $rep.check(&format!("try_second_partial_derivative:err:{}", $tag), $case, r3 == Err(e), format!("{:?}", r3), format!("Err({e})"));
                }
            }
            "third_partial_derivative_vec" => {
                let xs: Vec<$F> = $x.iter().map(|v| *v as $F).collect();
                let (i, j, k) = ($case["case"]["i"].as_u64().unwrap() as usize - 1, $case["case"]["j"].as_u64().unwrap() as usize - 1,
                                 $case["case"]["k"].as_u64().unwrap() as usize - 1);
                let r = third_partial_derivative_vec(|v| poly::<_, $F>(t, v), &xs, i, j, k);
                let rv = vec![r.0, r.1, r.2, r.3, r.4, r.5, r.6, r.7];
                $rep.check(&format!("third_partial_derivative_vec:{}", $tag), $case, rv == w, format!("{:?}", r), format!("{:?}", w));
                let r2 = try_third_partial_derivative_vec(|v| Ok::<_, u32>(poly::<_, $F>(t, v)), &xs, i, j, k);
                $rep.check(&format!("try_third_partial_derivative_vec:{}", $tag), $case, r2 == Ok(r), format!("{:?}", r2), format!("{:?}", r));
                for e in ERRS {
                    let r3 = try_third_partial_derivative_vec(|_v: &[HyperHyperDual<$F, $F>]| Err::<HyperHyperDual<$F, $F>, u32>(e), &xs, i, j, k);
                    $rep.check(&format!("try_third_partial_derivative_vec:err:{}", $tag), $case, r3 == Err(e), format!("{:?}", r3), format!("Err({e})"));
                }
                if xs.len() == 2 && (i, j) == (0, 1) {
                    // second_partial_derivative over T = Dual seeded in variable k: real parts (f, f_x, f_y, f_xy), outer parts
                    // (f_k, f_xk, f_yk, f_xyk) -- all of them entries of this case
                    let sd = |q: usize| if k == q { 1.0 as $F } else { 0.0 as $F };
                    let r = second_partial_derivative(|a, b| poly::<_, $F>(t, &[a, b]), Dual::<$F, $F>::new(xs[0], sd(0)), Dual::<$F, $F>::new(xs[1], sd(1)));
                    let ok = vec![r.0.re, r.1.re, r.2.re, r.3.re] == vec![w[0], w[1], w[2], w[4]] && vec![r.0.eps, r.1.eps, r.2.eps, r.3.eps] == vec![w[3], w[5], w[6], w[7]];
                    $rep.check(&format!("second_partial_derivative<Dual>:{}", $tag), $case, ok, format!("{:?}", r), format!("{:?}", w));
                    let r2 = try_second_partial_derivative(|a, b| Ok::<_, u32>(poly::<_, $F>(t, &[a, b])), Dual::<$F, $F>::new(xs[0], sd(0)), Dual::<$F, $F>::new(xs[1], sd(1)));
                    $rep.check(&format!("try_second_partial_derivative<Dual>:{}", $tag), $case, r2 == Ok(r), format!("{:?}", r2), format!("{:?}", r));
                }
                if xs.len() == 3 && (i, j, k) == (0, 1, 2) {
                    // the three-argument form seeds x, y, z in this order
                    let r4 = third_partial_derivative(|a, b, c| poly::<_, $F>(t, &[a, b, c]), xs[0], xs[1], xs[2]);
                    $rep.check(&format!("third_partial_derivative:{}", $tag), $case, r4 == r, format!("{:?}", r4), format!("{:?}", r));
                    let r5 = try_third_partial_derivative(|a, b, c| Ok::<_, u32>(poly::<_, $F>(t, &[a, b, c])), xs[0], xs[1], xs[2]);
                    $rep.check(&format!("try_third_partial_derivative:{}", $tag), $case, r5 == Ok(r), format!("{:?}", r5), format!("{:?}", r));
                    let r6 = try_third_partial_derivative(|_a: HyperHyperDual<$F, $F>, _b: HyperHyperDual<$F, $F>, _c: HyperHyperDual<$F, $F>| Err::<HyperHyperDual<$F, $F>, u32>(9), xs[0], xs[1], xs[2]);
                    $rep.check(&format!("try_third_partial_derivative:err:{}", $tag), $case, r6 == Err(9), format!("{:?}", r6), "Err(9)".into());
                }
            }
            _ => {}
        }
    }};
}

/// gradient / hessian for a dimension type D (Const<N> or Dyn)
macro_rules! grad_hess {
    ($F:ty, $D:ty, $dim:expr, $tag:expr, $rep:expr, $case:expr, $terms:expr, $x:expr) => {{
        let d = $case["case"]["d"].as_str().unwrap();
        let t = &$terms[0];
        let n = $x.len();
        let xv: OVector<$F, $D> = OVector::<$F, $D>::from_iterator_generic($dim, Const::<1>, $x.iter().map(|v| *v as $F));
        let wf = rat(&$case["want"]["f"]) as $F;
        let wg: Vec<$F> = vecq(&$case["want"]["grad"]).iter().map(|v| *v as $F).collect();
        if d == "gradient" {
            let (f, g) = gradient(|v: OVector<DualVec<$F, $F, $D>, $D>| poly::<_, $F>(t, v.as_slice()), xv.clone());
            let ok = f == wf && g.as_slice() == &wg[..] && g.nrows() == n;
            $rep.check(&format!("gradient:{}", $tag), $case, ok, format!("{:?}", (f, g.as_slice())), format!("{:?}", (wf, &wg)));
            let r2 = try_gradient(|v: OVector<DualVec<$F, $F, $D>, $D>| Ok::<_, u32>(poly::<_, $F>(t, v.as_slice())), xv.clone());
            $rep.check(&format!("try_gradient:{}", $tag), $case, r2 == Ok((f, g.clone())), format!("{:?}", r2), "same as gradient".into());
            for e in ERRS {
                let r3 = try_gradient(|_v: OVector<DualVec<$F, $F, $D>, $D>| Err::<DualVec<$F, $F, $D>, u32>(e), xv.clone());
                $rep.check(&format!("try_gradient:err:{}", $tag), $case, r3 == Err(e), format!("{:?}", r3), format!("Err({e})"));
            }
        } else if d == "hessian" {
            let wh = matq(&$case["want"]["hess"]);
            let (f, g, h) = hessian(|v: OVector<Dual2Vec<$F, $F, $D>, $D>| poly::<_, $F>(t, v.as_slice()), xv.clone());
            let mut ok = f == wf && g.as_slice() == &wg[..] && h.nrows() == n && h.ncols() == n;
            for i in 0..n { for j in 0..n { ok = ok && h[(i, j)] == wh[i][j] as $F; } }
            $rep.check(&format!("hessian:{}", $tag), $case, ok, format!("{:?}", (f, g.as_slice(), h.as_slice())), format!("{:?}", (wf, &wg, &wh)));
            let r2 = try_hessian(|v: OVector<Dual2Vec<$F, $F, $D>, $D>| Ok::<_, u32>(poly::<_, $F>(t, v.as_slice())), xv.clone());
            $rep.check(&format!("try_hessian:{}", $tag), $case, r2 == Ok((f, g.clone(), h.clone())), format!("{:?}", r2), "same as hessian".into());
            let r3 = try_hessian(|_v: OVector<Dual2Vec<$F, $F, $D>, $D>| Err::<Dual2Vec<$F, $F, $D>, u32>(5), xv.clone());
            $rep.check(&format!("try_hessian:err:{}", $tag), $case, r3 == Err(5), format!("{:?}", r3), "Err(5)".into());
            // gradient over T = Dual seeded in x_0: outer parts are d/dx_0 of (f, grad) = (grad_0, row 0 of the Hessian)
            if n >= 1 {
                let xd: OVector<Dual<$F, $F>, $D> = OVector::<Dual<$F, $F>, $D>::from_iterator_generic($dim, Const::<1>,
                    $x.iter().enumerate().map(|(q, v)| Dual::<$F, $F>::new(*v as $F, if q == 0 { 1.0 as $F } else { 0.0 as $F })));
                let (fd, gd) = gradient(|v: OVector<DualVec<Dual<$F, $F>, $F, $D>, $D>| poly::<_, $F>(t, v.as_slice()), xd);
                let mut ok = fd.re == wf && fd.eps == wg[0] && gd.nrows() == n;
                for q in 0..n { ok = ok && gd[q].re == wg[q] && gd[q].eps == wh[0][q] as $F; }
                $rep.check(&format!("gradient<Dual>:{}", $tag), $case, ok, format!("{:?}", (fd, gd.as_slice())), format!("{:?}", (wf, &wg, &wh)));
            }
        }
    }};
}

macro_rules! jac {
    ($F:ty, $M:ty, $mdim:expr, $N:ty, $ndim:expr, $tag:expr, $rep:expr, $case:expr, $terms:expr, $x:expr) => {{
        let n = $x.len();
        let m = $terms.len();
        let xv: OVector<$F, $N> = OVector::<$F, $N>::from_iterator_generic($ndim, Const::<1>, $x.iter().map(|v| *v as $F));
        let wf: Vec<$F> = vecq(&$case["want"]["f"]).iter().map(|v| *v as $F).collect();
        let wj = matq(&$case["want"]["jac"]);
        let clo = |v: OVector<DualVec<$F, $F, $N>, $N>| -> OVector<DualVec<$F, $F, $N>, $M> {
            OVector::<DualVec<$F, $F, $N>, $M>::from_iterator_generic($mdim, Const::<1>, $terms.iter().map(|t| poly::<_, $F>(t, v.as_slice())))
        };
        let (f, j) = jacobian(clo, xv.clone());
        let mut ok = f.as_slice() == &wf[..] && j.nrows() == m && j.ncols() == n;
        for a in 0..m { for b in 0..n { ok = ok && j[(a, b)] == wj[a][b] as $F; } }
        $rep.check(&format!("jacobian:{}", $tag), $case, ok, format!("f={:?} J(row-major)={:?}", f.as_slice(), (0..m).map(|a| (0..n).map(|b| j[(a, b)]).collect::<Vec<_>>()).collect::<Vec<_>>()), format!("{:?}", (&wf, &wj)));
        let r2 = try_jacobian(|v: OVector<DualVec<$F, $F, $N>, $N>| Ok::<_, u32>(clo(v)), xv.clone());
        $rep.check(&format!("try_jacobian:{}", $tag), $case, r2 == Ok((f.clone(), j.clone())), format!("{:?}", r2), "same as jacobian".into());
        let r3 = try_jacobian(|_v: OVector<DualVec<$F, $F, $N>, $N>| Err::<OVector<DualVec<$F, $F, $N>, $M>, u32>(3), xv.clone());
        $rep.check(&format!("try_jacobian:err:{}", $tag), $case, r3 == Err(3), format!("{:?}", r3), "Err(3)".into());
    }};
}

macro_rules! phess {
    ($F:ty, $M:ty, $mdim:expr, $N:ty, $ndim:expr, $tag:expr, $rep:expr, $case:expr, $terms:expr, $x:expr) => {{
        let m = $case["case"]["m"].as_u64().unwrap() as usize;
        let n = $case["case"]["n"].as_u64().unwrap() as usize;
        let t = &$terms[0];
        let xv: OVector<$F, $M> = OVector::<$F, $M>::from_iterator_generic($mdim, Const::<1>, $x[..m].iter().map(|v| *v as $F));
        let yv: OVector<$F, $N> = OVector::<$F, $N>::from_iterator_generic($ndim, Const::<1>, $x[m..].iter().map(|v| *v as $F));
        let clo = |a: OVector<HyperDualVec<$F, $F, $M, $N>, $M>, b: OVector<HyperDualVec<$F, $F, $M, $N>, $N>| {
            let all: Vec<HyperDualVec<$F, $F, $M, $N>> = a.iter().cloned().chain(b.iter().cloned()).collect();
            poly::<_, $F>(t, &all)
        };
        let (f, gx, gy, h) = partial_hessian(clo, xv.clone(), yv.clone());
        let wf = rat(&$case["want"]["f"]) as $F;
        let wgx: Vec<$F> = vecq(&$case["want"]["gx"]).iter().map(|v| *v as $F).collect();
        let wgy: Vec<$F> = vecq(&$case["want"]["gy"]).iter().map(|v| *v as $F).collect();
        let wh = matq(&$case["want"]["hxy"]);
        let mut ok = f == wf && gx.as_slice() == &wgx[..] && gy.as_slice() == &wgy[..] && h.nrows() == m && h.ncols() == n;
        for a in 0..m { for b in 0..n { ok = ok && h[(a, b)] == wh[a][b] as $F; } }
        $rep.check(&format!("partial_hessian:{}", $tag), $case, ok, format!("{:?}", (f, gx.as_slice(), gy.as_slice(), (0..m).map(|a| (0..n).map(|b| h[(a, b)]).collect::<Vec<_>>()).collect::<Vec<_>>())), format!("{:?}", (wf, &wgx, &wgy, &wh)));
        let r2 = try_partial_hessian(|a, b| Ok::<_, u32>(clo(a, b)), xv.clone(), yv.clone());
        $rep.check(&format!("try_partial_hessian:{}", $tag), $case, r2 == Ok((f, gx.clone(), gy.clone(), h.clone())), format!("{:?}", r2), "same as partial_hessian".into());
        let r3 = try_partial_hessian(|_a: OVector<HyperDualVec<$F, $F, $M, $N>, $M>, _b: OVector<HyperDualVec<$F, $F, $M, $N>, $N>| Err::<HyperDualVec<$F, $F, $M, $N>, u32>(8), xv.clone(), yv.clone());
        $rep.check(&format!("try_partial_hessian:err:{}", $tag), $case, r3 == Err(8), format!("{:?}", r3), "Err(8)".into());
    }};
}

macro_rules! by_static_n {
    ($n:expr, $mac:ident, $F:ty, $($rest:tt)*) => {
        match $n {
            0 => $mac!($F, Const<0>, Const::<0>, $($rest)*),
            1 => $mac!($F, Const<1>, Const::<1>, $($rest)*),
            2 => $mac!($F, Const<2>, Const::<2>, $($rest)*),
            3 => $mac!($F, Const<3>, Const::<3>, $($rest)*),
            4 => $mac!($F, Const<4>, Const::<4>, $($rest)*),
            5 => $mac!($F, Const<5>, Const::<5>, $($rest)*),
            6 => $mac!($F, Const<6>, Const::<6>, $($rest)*),
            _ => {}
        }
    };
}

/// the public seeding helpers (Drivers.tla, SeedHelpers): from_re(x).helper() has `field` = one, the real part x, every
/// other part zero -- on f64, f32 and over an inner dual number
fn seed_helpers(rep: &mut Rep, table: &Value) {
    use num_traits::{One, Zero};
    macro_rules! parts { ($v:expr; $($f:ident),*) => {{ let v = $v; vec![$((stringify!($f), v.$f.clone())),*] }}; }
    macro_rules! one_type { ($name:expr, $T:ident, $S:ty, $F:ty, $tag:expr, $x:expr; $($f:ident),*; $($h:ident),*) => {
        for row in table.as_array().unwrap().iter().filter(|r| r["ty"] == json!($name)) {
            let helper = row["helper"].as_str().unwrap();
            let field = row["field"].as_str().unwrap();
            let x: $S = $x;
            let got = match helper { $(stringify!($h) => Some($T::<$S, $F>::from_re(x.clone()).$h()),)* _ => None };
            let Some(got) = got else {
                rep.check(&format!("seed_helper:{}", $tag), row, false, "no such helper in the harness".into(), helper.to_string());
                continue;
            };
            let mut ok = got.re == x;
            for (name, val) in parts!(got.clone(); $($f),*) {
                ok &= if name == field { val == <$S>::one() } else { val == <$S>::zero() };
            }
            rep.check(&format!("seed_helper:{}", $tag), row, ok, format!("{:?}", got), format!("re = {:?}, {} = 1, other parts 0", x, field));
        }
    }; }
    one_type!("Dual", Dual, f64, f64, "f64", 1.75; eps; derivative);
    one_type!("Dual", Dual, f32, f32, "f32", 1.75; eps; derivative);
    one_type!("Dual", Dual, Dual64, f64, "Dual64", Dual64::new(1.75, -0.5); eps; derivative);
    one_type!("Dual2", Dual2, f64, f64, "f64", 1.75; v1, v2; derivative);
    one_type!("Dual2", Dual2, f32, f32, "f32", 1.75; v1, v2; derivative);
    one_type!("Dual2", Dual2, Dual64, f64, "Dual64", Dual64::new(1.75, -0.5); v1, v2; derivative);
    one_type!("Dual3", Dual3, f64, f64, "f64", 1.75; v1, v2, v3; derivative);
    one_type!("Dual3", Dual3, f32, f32, "f32", 1.75; v1, v2, v3; derivative);
    one_type!("Dual3", Dual3, Dual64, f64, "Dual64", Dual64::new(1.75, -0.5); v1, v2, v3; derivative);
    one_type!("HyperDual", HyperDual, f64, f64, "f64", 1.75; eps1, eps2, eps1eps2; derivative1, derivative2);
    one_type!("HyperDual", HyperDual, f32, f32, "f32", 1.75; eps1, eps2, eps1eps2; derivative1, derivative2);
    one_type!("HyperDual", HyperDual, Dual64, f64, "Dual64", Dual64::new(1.75, -0.5); eps1, eps2, eps1eps2; derivative1, derivative2);
    one_type!("HHD", HyperHyperDual, f64, f64, "f64", 1.75; eps1, eps2, eps3, eps1eps2, eps1eps3, eps2eps3, eps1eps2eps3; derivative1, derivative2, derivative3);
    one_type!("HHD", HyperHyperDual, f32, f32, "f32", 1.75; eps1, eps2, eps3, eps1eps2, eps1eps3, eps2eps3, eps1eps2eps3; derivative1, derivative2, derivative3);
    one_type!("HHD", HyperHyperDual, Dual64, f64, "Dual64", Dual64::new(1.75, -0.5); eps1, eps2, eps3, eps1eps2, eps1eps3, eps2eps3, eps1eps2eps3; derivative1, derivative2, derivative3);
}

pub fn run(path: &str) -> Result<Value, String> {
    let text = std::fs::read_to_string(path).map_err(|e| format!("{path}: {e}"))?;
    let mut rep = Rep { calls: 0, per_driver: BTreeMap::new(), mismatches: vec![], n_mismatch: 0, samples: vec![] };
    let mut cases = 0u64;
    if let Some(table) = text.lines().find_map(|l| crate::replay::parse_tagged(l, "SEEDS")) {
        seed_helpers(&mut rep, &table);
    }
    for line in text.lines() {
        let Some(case) = crate::replay::parse_tagged(line, "DRIVER") else { continue };
        cases += 1;
        let terms: Vec<Terms> = case["f"].as_array().ok_or("f")?.iter().map(|ts| {
            ts.as_array().unwrap().iter().map(|t| (t["e"].as_array().unwrap().iter().map(|e| e.as_u64().unwrap() as u32).collect(), t["c"].as_f64().unwrap())).collect()
        }).collect();
        let x: Vec<f64> = case["x"].as_array().ok_or("x")?.iter().map(|v| v.as_f64().unwrap()).collect();
        let d = case["case"]["d"].as_str().unwrap_or("").to_string();
        let want_s: Vec<f64> = case["want"].get("scalars").map(vecq).unwrap_or_default();
        scalar_drivers!(f64, "f64", rep, &case, terms, x, want_s);
        scalar_drivers!(f32, "f32", rep, &case, terms, x, want_s);
        let n = x.len();
        match d.as_str() {
            "gradient" | "hessian" => {
                by_static_n!(n, grad_hess, f64, "static:f64", rep, &case, terms, x);
                by_static_n!(n, grad_hess, f32, "static:f32", rep, &case, terms, x);
                grad_hess!(f64, Dyn, Dyn(n), "dyn:f64", rep, &case, terms, x);
                grad_hess!(f32, Dyn, Dyn(n), "dyn:f32", rep, &case, terms, x);
            }
            "jacobian" => {
                let m = terms.len();
                macro_rules! jm { ($F:ty, $N:ty, $nd:expr, $tag:expr) => {
                    match m {
                        1 => jac!($F, Const<1>, Const::<1>, $N, $nd, $tag, rep, &case, terms, x),
                        2 => jac!($F, Const<2>, Const::<2>, $N, $nd, $tag, rep, &case, terms, x),
                        3 => jac!($F, Const<3>, Const::<3>, $N, $nd, $tag, rep, &case, terms, x),
                        _ => {}
                    }
                }; }
                match n {
                    0 => jm!(f64, Const<0>, Const::<0>, "static:f64"),
                    1 => jm!(f64, Const<1>, Const::<1>, "static:f64"),
                    2 => jm!(f64, Const<2>, Const::<2>, "static:f64"),
                    3 => jm!(f64, Const<3>, Const::<3>, "static:f64"),
                    _ => {}
                }
                if n == 2 { jm!(f32, Const<2>, Const::<2>, "static:f32"); }
                jac!(f64, Dyn, Dyn(m), Dyn, Dyn(n), "dyn:f64", rep, &case, terms, x);
                jac!(f32, Dyn, Dyn(m), Dyn, Dyn(n), "dyn:f32", rep, &case, terms, x);
            }
            "partial_hessian" => {
                let m = case["case"]["m"].as_u64().unwrap() as usize;
                let nn = case["case"]["n"].as_u64().unwrap() as usize;
                macro_rules! pm { ($F:ty, $N:ty, $nd:expr, $tag:expr) => {
                    match m {
                        0 => phess!($F, Const<0>, Const::<0>, $N, $nd, $tag, rep, &case, terms, x),
                        1 => phess!($F, Const<1>, Const::<1>, $N, $nd, $tag, rep, &case, terms, x),
                        2 => phess!($F, Const<2>, Const::<2>, $N, $nd, $tag, rep, &case, terms, x),
                        3 => phess!($F, Const<3>, Const::<3>, $N, $nd, $tag, rep, &case, terms, x),
                        _ => {}
                    }
                }; }
                match nn {
                    0 => pm!(f64, Const<0>, Const::<0>, "static:f64"),
                    1 => pm!(f64, Const<1>, Const::<1>, "static:f64"),
                    2 => pm!(f64, Const<2>, Const::<2>, "static:f64"),
                    3 => pm!(f64, Const<3>, Const::<3>, "static:f64"),
                    _ => {}
                }
                phess!(f64, Dyn, Dyn(m), Dyn, Dyn(nn), "dyn:f64", rep, &case, terms, x);
                phess!(f32, Dyn, Dyn(m), Dyn, Dyn(nn), "dyn:f32", rep, &case, terms, x);
            }
            _ => {}
        }
    }
    Ok(json!({"cases": cases, "calls": rep.calls, "per_driver": rep.per_driver, "distinct_cases": rep.per_driver.len(),
              "n_mismatch": rep.n_mismatch, "mismatches": rep.mismatches, "samples": rep.samples}))
}

#[allow(dead_code)]
fn _unused(_: DVector<f64>, _: SVector<f64, 1>, _: OMatrix<f64, Dyn, Dyn>) {}
