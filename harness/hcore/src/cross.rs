//! C04: cross-type agreement.  TLC (Views.tla) proves which stored location of which seeded
//! type holds which partial derivative and exports that correspondence; here arbitrary
//! programs (Programs.tla) are evaluated on every member in every concrete configuration
//! (f32/f64, static/dynamic, nested) at one common point and the shared derivatives are
//! compared with one another.
use crate::calc::*;
use crate::emit::Rng;
use crate::float::*;
use crate::prog::*;
use crate::registry::*;
use serde_json::{json, Value};
use std::collections::BTreeMap;

pub struct Member {
    pub ty: Value,
    pub nv: usize,
    pub nderiv: usize,
    pub seeds: Vec<Vec<String>>,
    pub reads: Vec<(String, Vec<u64>)>,
}

pub fn load_members(paths: &[String]) -> Result<Vec<Member>, String> {
    let mut out = vec![];
    for p in paths {
        let text = std::fs::read_to_string(p).map_err(|e| format!("{p}: {e}"))?;
        for line in text.lines() {
            if let Some(v) = crate::replay::parse_tagged(line, "VIEW") {
                out.push(Member {
                    ty: v["ty"].clone(),
                    nv: v["nv"].as_u64().unwrap() as usize,
                    nderiv: v["nderiv"].as_u64().unwrap() as usize,
                    seeds: v["seeds"].as_array().unwrap().iter().map(|s| s.as_array().unwrap().iter().map(|x| x.as_str().unwrap().to_string()).collect()).collect(),
                    reads: v["reads"].as_array().unwrap().iter().map(|r| (r["path"].as_str().unwrap().to_string(), r["alpha"].as_array().unwrap().iter().map(|a| a.as_u64().unwrap()).collect())).collect(),
                });
            }
        }
    }
    Ok(out)
}

struct Eval<'a> {
    tabs: &'a Tables,
    table: &'a Table,
    member: &'a Member,
    nodes: &'a [Ev],
    point: &'a [f64],
}

/// Ok(None): the point left the domain for this member; Ok(Some(reads)): alpha -> (value, bound, u)
type Reads = Vec<(Vec<u64>, String, f64, f64, f64)>;

impl<'a> TypeFn for Eval<'a> {
    type Out = Result<Option<(Reads, usize)>, String>;
    fn call<T: Calc>(self) -> Self::Out {
        let f32mode = T::MANT < 53;
        let u = if f32mode { 2f64.powi(-24) } else { 2f64.powi(-53) };
        let tt = tables_for(self.tabs, &self.table.ty).ok_or("tables")?;
        let rf = Ref { tabs: self.tabs, tt, u, floor: true };
        let mut vals: Vec<Jet> = vec![];
        for i in 0..self.member.nv {
            let mut j = Jet::new();
            for (path, _, _) in &self.table.parts {
                let v = if *path == self.table.re { self.point[i] } else if self.member.seeds[i].iter().any(|s| s == path) { 1.0 } else { 0.0 };
                j.insert(path.clone(), VE { v, e: 0.0 });
            }
            vals.push(j);
        }
        let mut regs: Vec<T> = vec![];
        for j in &vals {
            regs.push(T::from_json(&build_json(&self.table.ty, "a", &jet_to_map(j, "a"), &[]))?);
        }
        for ev in self.nodes {
            match rf.node(&vals, ev)? {
                Ok(j) => {
                    if std::env::var("VERIF_DEBUG2").is_ok() { eprintln!("{} {} -> {:?}", T::KEY, ev.op, j.iter().map(|(p, x)| format!("{p}={:e}+-{:e}", x.v, x.e)).collect::<Vec<_>>()); }
                    vals.push(j)
                }
                Err(Reject) => return Ok(None),
            }
            let mut ev2 = ev.clone();
            if f32mode { ev2.s = (ev2.s as f32) as f64; }
            let res = std::panic::catch_unwind(std::panic::AssertUnwindSafe(|| T::apply(&regs, &ev2)));
            match res {
                Ok(Ok(Out::Val(v))) => regs.push(v),
                _ => return Ok(None),
            }
        }
        let mut got = BTreeMap::new();
        flatten_json(&regs.last().unwrap().to_json(), "", &mut got);
        let last = vals.last().unwrap();
        let mut out: Reads = vec![];
        for (path, alpha) in &self.member.reads {
            let w = last.get(path).ok_or_else(|| format!("member reads unknown path {path}"))?;
            out.push((alpha.clone(), format!("{}{}", T::KEY, path), *got.get(path).unwrap_or(&0.0), w.e, u));
        }
        Ok(Some((out, T::NDERIV)))
    }
}

pub fn run(tabs: &Tables, members: &[Member], prog_file: &str, seed: u64, k_tol: f64) -> Result<Value, String> {
    let text = std::fs::read_to_string(prog_file).map_err(|e| format!("{prog_file}: {e}"))?;
    let mut rng = Rng(seed ^ 0xC404);
    let (mut programs, mut points, mut comparisons, mut n_viol) = (0u64, 0u64, 0u64, 0u64);
    let mut violations: Vec<Value> = vec![];
    let mut per_pair: BTreeMap<String, u64> = BTreeMap::new();
    let mut samples: Vec<Value> = vec![];
    let mut nderiv_checked: BTreeMap<String, usize> = BTreeMap::new();
    let mut worst = 0.0f64;
    for line in text.lines() {
        let Some(prog) = crate::replay::parse_tagged(line, "PROG") else { continue };
        let nv = prog["inputs"].as_u64().unwrap_or(1) as usize;
        // scalar constants are f32 numbers, like the evaluation points: every member (f32 or f64) computes the same function
        let nodes: Vec<Ev> = prog["nodes"].as_array().ok_or("nodes")?.iter()
            .map(|v| Ev::from_json(v).map(|mut e| { e.s = (e.s as f32) as f64; e })).collect::<Result<_, _>>()?;
        // the final node must be a dual value depending on the inputs; skip programs whose last node is a constant
        programs += 1;
        let ms: Vec<&Member> = members.iter().filter(|m| m.nv == nv).collect();
        if ms.is_empty() { continue; }
        // common evaluation points (f32 numbers, so that every member sees exactly the same point)
        'pts: for _try in 0..40 {
            let point: Vec<f64> = (0..nv).map(|_| { let m = 0.3 + 2.2 * rng.unit(); ((if rng.below(4) == 0 { -m } else { m }) as f32) as f64 }).collect();
            let mut by_alpha: BTreeMap<Vec<u64>, Vec<(String, f64, f64, f64)>> = BTreeMap::new();
            for m in &ms {
                let Some(table) = tabs.tables.iter().find(|t| t.op == "chain" && t.ty == m.ty) else { continue };
                for key in keys_for(&m.ty, 24) {
                    match dispatch(key, Eval { tabs, table, member: m, nodes: &nodes, point: &point }) {
                        Some(Ok(Some((reads, nd)))) => {
                            if nd != m.nderiv {
                                n_viol += 1;
                                violations.push(json!({"what": "NDERIV", "type": key, "advertised": nd, "sum_over_levels": m.nderiv}));
                            }
                            nderiv_checked.insert(key.to_string(), nd);
                            for (alpha, loc, v, e, u) in reads {
                                by_alpha.entry(alpha).or_default().push((loc, v, e, u));
                            }
                        }
                        Some(Ok(None)) => continue 'pts,       // outside the joint domain: draw another point
                        Some(Err(e)) => return Err(e),
                        None => {}
                    }
                }
            }
            points += 1;
            for (alpha, list) in &by_alpha {
                if std::env::var("VERIF_DEBUG").is_ok() {
                    eprintln!("alpha {alpha:?} point {point:?}");
                    for x in list { eprintln!("   {} v={:e} e={:e} u={:e}", x.0, x.1, x.2, x.3); }
                }
                // compare everyone with the most accurate f64 representative
                let Some(base) = list.iter().filter(|x| x.3 < 1e-10).min_by(|a, b| a.2.partial_cmp(&b.2).unwrap()) else { continue };
                for x in list {
                    comparisons += 1;
                    let tol = k_tol * (x.2 + base.2 + x.3 * x.1.abs() + base.3 * base.1.abs()) + if x.3 > 1e-10 { 1e-30 } else { 1e-300 };
                    let err = (x.1 - base.1).abs();
                    let ratio = err / tol * k_tol;
                    if ratio.is_finite() && ratio > worst { worst = ratio; }
                    let pair = format!("{}~{}", x.0.split(|c| c == '.').next().unwrap_or(""), base.0.split(|c| c == '.').next().unwrap_or(""));
                    *per_pair.entry(pair).or_insert(0) += 1;
                    if !(err <= tol) {
                        n_viol += 1;
                        if violations.len() < 6 {
                            violations.push(json!({"what": "shared derivative differs", "alpha": alpha, "point": point, "a": x.0, "value_a": x.1,
                                "b": base.0, "value_b": base.1, "error": err, "tolerance": tol, "program": prog}));
                        }
                    }
                }
            }
            if samples.len() < 2 {
                if let Some((alpha, list)) = by_alpha.iter().last() {
                    samples.push(json!({"alpha": alpha, "point": point, "values": list.iter().take(6).map(|x| json!([x.0, x.1])).collect::<Vec<_>>()}));
                }
            }
            break;
        }
    }
    Ok(json!({"programs": programs, "points": points, "comparisons": comparisons, "distinct_pairs": per_pair.len(), "per_pair": per_pair,
              "nderiv_checked": nderiv_checked, "worst_ratio": worst, "n_violations": n_viol, "violations": violations, "samples": samples}))
}
