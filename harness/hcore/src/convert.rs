//! C13: subset / superset conversions (simba) between dual numbers over f32 and f64, from
//! plain floats, and through nalgebra::convert / try_convert on matrices of dual numbers.
//! Oracle: the part-wise meaning stated by the property (widening exact, narrowing = rounding
//! of every part, membership = every present part representable, absent parts stay absent).
use crate::absval::*;
use crate::emit::Rng;
use crate::field::Rep;
use nalgebra::{DVector, RowDVector, DMatrix, SMatrix, SVector, RowSVector};
use num_dual::*;
use serde_json::{json, Value};
use simba::scalar::{SubsetOf, SupersetOf};
use std::collections::BTreeMap;

/// leaves of a projected value mapped through a float function
fn map_leaves(v: &Value, f: &dyn Fn(f64) -> f64) -> Value {
    match v {
        Value::Array(a) if a.len() == 2 && a[0].is_i64() && a[1].is_i64() => f64_to_json(f(f64_from_json(v).unwrap())),
        Value::Array(a) => Value::Array(a.iter().map(|x| map_leaves(x, f)).collect()),
        Value::Object(o) => {
            if o.contains_key("f") {
                return f64_to_json(f(f64_from_json(v).unwrap()));
            }
            Value::Object(o.iter().map(|(k, x)| (k.clone(), if k == "p" || k == "dims" { x.clone() } else { map_leaves(x, f) })).collect())
        }
        _ => v.clone(),
    }
}
fn all_leaves(v: &Value, pred: &dyn Fn(f64) -> bool) -> bool {
    let mut m = BTreeMap::new();
    crate::float::flatten_json(v, "", &mut m);
    m.values().all(|x| pred(*x))
}
fn narrow(x: f64) -> f64 { (x as f32) as f64 }
/// simba's membership predicate of the f32 subset of f64 (the oracle is simba itself)
fn is32(x: f64) -> bool { <f32 as SubsetOf<f64>>::is_in_subset(&x) }
fn same(a: &Value, b: &Value) -> bool { compare(a, b) == Cmp::Same }

/// values that are / are not f32 numbers
fn pick(rng: &mut Rng, allow_wide: bool) -> f64 {
    const NARROW: [f64; 8] = [1.5, -5.0, 0.0, 0.25, 3.0, -0.375, 1024.0, 7.0];
    const WIDE: [f64; 4] = [33554433.0, 16777217.0, 1.0000000009313226, 0.1];
    if allow_wide && rng.below(4) == 0 { *rng.pick(&WIDE) } else { *rng.pick(&NARROW) }
}

macro_rules! conv_pair {
    ($fname:ident, $T64:ty, $T32:ty, $key:expr, $mk64:expr, $mk32:expr) => {
        pub fn $fname(seed: u64, samples: usize, rep: &mut Rep) {
            let key: &str = $key;
            let mut rng = Rng(seed ^ 0xC0117 ^ (key.len() as u64) << 8);
            let mk64: fn(&mut Rng, bool) -> $T64 = $mk64;
            let mk32: fn(&mut Rng) -> $T32 = $mk32;
            for s in 0..samples {
                let x = mk64(&mut rng, s % 2 == 0);
                let xj = x.to_json();
                let member = all_leaves(&xj, &is32);
                let m = <$T32 as SubsetOf<$T64>>::is_in_subset(&x);
                rep.ok(format!("{key}|is_in_subset"), m == member, || json!({"x": xj, "observed": m, "expected": member}));
                let r = <$T32 as SubsetOf<$T64>>::from_superset(&x);
                let want = map_leaves(&xj, &narrow);
                let ok = match &r { Some(y) => member && same(&y.to_json(), &want), None => !member };
                rep.ok(format!("{key}|from_superset"), ok, || json!({"x": xj, "in_subset": member, "observed": r.as_ref().map(|y| y.to_json())}));
                let r2: Option<$T32> = <$T64 as SupersetOf<$T32>>::to_subset(&x);
                rep.ok(format!("{key}|to_subset"), r2.as_ref().map(|y| y.to_json()) == r.as_ref().map(|y| y.to_json()), || json!({"x": xj}));
                let u = <$T32 as SubsetOf<$T64>>::from_superset_unchecked(&x);
                rep.ok(format!("{key}|from_superset_unchecked"), same(&u.to_json(), &want), || json!({"x": xj, "observed": u.to_json(), "expected": want}));
                let tc: Option<$T32> = nalgebra::try_convert(x.clone());
                rep.ok(format!("{key}|try_convert"), tc.as_ref().map(|y| y.to_json()) == r.as_ref().map(|y| y.to_json()), || json!({"x": xj}));
                // widening
                let y = mk32(&mut rng);
                let yj = y.to_json();
                let w = <$T32 as SubsetOf<$T64>>::to_superset(&y);
                rep.ok(format!("{key}|to_superset"), same(&w.to_json(), &yj), || json!({"y": yj, "observed": w.to_json()}));
                let w2: $T64 = <$T64 as SupersetOf<$T32>>::from_subset(&y);
                let w3: $T64 = nalgebra::convert(y.clone());
                rep.ok(format!("{key}|from_subset/convert"), same(&w2.to_json(), &yj) && same(&w3.to_json(), &yj), || json!({"y": yj}));
                let back = <$T32 as SubsetOf<$T64>>::from_superset(&w);
                rep.ok(format!("{key}|narrow(widen)=id"), back.as_ref().map_or(false, |b| same(&b.to_json(), &yj)), || json!({"y": yj, "observed": back.as_ref().map(|b| b.to_json())}));
                rep.ok(format!("{key}|widened is member"), <$T32 as SubsetOf<$T64>>::is_in_subset(&w), || json!({"y": yj}));
                // same-width conversions are identities
                let idc = <$T64 as SubsetOf<$T64>>::to_superset(&x);
                let idb = <$T64 as SubsetOf<$T64>>::from_superset(&x);
                rep.ok(format!("{key}|identity"), same(&idc.to_json(), &xj) && idb.as_ref().map_or(false, |b| same(&b.to_json(), &xj)) && <$T64 as SubsetOf<$T64>>::is_in_subset(&x), || json!({"x": xj}));
                // plain floats: lifting gives a constant, extracting gives the real part
                let c = pick(&mut rng, false);
                let l64: $T64 = <$T64 as SupersetOf<f64>>::from_subset(&c);
                let l32: $T64 = <$T64 as SupersetOf<f32>>::from_subset(&(c as f32));
                let lj = l64.to_json();
                let constant = |j: &Value| { let mut mm = BTreeMap::new(); crate::float::flatten_json(j, "", &mut mm); mm.iter().all(|(k, v)| k == ".re" || *v == 0.0) };
                rep.ok(format!("{key}|lift float"), l64.re == c && constant(&lj) && l32.re == c && constant(&l32.to_json()), || json!({"c": c, "observed": lj}));
                let e64: f64 = <$T64 as SupersetOf<f64>>::to_subset_unchecked(&x);
                rep.ok(format!("{key}|extract float"), e64.to_bits() == x.re.to_bits(), || json!({"x": xj, "observed": e64}));
                let y32: $T32 = mk32(&mut rng);
                let e32: f32 = <$T32 as SupersetOf<f32>>::to_subset_unchecked(&y32);
                rep.ok(format!("{key}|extract float"), e32.to_bits() == y32.re.to_bits(), || json!({"observed": e32 as f64}));
                // matrices of dual numbers through nalgebra::convert / try_convert
                let m32 = SMatrix::<$T32, 2, 2>::from_fn(|_, _| mk32(&mut rng));
                let m64: SMatrix<$T64, 2, 2> = nalgebra::convert(m32.clone());
                let okm = (0..2).all(|i| (0..2).all(|j| same(&m64[(i, j)].to_json(), &m32[(i, j)].to_json())));
                let mb: Option<SMatrix<$T32, 2, 2>> = nalgebra::try_convert(m64.clone());
                let okb = mb.as_ref().map_or(false, |b| (0..2).all(|i| (0..2).all(|j| same(&b[(i, j)].to_json(), &m32[(i, j)].to_json()))));
                rep.ok(format!("{key}|matrix convert"), okm && okb, || json!({"m32": m32.iter().map(|e| e.to_json()).collect::<Vec<_>>()}));
                if rep.samples.len() < 3 && s == 0 {
                    rep.samples.push(json!({"type": key, "x64": xj, "from_superset": r.as_ref().map(|y| y.to_json())}));
                }
            }
        }
    };
}

conv_pair!(c_dual, Dual64, Dual32, "Dual", |r, w| Dual64::new(pick(r, w), pick(r, w)), |r| Dual32::new(pick(r, false) as f32, pick(r, false) as f32));
conv_pair!(c_dual2, Dual2_64, Dual2_32, "Dual2", |r, w| Dual2_64::new(pick(r, w), pick(r, w), pick(r, w)),
           |r| Dual2_32::new(pick(r, false) as f32, pick(r, false) as f32, pick(r, false) as f32));

fn dv64<const N: usize>(r: &mut Rng, w: bool) -> DualSVec64<N> {
    let e = if r.below(3) == 0 { Derivative::none() } else { Derivative::some(SVector::<f64, N>::from_fn(|_, _| pick(r, w))) };
    DualSVec64::<N>::new(pick(r, w), e)
}
fn dv32<const N: usize>(r: &mut Rng) -> DualSVec32<N> {
    let e = if r.below(3) == 0 { Derivative::none() } else { Derivative::some(SVector::<f32, N>::from_fn(|_, _| pick(r, false) as f32)) };
    DualSVec32::<N>::new(pick(r, false) as f32, e)
}
fn d2v64<const N: usize>(r: &mut Rng, w: bool) -> Dual2SVec64<N> {
    let v1 = if r.below(3) == 0 { Derivative::none() } else { Derivative::some(RowSVector::<f64, N>::from_fn(|_, _| pick(r, w))) };
    let v2 = if r.below(3) == 0 { Derivative::none() } else { Derivative::some(SMatrix::<f64, N, N>::from_fn(|_, _| pick(r, w))) };
    Dual2SVec64::<N>::new(pick(r, w), v1, v2)
}
fn d2v32<const N: usize>(r: &mut Rng) -> Dual2SVec32<N> {
    let v1 = if r.below(3) == 0 { Derivative::none() } else { Derivative::some(RowSVector::<f32, N>::from_fn(|_, _| pick(r, false) as f32)) };
    let v2 = if r.below(3) == 0 { Derivative::none() } else { Derivative::some(SMatrix::<f32, N, N>::from_fn(|_, _| pick(r, false) as f32)) };
    Dual2SVec32::<N>::new(pick(r, false) as f32, v1, v2)
}
conv_pair!(c_dv0, DualSVec64<0>, DualSVec32<0>, "DualVec:0", dv64::<0>, dv32::<0>);
conv_pair!(c_dv1, DualSVec64<1>, DualSVec32<1>, "DualVec:1", dv64::<1>, dv32::<1>);
conv_pair!(c_dv2, DualSVec64<2>, DualSVec32<2>, "DualVec:2", dv64::<2>, dv32::<2>);
conv_pair!(c_dv3, DualSVec64<3>, DualSVec32<3>, "DualVec:3", dv64::<3>, dv32::<3>);
conv_pair!(c_dv6, DualSVec64<6>, DualSVec32<6>, "DualVec:6", dv64::<6>, dv32::<6>);
conv_pair!(c_d2v0, Dual2SVec64<0>, Dual2SVec32<0>, "Dual2Vec:0", d2v64::<0>, d2v32::<0>);
conv_pair!(c_d2v1, Dual2SVec64<1>, Dual2SVec32<1>, "Dual2Vec:1", d2v64::<1>, d2v32::<1>);
conv_pair!(c_d2v2, Dual2SVec64<2>, Dual2SVec32<2>, "Dual2Vec:2", d2v64::<2>, d2v32::<2>);
conv_pair!(c_d2v4, Dual2SVec64<4>, Dual2SVec32<4>, "Dual2Vec:4", d2v64::<4>, d2v32::<4>);

fn dvd64(r: &mut Rng, w: bool) -> DualDVec64 {
    let n = r.below(7) as usize;
    let e = if r.below(3) == 0 { Derivative::none() } else { Derivative::some(DVector::<f64>::from_fn(n, |_, _| pick(r, w))) };
    DualDVec64::new(pick(r, w), e)
}
fn dvd32(r: &mut Rng) -> DualDVec32 {
    let n = r.below(7) as usize;
    let e = if r.below(3) == 0 { Derivative::none() } else { Derivative::some(DVector::<f32>::from_fn(n, |_, _| pick(r, false) as f32)) };
    DualDVec32::new(pick(r, false) as f32, e)
}
fn d2vd64(r: &mut Rng, w: bool) -> Dual2DVec64 {
    let n = r.below(7) as usize;
    let v1 = if r.below(3) == 0 { Derivative::none() } else { Derivative::some(RowDVector::<f64>::from_fn(n, |_, _| pick(r, w))) };
    let v2 = if r.below(3) == 0 { Derivative::none() } else { Derivative::some(DMatrix::<f64>::from_fn(n, n, |_, _| pick(r, w))) };
    Dual2DVec64::new(pick(r, w), v1, v2)
}
fn d2vd32(r: &mut Rng) -> Dual2DVec32 {
    let n = r.below(7) as usize;
    let v1 = if r.below(3) == 0 { Derivative::none() } else { Derivative::some(RowDVector::<f32>::from_fn(n, |_, _| pick(r, false) as f32)) };
    let v2 = if r.below(3) == 0 { Derivative::none() } else { Derivative::some(DMatrix::<f32>::from_fn(n, n, |_, _| pick(r, false) as f32)) };
    Dual2DVec32::new(pick(r, false) as f32, v1, v2)
}
conv_pair!(c_dvd, DualDVec64, DualDVec32, "DualVec:dyn", dvd64, dvd32);
conv_pair!(c_d2vd, Dual2DVec64, Dual2DVec32, "Dual2Vec:dyn", d2vd64, d2vd32);

pub fn run(seed: u64, samples: usize) -> Value {
    let mut rep = Rep { checks: 0, per_case: BTreeMap::new(), violations: vec![], n_viol: 0, samples: vec![] };
    c_dual(seed, samples, &mut rep);
    c_dual2(seed, samples, &mut rep);
    c_dv0(seed, samples, &mut rep);
    c_dv1(seed, samples, &mut rep);
    c_dv2(seed, samples, &mut rep);
    c_dv3(seed, samples, &mut rep);
    c_dv6(seed, samples, &mut rep);
    c_d2v0(seed, samples, &mut rep);
    c_d2v1(seed, samples, &mut rep);
    c_d2v2(seed, samples, &mut rep);
    c_d2v4(seed, samples, &mut rep);
    c_dvd(seed, samples, &mut rep);
    c_d2vd(seed, samples, &mut rep);
    json!({"checks": rep.checks, "distinct_cases": rep.per_case.len(), "per_case": rep.per_case, "n_violations": rep.n_viol,
           "violations": rep.violations, "samples": rep.samples})
}
