//! C06 in the float domain: the table of Transparent.tla swept over random and special floats.
//!  * transparency : the innermost real part of every result is bit-identical whatever the
//!                   derivative parts are (ordinary numbers / NaN, infinities, huge / absent or zero)
//!  * plain        : it equals the std function on plain floats within the ulps of the table
//!  * predicates, comparisons and the approx traits give the answers of the real parts
//!  * the plain-float instances of DualNum return the std results bit for bit
use crate::absval::*;
use crate::calc::*;
use crate::emit::Rng;
use crate::impl_calc;
use crate::registry::*;
use num_dual::*;
use num_traits::{Inv, One, Signed, Zero};
use serde_json::{json, Value};
use std::collections::BTreeMap;

impl_calc!("F:f64", f64, f64, 53, ord, nobes);
impl_calc!("F:f32", f32, f32, 24, ord, nobes);

// ---------------------------------------------------------------- values of a type given by its key
struct Desc {
    name: String,
    m: usize,
    n: usize,
    inner: Option<Box<Desc>>,
}

fn parse_desc(s: &str) -> Desc {
    let (head, inner) = match s.find('<') {
        Some(i) => (&s[..i], Some(Box::new(parse_desc(&s[i + 1..s.len() - 1])))),
        None => (s, None),
    };
    let mut it = head.split(':');
    let name = it.next().unwrap().to_string();
    let (mut m, mut n) = (1, 1);
    if let Some(d) = it.next() {
        if d == "dyn" {
            m = 2;
            n = 2;
        } else if let Some((a, b)) = d.split_once('x') {
            m = a.parse().unwrap();
            n = b.parse().unwrap();
        } else {
            n = d.parse().unwrap();
            m = n;
        }
    }
    Desc { name, m, n, inner }
}

fn part_dims(d: &Desc, f: &str) -> Option<(usize, usize)> {
    match (d.name.as_str(), f) {
        ("DualVec", _) => Some((d.n, 1)),
        ("Dual2Vec", "v1") => Some((1, d.n)),
        ("Dual2Vec", _) => Some((d.n, d.n)),
        ("HyperDualVec", "eps1") => Some((d.m, 1)),
        ("HyperDualVec", "eps2") => Some((1, d.n)),
        ("HyperDualVec", _) => Some((d.m, d.n)),
        _ => None,
    }
}

fn part_names(name: &str) -> Vec<&'static str> {
    match name {
        "Dual" | "DualVec" => vec!["eps"],
        "Dual2" | "Dual2Vec" => vec!["v1", "v2"],
        "Dual3" => vec!["v1", "v2", "v3"],
        "HyperDual" | "HyperDualVec" => vec!["eps1", "eps2", "eps1eps2"],
        "HHD" => vec!["eps1", "eps2", "eps3", "eps1eps2", "eps1eps3", "eps2eps3", "eps1eps2eps3"],
        _ => vec![],
    }
}

/// `absent`: leave the outermost optional parts out (vector types)
fn build(d: Option<&Desc>, re: f64, on_re_path: bool, leaf: &mut dyn FnMut() -> f64, absent: bool) -> Value {
    let Some(d) = d else {
        let x = if on_re_path { re } else { leaf() };
        // the rational encoding has one zero only: keep the sign bit of -0.0
        return if x == 0.0 && x.is_sign_negative() { json!({"f": format!("{:#018x}", x.to_bits())}) } else { f64_to_json(x) };
    };
    let mut o = serde_json::Map::new();
    o.insert("re".into(), build(d.inner.as_deref(), re, on_re_path, leaf, false));
    for f in part_names(&d.name) {
        let v = match part_dims(d, f) {
            Some(_) if absent => json!({"p": false}),
            Some((r, c)) => {
                let m: Vec<Vec<Value>> = (0..r).map(|_| (0..c).map(|_| build(d.inner.as_deref(), re, false, leaf, false)).collect()).collect();
                json!({"p": true, "m": m})
            }
            None => build(d.inner.as_deref(), re, false, leaf, false),
        };
        o.insert(f.into(), v);
    }
    Value::Object(o)
}

// ---------------------------------------------------------------- plain floats
macro_rules! plain_impl {
    ($name:ident, $F:ty) => {
        /// the std function on plain floats; None: no plain counterpart
        fn $name(op: &str, x: f64, y: f64, z: f64, s: f64, n: i32) -> Option<f64> {
            let (x, y, z, s) = (x as $F, y as $F, z as $F, s as $F);
            let r: $F = match op {
                "recip" => x.recip(), "inv" => <$F as Inv>::inv(x), "sqrt" => x.sqrt(), "cbrt" => x.cbrt(), "exp" => x.exp(), "exp2" => x.exp2(),
                "exp_m1" => x.exp_m1(), "ln" => x.ln(), "log2" => x.log2(), "log10" => x.log10(), "ln_1p" => x.ln_1p(),
                "log" => x.log(s), "sin" | "sin_cos.0" => x.sin(), "cos" | "sin_cos.1" => x.cos(), "tan" => x.tan(),
                "asin" => x.asin(), "acos" => x.acos(), "atan" => x.atan(), "atan2" => x.atan2(y),
                "sinh" => x.sinh(), "cosh" => x.cosh(), "tanh" => x.tanh(), "asinh" => x.asinh(), "acosh" => x.acosh(), "atanh" => x.atanh(),
                "abs" => <$F as Signed>::abs(&x), "signum" => <$F as Signed>::signum(&x), "neg" => -x,
                "add" => x + y, "sub" => x - y, "mul" => x * y, "div" => x / y,
                "add_f" => x + s, "sub_f" => x - s, "mul_f" => x * s, "div_f" => x / s,
                "powi" => x.powi(n), "powf" => x.powf(s), "powd" => x.powf(y), "mul_add" => x.mul_add(y, z),
                _ => return None,
            };
            Some(r as f64)
        }
    };
}
plain_impl!(plain64, f64);
plain_impl!(plain32, f32);

fn ulp(x: f64, f32mode: bool) -> f64 {
    let (mant, emin) = if f32mode { (24, -126) } else { (53, -1022) };
    if x == 0.0 || !x.is_finite() {
        return ((emin - mant + 1) as f64).exp2();
    }
    let e = x.abs().log2().floor() as i32;
    ((e.max(emin) - mant + 1) as f64).exp2()
}

fn in_domain(dom: &str, x: f64, y: f64, s: f64) -> bool {
    match dom {
        "pos" => x > 0.0,
        "nonzero" => x != 0.0,
        "nonzero2" => y != 0.0,
        "nonzeros" => s != 0.0,
        "unit" => x.abs() < 1.0,
        "gt1" => x > 1.0,
        "gtm1" => x > -1.0,
        _ => true,
    }
}

struct Sweep<'a> {
    table: &'a Value,
    key: &'a str,
    seed: u64,
    samples: usize,
}

#[derive(Default)]
pub struct SweepOut {
    pub evals: u64,
    pub transparency: u64,
    pub plain: u64,
    pub preds: u64,
    pub cmps: u64,
    pub bit_identical: u64,
    pub drift: BTreeMap<String, u64>,
    pub ops: BTreeMap<String, u64>,
    pub viol: Vec<Value>,
    pub n_viol: u64,
    pub known: BTreeMap<String, u64>,
}

const SPECIAL: [f64; 22] = [0.0, -0.0, 1.0, -1.0, 0.5, 2.0, 3.0, -2.5, 1e-30, -1e-30, 1e30, -1e30, 88.0, -88.5, 90.0, 700.0, -709.0, 711.0, 1e4, f64::INFINITY,
                            f64::NEG_INFINITY, f64::NAN];
const WEIRD: [f64; 8] = [f64::NAN, f64::INFINITY, f64::NEG_INFINITY, 1e30, -1e-30, 0.0, 7.5, -0.0];

impl<'a> TypeFn for Sweep<'a> {
    type Out = Result<SweepOut, String>;
    fn call<T: Calc>(self) -> Self::Out {
        let f32mode = T::MANT < 53;
        let body = self.key.rsplit_once(':').unwrap().0;
        let desc = if body == "F" { None } else { Some(parse_desc(body)) };
        let is_float = desc.is_none();
        let rnd = |x: f64| if f32mode { (x as f32) as f64 } else { x };
        let plain = |op: &str, x: f64, y: f64, z: f64, s: f64, n: i32| if f32mode { plain32(op, x, y, z, s, n) } else { plain64(op, x, y, z, s, n) };
        let mut rng = Rng(self.seed ^ 0xC606 ^ (self.key.len() as u64) << 20);
        let mut out = SweepOut::default();
        let note = |out: &mut SweepOut, v: Value| {
            out.n_viol += 1;
            if out.viol.len() < 8 {
                out.viol.push(v);
            }
        };
        // variant 0: ordinary parts; 1: NaN / infinities / huge / zeros; 2: absent (vector types) or zero parts
        let mk = |re: f64, variant: usize, rng: &mut Rng| -> Result<T, String> {
            let mut k = rng.below(8) as usize;
            let mut leaf = || -> f64 {
                k += 1;
                match variant {
                    0 => rnd(((k * 37 % 17) as f64 - 8.0) / 4.0 + 0.125),
                    1 => rnd(WEIRD[k % WEIRD.len()]),
                    _ => 0.0,
                }
            };
            T::from_json(&build(desc.as_ref(), re, true, &mut leaf, variant == 2))
        };
        let re_of = |v: &T| -> f64 {
            let mut f = vec![];
            v.flat(&mut f);
            f[0]
        };
        let same = |a: f64, b: f64| a.to_bits() == b.to_bits() || (a.is_nan() && b.is_nan());
        let point = |rng: &mut Rng, i: usize| -> f64 {
            if i < SPECIAL.len() {
                return rnd(SPECIAL[i]);
            }
            let mag = 10f64.powf(rng.unit() * 9.0 - 6.0);
            rnd(if rng.below(3) == 0 { -mag } else { mag })
        };
        let rows = self.table["rows"].as_array().ok_or("rows")?;
        for row in rows {
            let op = row["op"].as_str().ok_or("op")?;
            let arity = row["arity"].as_str().unwrap_or("un");
            let dom = row["dom"].as_str().unwrap_or("any");
            let ulps = row["ulps"].as_i64().unwrap_or(4);
            let same_call = row["same_call"].as_bool().unwrap_or(false);
            if is_float && op.starts_with("sph_j") {
                continue;
            }
            for i in 0..(SPECIAL.len() + self.samples) {
                let x = point(&mut rng, i);
                let y = point(&mut rng, (i * 7 + 3) % (SPECIAL.len() + self.samples));
                let z = point(&mut rng, (i * 5 + 1) % (SPECIAL.len() + self.samples));
                let s = rnd(*rng.pick(&[2.5, -1.5, 0.5, 3.0, 1.0, 2.0, 0.0, 7.0 / 3.0, -0.25, 10.0]));
                let n = *rng.pick(&[-5, -3, -2, -1, 0, 1, 2, 3, 4, 5, 8]);
                let s = if op == "log" { s.abs().max(0.5) + 1.0 } else { s };
                let ev = Ev { op: op.to_string(), form: match arity { "bin" if op != "atan2" && op != "powd" => "rr", "scal" if op != "log" => "op", _ => "" }.to_string(),
                              a: 1, b: 2, c: 3, d: 1, s, n, rs: vec![], v: Value::Null };
                let mut res: Vec<f64> = vec![];
                for variant in 0..3 {
                    if is_float && variant > 0 {
                        break;
                    }
                    let regs = vec![mk(x, variant, &mut rng)?, mk(y, variant, &mut rng)?, mk(z, variant, &mut rng)?];
                    match std::panic::catch_unwind(std::panic::AssertUnwindSafe(|| T::apply(&regs, &ev))) {
                        Ok(Ok(Out::Val(v))) => res.push(re_of(&v)),
                        Ok(Ok(Out::Unsupported)) => break,
                        Ok(Ok(_)) => return Err(format!("{op}: not a value")),
                        Ok(Err(e)) => return Err(e),
                        Err(_) => {
                            note(&mut out, json!({"what": "panic", "key": T::KEY, "op": op, "x": x, "y": y, "variant": variant}));
                            break;
                        }
                    }
                }
                if res.is_empty() {
                    continue;
                }
                out.evals += res.len() as u64;
                *out.ops.entry(op.to_string()).or_insert(0) += 1;
                // transparency
                for (v, r) in res.iter().enumerate().skip(1) {
                    out.transparency += 1;
                    if !same(res[0], *r) {
                        note(&mut out, json!({"what": "the real part depends on the derivative parts", "key": T::KEY, "op": op, "x": f64_to_json(x), "y": f64_to_json(y),
                                              "z": f64_to_json(z), "s": s, "n": n, "re_with_ordinary_parts": f64_to_json(res[0]), "variant": v, "re": f64_to_json(*r)}));
                    }
                }
                // against plain floats
                let Some(p) = plain(op, x, y, z, s, n) else { continue };
                if is_float {
                    out.plain += 1;
                    if !same(res[0], p) {
                        note(&mut out, json!({"what": "plain-float instance differs from the std function", "key": T::KEY, "op": op, "x": f64_to_json(x), "y": f64_to_json(y),
                                              "s": s, "n": n, "got": f64_to_json(res[0]), "std": f64_to_json(p)}));
                    }
                    continue;
                }
                if same(res[0], p) {
                    out.bit_identical += 1;
                } else if same_call {
                    *out.drift.entry(op.to_string()).or_insert(0) += 1;
                }
                let inputs_ok = x.is_finite() && (arity != "bin" && arity != "tern" || y.is_finite()) && (arity != "tern" || z.is_finite());
                if !inputs_ok || !p.is_finite() || !in_domain(dom, x, y, s) || ulps < 0 {
                    continue;
                }
                // documented range limits: x^(n-3) and sinh/cosh must not leave the float range where the result is in range
                let (lo, hi) = if f32mode { (1e-30, 1e30) } else { (1e-280, 1e280) };
                if op == "powi" && n != 0 && n != 1 && n != 2 {
                    // every level of a nested type evaluates x^(m-3) for its own exponent m: down to x^(n-9)
                    let l = x.abs().log10();
                    if [n - 9, n - 6, n - 3, n].iter().any(|k| !((*k as f64 * l).abs() <= hi.log10())) {
                        continue;
                    }
                }
                let tol = match op {
                    "mul_add" => ulps as f64 * ulp((x * y).abs() + z.abs(), f32mode),
                    "powd" => (4.0 + 4.0 * (y * x.ln()).abs()) * ulp(p, f32mode),
                    "powi" => (ulps as f64 + 2.0 * n.abs() as f64) * ulp(p, f32mode),
                    _ => ulps as f64 * ulp(p, f32mode),
                };
                let _ = (lo, hi);
                out.plain += 1;
                let err = (res[0] - p).abs();
                if op == "signum" && x == 0.0 && x.is_sign_negative() && res[0] == 0.0 && p == -1.0 {
                    // recorded finding (KNOWN_FINDINGS, key signum-negative-zero): exactly this input and this result
                    *out.known.entry("signum-negative-zero".into()).or_insert(0) += 1;
                } else if !(err <= tol) {
                    note(&mut out, json!({"what": "real part differs from the operation on plain floats", "key": T::KEY, "op": op, "x": f64_to_json(x), "y": f64_to_json(y),
                                          "z": f64_to_json(z), "s": s, "n": n, "re": f64_to_json(res[0]), "plain": f64_to_json(p), "error": err, "tolerance": tol,
                                          "xv": x, "re_v": format!("{:e}", res[0]), "plain_v": format!("{p:e}")}));
                }
            }
        }
        if is_float {
            return Ok(out);
        }
        // predicates, comparisons, approx: decided by the real parts
        let preds: Vec<&str> = self.table["preds"].as_array().ok_or("preds")?.iter().filter_map(|x| x.as_str()).collect();
        let mut cmps: Vec<&str> = self.table["cmps"].as_array().ok_or("cmps")?.iter().filter_map(|x| x.as_str()).collect();
        cmps.extend(["abs_diff_eq", "relative_eq", "ulps_eq"]);
        // the defaults of the approx traits are the defaults of the float type, as constants (no derivative part)
        {
            let regs = vec![mk(1.5, 0, &mut rng)?];
            let (we, wr, wu) = if f32mode {
                (<f32 as approx::AbsDiffEq>::default_epsilon() as f64, <f32 as approx::RelativeEq>::default_max_relative() as f64, <f32 as approx::UlpsEq>::default_max_ulps() as f64)
            } else {
                (<f64 as approx::AbsDiffEq>::default_epsilon(), <f64 as approx::RelativeEq>::default_max_relative(), <f64 as approx::UlpsEq>::default_max_ulps() as f64)
            };
            for (op, want) in [("default_epsilon", we), ("default_max_relative", wr), ("default_max_ulps", wu)] {
                let ev = Ev { op: op.to_string(), form: String::new(), a: 1, b: 1, c: 1, d: 1, s: 0.0, n: 0, rs: vec![], v: Value::Null };
                let ok = match T::apply(&regs, &ev) {
                    Ok(Out::Val(v)) => {
                        let mut m = BTreeMap::new();
                        crate::float::flatten_json(&v.to_json(), "", &mut m);
                        out.cmps += 1;
                        m.iter().all(|(k, x)| if k.trim_end_matches(".re") == "" || k.chars().filter(|c| *c == '.').count() == k.matches(".re").count() { *x == want } else { *x == 0.0 })
                    }
                    Ok(Out::Re(r)) => { out.cmps += 1; r == want }
                    _ => true,
                };
                if !ok {
                    note(&mut out, json!({"what": "approx default is not the float type's default as a constant", "key": T::KEY, "op": op, "expected": want}));
                }
            }
        }
        let vals: Vec<f64> = SPECIAL.iter().map(|v| rnd(*v)).chain([rnd(1.0 + 2f64.powi(-20)), rnd(0.75)]).collect();
        for &x in &vals {
            for &p in &preds {
                let want = if f32mode {
                    let x = x as f32;
                    match p { "is_zero" => x.is_zero(), "is_one" => x.is_one(), "is_positive" => Signed::is_positive(&x), _ => Signed::is_negative(&x) }
                } else {
                    match p { "is_zero" => x.is_zero(), "is_one" => x.is_one(), "is_positive" => Signed::is_positive(&x), _ => Signed::is_negative(&x) }
                };
                for variant in 0..3 {
                    let regs = vec![mk(x, variant, &mut rng)?, mk(x, variant, &mut rng)?, mk(x, variant, &mut rng)?];
                    let ev = Ev { op: p.to_string(), form: String::new(), a: 1, b: 2, c: 3, d: 1, s: 0.0, n: 0, rs: vec![], v: Value::Null };
                    if let Ok(Out::Bool(b)) = T::apply(&regs, &ev) {
                        out.preds += 1;
                        if b != want {
                            note(&mut out, json!({"what": "predicate not decided by the real part", "key": T::KEY, "op": p, "x": f64_to_json(x), "variant": variant, "got": b, "plain": want}));
                        }
                    }
                }
            }
            for &y in &vals {
                for &c in &cmps {
                    let eps = 0.25;
                    let want = if f32mode {
                        let (x, y, e) = (x as f32, y as f32, eps as f32);
                        match c { "eq" => x == y, "ne" => x != y, "lt" => x < y, "le" => x <= y, "gt" => x > y, "ge" => x >= y,
                                  "abs_diff_eq" => approx::AbsDiffEq::abs_diff_eq(&x, &y, e), "relative_eq" => approx::RelativeEq::relative_eq(&x, &y, e, e),
                                  _ => approx::UlpsEq::ulps_eq(&x, &y, e, 4) }
                    } else {
                        match c { "eq" => x == y, "ne" => x != y, "lt" => x < y, "le" => x <= y, "gt" => x > y, "ge" => x >= y,
                                  "abs_diff_eq" => approx::AbsDiffEq::abs_diff_eq(&x, &y, eps), "relative_eq" => approx::RelativeEq::relative_eq(&x, &y, eps, eps),
                                  _ => approx::UlpsEq::ulps_eq(&x, &y, eps, 4) }
                    };
                    for (va, vb) in [(0, 0), (0, 1), (1, 2), (2, 0)] {
                        let regs = vec![mk(x, va, &mut rng)?, mk(y, vb, &mut rng)?, mk(eps, va, &mut rng)?];
                        let ev = Ev { op: c.to_string(), form: String::new(), a: 1, b: 2, c: 3, d: 1, s: 0.0, n: 0, rs: vec![], v: Value::Null };
                        match T::apply(&regs, &ev) {
                            Ok(Out::Bool(b)) => {
                                out.cmps += 1;
                                if b != want {
                                    note(&mut out, json!({"what": "comparison not decided by the real parts", "key": T::KEY, "op": c, "x": f64_to_json(x), "y": f64_to_json(y),
                                                          "variants": [va, vb], "got": b, "plain": want}));
                                }
                            }
                            _ => break,
                        }
                    }
                }
            }
        }
        Ok(out)
    }
}

pub fn run(path: &str, seed: u64, samples: usize) -> Result<Value, String> {
    let text = std::fs::read_to_string(path).map_err(|e| format!("{path}: {e}"))?;
    let table = text.lines().find_map(|l| crate::replay::parse_tagged(l, "TRANSP")).ok_or("no TRANSP line")?;
    let mut tot = SweepOut::default();
    let mut per_type: BTreeMap<String, u64> = BTreeMap::new();
    let mut keys: Vec<&str> = ALL_KEYS.to_vec();
    keys.extend(["F:f64", "F:f32"]);
    for key in keys {
        let sw = Sweep { table: &table, key, seed, samples };
        let r = match key {
            "F:f64" => sw.call::<f64>(),
            "F:f32" => sw.call::<f32>(),
            _ => dispatch(key, sw).ok_or("key")?,
        }?;
        per_type.insert(key.to_string(), r.evals);
        tot.evals += r.evals;
        tot.transparency += r.transparency;
        tot.plain += r.plain;
        tot.preds += r.preds;
        tot.cmps += r.cmps;
        tot.bit_identical += r.bit_identical;
        tot.n_viol += r.n_viol;
        for (k, v) in r.drift { *tot.drift.entry(k).or_insert(0) += v; }
        for (k, v) in r.known { *tot.known.entry(k).or_insert(0) += v; }
        for (k, v) in r.ops { *tot.ops.entry(k).or_insert(0) += v; }
        for v in r.viol { if tot.viol.len() < 40 { tot.viol.push(v); } }
    }
    Ok(json!({"types": per_type.len(), "evaluations": tot.evals, "transparency_comparisons": tot.transparency, "plain_comparisons": tot.plain,
              "predicate_checks": tot.preds, "comparison_checks": tot.cmps, "bit_identical_to_std": tot.bit_identical,
              "same_call_rows_not_bit_identical": tot.drift, "ops": tot.ops, "known": tot.known, "n_violations": tot.n_viol, "violations": tot.viol}))
}

// ---------------------------------------------------------------- developer probe: one call, printed
struct Probe<'a> { key: &'a str, op: &'a str, x: f64, y: f64, s: f64, n: i32 }
impl<'a> TypeFn for Probe<'a> {
    type Out = Result<String, String>;
    fn call<T: Calc>(self) -> Self::Out {
        let body = self.key.rsplit_once(':').unwrap().0;
        let desc = parse_desc(body);
        let mut k = 0usize;
        let mut leaf = || -> f64 { k += 1; ((k * 37 % 17) as f64 - 8.0) / 4.0 + 0.125 };
        let a = T::from_json(&build(Some(&desc), self.x, true, &mut leaf, false))?;
        let b = T::from_json(&build(Some(&desc), self.y, true, &mut leaf, false))?;
        let ev = Ev { op: self.op.to_string(), form: String::new(), a: 1, b: 2, c: 2, d: 1, s: self.s, n: self.n, rs: vec![], v: Value::Null };
        match T::apply(&[a.clone(), b], &ev)? {
            Out::Val(v) => Ok(format!("{}({}) = {}", self.op, a.show(), v.show())),
            Out::Bool(b) => Ok(format!("{b}")),
            Out::Re(r) => Ok(format!("{r:e}")),
            Out::Unsupported => Ok("unsupported".into()),
        }
    }
}
pub fn probe(key: &str, op: &str, x: f64, y: f64, s: f64, n: i32) -> Result<String, String> {
    dispatch(key, Probe { key, op, x, y, s, n }).ok_or("unknown key")?
}
