//! Replay of TLC-generated behaviours through the real crate (spec -> implementation).
use crate::absval::*;
use crate::calc::*;
use crate::registry::*;
use serde_json::{json, Value};
use std::collections::BTreeMap;
use std::panic::{catch_unwind, AssertUnwindSafe};

#[derive(Default)]
pub struct Stats {
    pub behaviours: u64,
    pub events: u64,
    pub compared: u64,
    pub drift: u64,
    pub unsupported: u64,
    pub per_case: BTreeMap<String, u64>,
    pub mismatches: Vec<Value>,
    pub n_mismatch: u64,
    pub samples: Vec<Value>,
}

#[derive(Clone, Copy, PartialEq)]
pub enum Mode {
    Plain,
    /// C06: run every behaviour a second time with different derivative parts; the real
    /// part of every result must not change by a single bit, observations must be equal
    TwoRun,
    /// C07: run every behaviour a second time with every absent part replaced by explicit
    /// zeros; every part of every result must be numerically identical
    ZeroFill,
}

struct Run<'a> {
    beh: &'a Value,
    stats: &'a mut Stats,
    max_report: usize,
    mode: Mode,
}

/// derivative parts x -> 1 - 3x (stays a small dyadic), real parts untouched
fn perturb(v: &Value, top: bool, odd: bool) -> Value {
    match v {
        Value::Object(o) => {
            if o.contains_key("p") {
                let mut m = o.clone();
                if let Some(x) = o.get("m") {
                    m.insert("m".into(), perturb(x, false, odd));
                }
                return Value::Object(m);
            }
            let mut m = serde_json::Map::new();
            for (k, x) in o {
                if top && k == "re" {
                    // the real part of a nested scalar: keep its own real part as well
                    m.insert(k.clone(), if x.is_object() { perturb(x, true, odd) } else { x.clone() });
                } else {
                    m.insert(k.clone(), perturb(x, false, odd));
                }
            }
            Value::Object(m)
        }
        Value::Array(a) if a.len() == 2 && a[0].is_i64() && a[1].is_i64() => {
            let (n, d) = (a[0].as_i64().unwrap(), a[1].as_i64().unwrap());
            // register-dependent, so that two registers loaded with the same value differ
            if odd { json!([d - 3 * n, d]) } else { json!([2 * n + 3 * d, d]) }
        }
        Value::Array(a) => Value::Array(a.iter().map(|x| perturb(x, false, odd)).collect()),
        _ => v.clone(),
    }
}

fn innermost_re(v: &Value) -> &Value {
    let mut x = v;
    while let Some(r) = x.get("re") {
        x = r;
    }
    x
}

/// the zero of the scalar level: a rational, or (nested types) the zero of the inner scalar dual number type
fn scalar_zero(inner: Option<&Value>) -> Value {
    let Some(k) = inner.and_then(|i| i["k"].as_str()) else { return json!([0, 1]) };
    let fields: &[&str] = match k {
        "Dual" => &["eps"],
        "Dual2" => &["v1", "v2"],
        "Dual3" => &["v1", "v2", "v3"],
        "HyperDual" => &["eps1", "eps2", "eps1eps2"],
        _ => &["eps1", "eps2", "eps3", "eps1eps2", "eps1eps3", "eps2eps3", "eps1eps2eps3"],
    };
    let mut o = serde_json::Map::new();
    o.insert("re".into(), json!([0, 1]));
    for f in fields {
        o.insert((*f).into(), json!([0, 1]));
    }
    Value::Object(o)
}

fn zeros(r: usize, c: usize, inner: Option<&Value>) -> Value {
    json!({"p": true, "m": (0..r).map(|_| (0..c).map(|_| scalar_zero(inner)).collect::<Vec<_>>()).collect::<Vec<_>>(), "dims": [r, c]})
}

/// explicit zeros instead of absent parts, dimensions from the TLC type descriptor
fn zero_fill(v: &Value, ty: &Value) -> Value {
    let k = ty["k"].as_str().unwrap_or("");
    let n = ty.get("n").and_then(|x| x.as_u64()).unwrap_or(1) as usize;
    let m = ty.get("m").and_then(|x| x.as_u64()).unwrap_or(1) as usize;
    let dims = |f: &str| -> (usize, usize) {
        match (k, f) {
            ("DualVec", _) => (n, 1),
            ("Dual2Vec", "v1") => (1, n),
            ("Dual2Vec", _) => (n, n),
            ("HyperDualVec", "eps1") => (m, 1),
            ("HyperDualVec", "eps2") => (1, n),
            _ => (m, n),
        }
    };
    let mut out = v.clone();
    if let Some(o) = out.as_object_mut() {
        for (f, x) in o.iter_mut() {
            if x.get("p") == Some(&Value::Bool(false)) {
                let (r, c) = dims(f);
                *x = zeros(r, c, ty.get("inner"));
            }
        }
    }
    out
}

fn width_ok(vals: &[f64], mant: u32, deg: u32) -> bool {
    // re-check of the exactness certificate on the harness side: all operand scalars on a
    // common power-of-two grid, deg * bits + 6 <= mantissa  (see Calc.tla, ExactOK)
    let mut maxn: u64 = 0;
    let mut maxd: u64 = 1;
    for &x in vals {
        if x == 0.0 {
            continue;
        }
        if !x.is_finite() {
            return false;
        }
        let (mut m, mut e) = {
            let b = x.abs().to_bits();
            let ex = ((b >> 52) & 0x7ff) as i64;
            let fr = b & ((1u64 << 52) - 1);
            if ex == 0 { (fr, -1074) } else { (fr | (1 << 52), ex - 1075) }
        };
        while m & 1 == 0 {
            m >>= 1;
            e += 1;
        }
        if e >= 0 {
            if e > 40 || (64 - m.leading_zeros()) as i64 + e > 60 { return false; }
            maxn = maxn.max(m << e);
        } else {
            if -e > 40 { return false; }
            maxn = maxn.max(m);
            maxd = maxd.max(1u64 << (-e));
        }
    }
    let bits = |v: u64| 64 - v.leading_zeros();
    let tw = if maxn == 0 { 0 } else { bits(maxn) + bits(maxd) - 1 };
    deg * tw + 1 <= mant.min(30) + 8
}

impl<'a> TypeFn for Run<'a> {
    type Out = ();
    fn call<T: Calc>(self) {
        let nr = self.beh.get("nr").and_then(|x| x.as_u64()).unwrap_or(2) as usize;
        let mut regs: Vec<T> = (0..nr).map(|_| T::zero()).collect();
        let mut regs2: Vec<T> = regs.clone();
        let events = self.beh.get("events").and_then(|x| x.as_array()).cloned().unwrap_or_default();
        for (k, e) in events.iter().enumerate() {
            let ev = match Ev::from_json(&e["ev"]) {
                Ok(ev) => ev,
                Err(err) => {
                    self.stats.mismatches.push(json!({"tool_error": err}));
                    return;
                }
            };
            let post = &e["post"];
            self.stats.events += 1;
            // exactness certificate re-check (tool error, never a verdict)
            if ev.op != "load" {
                let mut sc = vec![ev.s];
                for i in [ev.a, ev.b, ev.c] {
                    regs[i - 1].flat(&mut sc);
                }
                if !width_ok(&sc, T::MANT, 1) {
                    self.stats.mismatches.push(json!({"tool_error": "operand width exceeds the exactness bound", "event": e}));
                    return;
                }
            }
            let res = catch_unwind(AssertUnwindSafe(|| T::apply(&regs, &ev)));
            let case = format!("{}|{}|{}", T::KEY, ev.op, ev.form);
            let (observed, newval): (Value, Option<T>) = match res {
                Err(p) => {
                    let msg = p.downcast_ref::<String>().cloned().or_else(|| p.downcast_ref::<&str>().map(|s| s.to_string())).unwrap_or_default();
                    (json!({"panic": msg}), None)
                }
                Ok(Err(err)) => (json!({"tool_error": err}), None),
                Ok(Ok(Out::Unsupported)) => {
                    self.stats.unsupported += 1;
                    return;
                }
                Ok(Ok(Out::Bool(b))) => (json!(b), None),
                Ok(Ok(Out::Re(x))) => (f64_to_json(x), None),
                Ok(Ok(Out::Val(v))) => (v.to_json(), Some(v)),
            };
            self.stats.compared += 1;
            *self.stats.per_case.entry(case).or_insert(0) += 1;
            match compare(&observed, post) {
                Cmp::Same => {}
                Cmp::Drift => self.stats.drift += 1,
                Cmp::Differ => {
                    self.stats.n_mismatch += 1;
                    if self.stats.mismatches.len() < self.max_report {
                        self.stats.mismatches.push(json!({
                            "type": T::KEY, "step": k + 1, "event": e["ev"], "expected": post,
                            "observed": observed, "behaviour": self.beh,
                        }));
                    }
                    return; // the registers are no longer those of the model
                }
            }
            // second run of the same event on the shadow registers
            if self.mode != Mode::Plain {
                let mut ev2 = ev.clone();
                if ev.op == "load" {
                    ev2.v = match self.mode {
                        Mode::TwoRun => perturb(&ev.v, true, ev.d % 2 == 1),
                        _ => zero_fill(&ev.v, &self.beh["ty"]),
                    };
                }
                let res2 = catch_unwind(AssertUnwindSafe(|| T::apply(&regs2, &ev2)));
                let (obs2, new2): (Value, Option<T>) = match res2 {
                    Err(_) => (json!({"panic": true}), None),
                    Ok(Err(err)) => (json!({"tool_error": err}), None),
                    Ok(Ok(Out::Unsupported)) => (Value::Null, None),
                    Ok(Ok(Out::Bool(b))) => (json!(b), None),
                    Ok(Ok(Out::Re(x))) => (f64_to_json(x), None),
                    Ok(Ok(Out::Val(v))) => (v.to_json(), Some(v)),
                };
                let agree = match self.mode {
                    Mode::TwoRun => {
                        // (nested types: the innermost real part -- the derivative parts of the inner number were changed too)
                        if newval.is_some() { innermost_re(&observed) == innermost_re(&obs2) } else { observed == obs2 }
                    }
                    _ => ev.op == "load" || compare(&observed, &obs2) != Cmp::Differ,
                };
                self.stats.compared += 1;
                if !agree {
                    self.stats.n_mismatch += 1;
                    if self.stats.mismatches.len() < self.max_report {
                        self.stats.mismatches.push(json!({
                            "type": T::KEY, "step": k + 1, "event": e["ev"], "expected": observed,
                            "observed": obs2, "behaviour": self.beh,
                            "second_run": if self.mode == Mode::TwoRun { "same real parts, different derivative parts" } else { "absent parts replaced by explicit zeros" },
                        }));
                    }
                    return;
                }
                if let Some(v) = new2 {
                    regs2[ev.d - 1] = v;
                }
            }
            if let Some(v) = newval {
                regs[ev.d - 1] = v;
            }
        }
        if self.stats.samples.len() < 3 {
            self.stats.samples.push(json!({"type": T::KEY, "events": events.iter().map(|e| {
                json!({"op": e["ev"]["op"], "form": e["ev"]["form"], "post": e["post"]})}).collect::<Vec<_>>()}));
        }
    }
}

/// a line  <<"TAG", "<json string>">>  printed by a spec
pub fn parse_tagged(line: &str, tag: &str) -> Option<Value> {
    let l = line.trim();
    let rest = l.strip_prefix(&format!("<<\"{tag}\", "))?;
    let inner = rest.strip_suffix(">>")?;
    let s: String = serde_json::from_str(inner).ok()?;
    serde_json::from_str(&s).ok()
}

/// Parse one line of TLC output: either `<<"BEH", "<json string>">>` or plain JSON.
pub fn parse_line(line: &str) -> Option<Value> {
    let l = line.trim();
    if let Some(rest) = l.strip_prefix("<<\"BEH\", ") {
        let inner = rest.strip_suffix(">>")?;
        let s: String = serde_json::from_str(inner).ok()?;
        return serde_json::from_str(&s).ok();
    }
    if l.starts_with('{') {
        return serde_json::from_str(l).ok();
    }
    None
}

pub fn replay_file(path: &str, only_types: Option<&str>, ops: Option<&str>, max_report: usize, mode: Mode) -> Result<Stats, String> {
    let text = std::fs::read_to_string(path).map_err(|e| format!("{path}: {e}"))?;
    let mut stats = Stats::default();
    let opset: Option<Vec<&str>> = ops.map(|o| o.split(',').collect());
    for line in text.lines() {
        let Some(beh) = parse_line(line) else { continue };
        if let Some(ops) = &opset {
            // keep behaviours whose last event is one of the requested operations
            let last = beh["events"].as_array().and_then(|a| a.last()).map(|e| e["ev"]["op"].as_str().unwrap_or("").to_string()).unwrap_or_default();
            if !ops.contains(&last.as_str()) {
                continue;
            }
        }
        stats.behaviours += 1;
        let mant = beh.get("mant").and_then(|x| x.as_u64()).unwrap_or(53);
        for key in keys_for(&beh["ty"], mant) {
            if let Some(f) = only_types {
                if !key.contains(f) {
                    continue;
                }
            }
            dispatch(key, Run { beh: &beh, stats: &mut stats, max_report, mode });
        }
    }
    Ok(stats)
}
