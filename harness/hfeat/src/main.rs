//! Conformance harness for the optional features of num-dual: serde (C16), linalg (C12).
#[path = "../../hcore/src/absval.rs"]
#[allow(dead_code)]
mod absval;
mod linalg_check;
mod serde_check;

fn main() {
    std::panic::set_hook(Box::new(|_| {}));
    let args: Vec<String> = std::env::args().collect();
    let r = match args.get(1).map(|s| s.as_str()).unwrap_or("") {
        "serde" => serde_check::run(args.get(2).expect("serde <file>")),
        "lu-replay" => linalg_check::lu_replay(args.get(2).expect("lu-replay <file>")),
        "jacobi-replay" => linalg_check::jacobi_replay(args.get(2).expect("jacobi-replay <file>")),
        "linalg" => {
            let get = |n: &str, d: u64| args.iter().position(|a| a == n).and_then(|i| args.get(i + 1)).and_then(|x| x.parse().ok()).unwrap_or(d);
            linalg_check::run(get("--seed", 1), get("--samples", 60) as usize)
        }
        _ => Err("usage: hfeat serde <file>".to_string()),
    };
    match r {
        Ok(v) => println!("{v}"),
        Err(e) => {
            eprintln!("tool error: {e}");
            std::process::exit(2);
        }
    }
}
