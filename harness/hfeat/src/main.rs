//! Conformance harness for the optional features of num-dual: serde (C16), linalg (C12).
#[path = "../../hcore/src/absval.rs"]
#[allow(dead_code)]
mod absval;
mod serde_check;

fn main() {
    std::panic::set_hook(Box::new(|_| {}));
    let args: Vec<String> = std::env::args().collect();
    let r = match args.get(1).map(|s| s.as_str()).unwrap_or("") {
        "serde" => serde_check::run(args.get(2).expect("serde <file>")),
        _ => Err("usage: hfeat serde <file>".to_string()),
    };
    match r {
        Ok(v) => println!("{v}"),
        Err(e) => {
            eprintln!("tool error: {e}");
            std::process::exit(2);
        }
    }
}
