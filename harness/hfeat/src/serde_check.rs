//! C16: serialise the real value, compare the JSON tree with the model's tree (exactly the
//! stable field names, nested values nested, nothing else), deserialise it back (also with
//! permuted key order) and compare every part bit for bit.
use crate::absval::*;
use num_dual::*;
use serde::{de::DeserializeOwned, Serialize};
use serde_json::{json, Map, Value};

fn parse_tagged(line: &str, tag: &str) -> Option<Value> {
    let rest = line.trim().strip_prefix(&format!("<<\"{tag}\", "))?;
    let inner = rest.strip_suffix(">>")?;
    let s: String = serde_json::from_str(inner).ok()?;
    serde_json::from_str(&s).ok()
}

/// the model tree with rationals turned into the JSON numbers of the given float width
fn tree_numbers(t: &Value, f32mode: bool) -> Value {
    match t {
        Value::Array(a) if a.len() == 2 && a[0].is_i64() => {
            let x = a[0].as_i64().unwrap() as f64 / a[1].as_i64().unwrap() as f64;
            if f32mode { json!(x as f32) } else { json!(x) }
        }
        Value::Object(o) => Value::Object(o.iter().map(|(k, v)| (k.clone(), tree_numbers(v, f32mode))).collect()),
        _ => t.clone(),
    }
}

fn same_tree(a: &Value, b: &Value) -> bool {
    match (a, b) {
        (Value::Object(x), Value::Object(y)) => {
            x.len() == y.len() && x.iter().all(|(k, v)| y.get(k).map_or(false, |w| same_tree(v, w)))
        }
        (Value::Number(x), Value::Number(y)) => x.as_f64().map(f64::to_bits) == y.as_f64().map(f64::to_bits),
        _ => false,
    }
}

fn reversed_keys(t: &Value) -> String {
    match t {
        Value::Object(o) => {
            let parts: Vec<String> = o.iter().rev().map(|(k, v)| format!("{}:{}", json!(k), reversed_keys(v))).collect();
            format!("{{{}}}", parts.join(","))
        }
        _ => t.to_string(),
    }
}

fn round_f32(v: &Value) -> Value {
    match v {
        Value::Array(a) if a.len() == 2 && a[0].is_i64() && a[1].is_i64() => {
            let x = a[0].as_i64().unwrap() as f64 / a[1].as_i64().unwrap() as f64;
            json!({"f": format!("{:#018x}", ((x as f32) as f64).to_bits())})
        }
        Value::Array(a) => Value::Array(a.iter().map(round_f32).collect()),
        Value::Object(o) => Value::Object(o.iter().map(|(k, x)| (k.clone(), round_f32(x))).collect()),
        _ => v.clone(),
    }
}

fn bits<T: AbsVal>(x: &T) -> Vec<u64> {
    let mut f = vec![];
    x.flat(&mut f);
    f.into_iter().map(f64::to_bits).collect()
}

fn check_one<T: AbsVal + Serialize + DeserializeOwned>(case: &Value, f32mode: bool) -> Result<Option<Value>, String> {
    let v = if f32mode { round_f32(&case["v"]) } else { case["v"].clone() };
    let x = T::from_json(&v)?;
    let tree = serde_json::to_value(&x).map_err(|e| e.to_string())?;
    let expect = tree_numbers(&case["tree"], f32mode);
    if !same_tree(&tree, &expect) {
        return Ok(Some(json!({"what": "serialised tree differs from the model", "expected": expect, "observed": tree})));
    }
    let s = serde_json::to_string(&x).map_err(|e| e.to_string())?;
    let y: T = match serde_json::from_str(&s) {
        Ok(y) => y,
        Err(e) => return Ok(Some(json!({"what": "cannot deserialise own output", "text": s, "error": e.to_string()}))),
    };
    if bits(&x) != bits(&y) {
        return Ok(Some(json!({"what": "round trip changed a part", "text": s, "before": x.to_json(), "after": y.to_json()})));
    }
    let r = reversed_keys(&expect);
    let z: T = match serde_json::from_str(&r) {
        Ok(z) => z,
        Err(e) => return Ok(Some(json!({"what": "cannot deserialise the model tree with permuted keys", "text": r, "error": e.to_string()}))),
    };
    if bits(&x) != bits(&z) {
        return Ok(Some(json!({"what": "deserialising the model tree (permuted keys) gives other parts", "text": r, "expected": x.to_json(), "after": z.to_json()})));
    }
    Ok(None)
}

fn desc(ty: &Value) -> String {
    let k = ty["k"].as_str().unwrap_or("");
    if k == "F" {
        return String::new();
    }
    let i = desc(&ty["inner"]);
    if i.is_empty() { k.to_string() } else { format!("{k}<{i}>") }
}

macro_rules! serde_types {
    ($(($key:expr, $T64:ty, $T32:ty)),* $(,)?) => {
        fn check(key: &str, case: &Value, f32mode: bool) -> Option<Result<Option<Value>, String>> {
            match (key, f32mode) {
                $(($key, false) => Some(check_one::<$T64>(case, false)),
                  ($key, true) => Some(check_one::<$T32>(case, true)),)*
                _ => None,
            }
        }
    };
}
serde_types! {
    ("Dual", Dual64, Dual32),
    ("Dual2", Dual2_64, Dual2_32),
    ("Dual3", Dual3_64, Dual3_32),
    ("HyperDual", HyperDual64, HyperDual32),
    ("HHD", HyperHyperDual64, HyperHyperDual32),
    ("Dual<Dual>", Dual<Dual64, f64>, Dual<Dual32, f32>),
    ("Dual<Dual<Dual>>", Dual<Dual<Dual64, f64>, f64>, Dual<Dual<Dual32, f32>, f32>),
    ("Dual2<Dual>", Dual2<Dual64, f64>, Dual2<Dual32, f32>),
    ("Dual3<Dual>", Dual3<Dual64, f64>, Dual3<Dual32, f32>),
    ("HyperDual<Dual>", HyperDual<Dual64, f64>, HyperDual<Dual32, f32>),
    ("Dual<Dual2>", Dual<Dual2_64, f64>, Dual<Dual2_32, f32>),
    ("Dual2<Dual2>", Dual2<Dual2_64, f64>, Dual2<Dual2_32, f32>),
    ("HHD<Dual>", HyperHyperDual<Dual64, f64>, HyperHyperDual<Dual32, f32>),
    ("Dual<HyperDual>", Dual<HyperDual64, f64>, Dual<HyperDual32, f32>),
    ("Dual<Dual3>", Dual<Dual3_64, f64>, Dual<Dual3_32, f32>),
    ("HyperDual<HyperDual>", HyperDual<HyperDual64, f64>, HyperDual<HyperDual32, f32>),
    ("Dual<HHD>", Dual<HyperHyperDual64, f64>, Dual<HyperHyperDual32, f32>),
}

pub fn run(path: &str) -> Result<Value, String> {
    let text = std::fs::read_to_string(path).map_err(|e| format!("{path}: {e}"))?;
    let mut cases = 0u64;
    let mut per_type = Map::new();
    let mut mism = vec![];
    let mut samples = vec![];
    for line in text.lines() {
        let Some(case) = parse_tagged(line, "SERDE") else { continue };
        let key = desc(&case["ty"]);
        for f32mode in [false, true] {
            match check(&key, &case, f32mode) {
                None => return Err(format!("no concrete type for {key}")),
                Some(Err(e)) => return Err(format!("{key}: {e}")),
                Some(Ok(r)) => {
                    cases += 1;
                    let k = format!("{key}:{}", if f32mode { "f32" } else { "f64" });
                    let c = per_type.get(&k).and_then(|x| x.as_u64()).unwrap_or(0);
                    per_type.insert(k.clone(), json!(c + 1));
                    if let Some(m) = r {
                        if mism.len() < 5 {
                            mism.push(json!({"type": k, "value": case["v"], "detail": m}));
                        }
                    } else if samples.len() < 3 && cases % 37 == 1 {
                        samples.push(json!({"type": k, "tree": case["tree"]}));
                    }
                }
            }
        }
    }
    Ok(json!({"cases": cases, "per_type": per_type, "mismatches": mism, "samples": samples}))
}
