//! C12: the crate's LU / Jacobi routines and nalgebra's generic decompositions over dual
//! scalars must satisfy their DEFINING IDENTITIES in the real part and in every derivative
//! part: A x = b, A A^-1 = I, A V = V diag(lambda), V^T V = I, ascending lambda, Jacobi's
//! formula, Hellmann-Feynman, singular detection.  Identities are evaluated in dual
//! arithmetic; the two formulas that are not identities of the outputs themselves (Jacobi,
//! Hellmann-Feynman) are evaluated with plain f64 linear algebra on the real parts.
use crate::absval::*;
use nalgebra::{DMatrix, DVector};
use ndarray::{Array1, Array2};
use num_dual::linalg::*;
use num_dual::*;
use serde_json::{json, Value};
use std::collections::BTreeMap;

pub struct Rng(pub u64);
impl Rng {
    pub fn next(&mut self) -> u64 {
        self.0 = self.0.wrapping_add(0x9E3779B97F4A7C15);
        let mut z = self.0;
        z = (z ^ (z >> 30)).wrapping_mul(0xBF58476D1CE4E5B9);
        z = (z ^ (z >> 27)).wrapping_mul(0x94D049BB133111EB);
        z ^ (z >> 31)
    }
    pub fn unit(&mut self) -> f64 { (self.next() >> 11) as f64 / (1u64 << 53) as f64 }
    pub fn sym(&mut self) -> f64 { self.unit() * 2.0 - 1.0 }
    pub fn below(&mut self, n: u64) -> u64 { self.next() % n }
}

pub struct Rep {
    pub checks: u64,
    pub per_case: BTreeMap<String, u64>,
    pub worst: BTreeMap<String, f64>,
    pub violations: Vec<Value>,
    pub n_viol: u64,
    pub samples: Vec<Value>,
}
impl Rep {
    fn check(&mut self, case: &str, err: f64, tol: f64, detail: impl FnOnce() -> Value) {
        self.checks += 1;
        *self.per_case.entry(case.to_string()).or_insert(0) += 1;
        let w = self.worst.entry(case.split('|').nth(1).unwrap_or("").to_string()).or_insert(0.0);
        if err.is_finite() && err / tol > *w { *w = err / tol; }
        if !(err <= tol) {
            self.n_viol += 1;
            if self.violations.len() < 8 {
                let mut d = detail();
                d["case"] = json!(case);
                d["error"] = json!(err);
                d["tolerance"] = json!(tol);
                self.violations.push(d);
            }
        }
    }
}

fn maxabs<T: AbsVal>(x: &T) -> f64 {
    let mut f = vec![];
    x.flat(&mut f);
    f.iter().fold(0.0f64, |m, v| if v.is_nan() { f64::INFINITY } else { m.max(v.abs()) })
}

/// random orthogonal matrix (Gram-Schmidt), f64
fn orthogonal(rng: &mut Rng, n: usize) -> DMatrix<f64> {
    loop {
        let m = DMatrix::<f64>::from_fn(n, n, |_, _| rng.sym());
        let qr = m.qr();
        let q = qr.q();
        if q.iter().all(|x| x.is_finite()) { return q; }
    }
}

macro_rules! la_type {
    ($fname:ident, $T:ty, $key:expr, $mk:expr, $first:expr, $withfirst:expr) => {
        pub fn $fname(seed: u64, samples: usize, rep: &mut Rep) {
            type T = $T;
            let key: &str = $key;
            let mk: fn(&mut Rng, f64) -> T = $mk;               // dual number with the given real part, random derivative parts
            let first: fn(&T) -> Vec<f64> = $first;             // the first-order derivative parts
            let withfirst: fn(f64, &[f64]) -> T = $withfirst;   // real part + first-order parts, higher parts zero
            let mut rng = Rng(seed ^ 0x11A16 ^ (key.len() as u64) << 12);
            for s in 0..samples {
                let n = 1 + (s % 6);
                // ---------------- a well-conditioned matrix: orthogonal * diag(1..3) * orthogonal, rows permuted
                let (q1, q2) = (orthogonal(&mut rng, n), orthogonal(&mut rng, n));
                let dg = DMatrix::<f64>::from_fn(n, n, |i, j| if i == j { (1.0 + 2.0 * rng.unit()) * if rng.below(3) == 0 { -1.0 } else { 1.0 } } else { 0.0 });
                let are = &q1 * dg * &q2;
                let a_na = DMatrix::<T>::from_fn(n, n, |i, j| mk(&mut rng, are[(i, j)]));
                let b_na = DVector::<T>::from_fn(n, |_, _| { let re = (0.5 + rng.unit()) * if rng.below(2) == 0 { -1.0 } else { 1.0 }; mk(&mut rng, re) });
                let a = Array2::<T>::from_shape_fn((n, n), |(i, j)| a_na[(i, j)]);
                let b = Array1::<T>::from_shape_fn(n, |i| b_na[i]);
                let tol = 2e-9;
                let resid = |x: &dyn Fn(usize) -> T| -> f64 {
                    (0..n).map(|i| { let mut acc = -b_na[i]; for k in 0..n { acc = acc + a_na[(i, k)] * x(k); } maxabs(&acc) }).fold(0.0, f64::max)
                };
                match LU::<T, f64>::new(a.clone()) {
                    Err(_) => rep.check(&format!("{key}|LU::new|n{n}"), f64::INFINITY, tol, || json!({"what": "regular matrix reported singular"})),
                    Ok(lu) => {
                        let x = lu.solve(&b);
                        rep.check(&format!("{key}|LU::solve|n{n}"), resid(&|k| x[k]), tol, || json!({"n": n}));
                        let inv = lu.inverse();
                        let mut e = 0.0f64;
                        for i in 0..n { for j in 0..n {
                            let mut acc = if i == j { -T::from(1.0) } else { T::from(0.0) };
                            for k in 0..n { acc = acc + a_na[(i, k)] * inv[(k, j)]; }
                            e = e.max(maxabs(&acc));
                        } }
                        rep.check(&format!("{key}|LU::inverse|n{n}"), e, tol, || json!({"n": n}));
                        let det = lu.determinant();
                        // against nalgebra's determinant over the same dual scalars
                        let det_na = a_na.clone().determinant();
                        rep.check(&format!("{key}|LU::determinant|n{n}"), maxabs(&(det - det_na)), tol * (1.0 + det.re().abs()), || json!({"n": n, "crate": det.to_json(), "nalgebra": det_na.to_json()}));
                        // Jacobi's formula: d det = det * tr(A^-1 dA), with plain f64 linear algebra on the real parts
                        let are_inv = are.clone().try_inverse().unwrap();
                        let dre = are.determinant();
                        let nf = first(&a_na[(0, 0)]).len();
                        let df = first(&det);
                        for c in 0..nf {
                            let mut tr = 0.0;
                            for i in 0..n { for k in 0..n { tr += are_inv[(i, k)] * first(&a_na[(k, i)])[c]; } }
                            rep.check(&format!("{key}|Jacobi formula|n{n}"), (df[c] - dre * tr).abs(), tol * (1.0 + dre.abs()), || json!({"n": n, "det": det.to_json()}));
                        }
                    }
                }
                // nalgebra's generic decompositions over the dual scalar
                if let Some(inv) = a_na.clone().try_inverse() {
                    let prod = &a_na * &inv;
                    let mut e = 0.0f64;
                    for i in 0..n { for j in 0..n { e = e.max(maxabs(&(prod[(i, j)] - if i == j { T::from(1.0) } else { T::from(0.0) }))); } }
                    rep.check(&format!("{key}|nalgebra try_inverse|n{n}"), e, tol, || json!({"n": n}));
                } else {
                    rep.check(&format!("{key}|nalgebra try_inverse|n{n}"), f64::INFINITY, tol, || json!({"what": "None for a regular matrix"}));
                }
                if let Some(x) = a_na.clone().lu().solve(&b_na) {
                    rep.check(&format!("{key}|nalgebra lu().solve|n{n}"), resid(&|k| x[k]), tol, || json!({"n": n}));
                }
                let nb = norm(&b);
                let nb2 = b.iter().fold(T::from(0.0), |acc, &v| acc + v * v);
                rep.check(&format!("{key}|norm|n{n}"), maxabs(&(nb * nb - nb2)), tol * (1.0 + nb2.re().abs()), || json!({"n": n}));
                // ---------------- singular: an all-zero pivot column in the real part
                if n >= 2 {
                    let zc = rng.below(n as u64) as usize;
                    let asing = Array2::<T>::from_shape_fn((n, n), |(i, j)| if j == zc { withfirst(0.0, &vec![rng.sym(); first(&a_na[(0, 0)]).len()]) } else { a_na[(i, j)] });
                    let r = std::panic::catch_unwind(std::panic::AssertUnwindSafe(|| LU::<T, f64>::new(asing).is_err()));
                    rep.check(&format!("{key}|singular reported|n{n}"), if matches!(r, Ok(true)) { 0.0 } else { f64::INFINITY }, 1.0, || json!({"zero_column": zc, "observed": format!("{:?}", r.as_ref().ok())}));
                }
                // ---------------- symmetric eigenproblem with prescribed, well separated spectrum
                let u = orthogonal(&mut rng, n);
                let lam: Vec<f64> = (0..n).map(|k| -1.0 + 0.8 * k as f64 + 0.2 * rng.unit()).collect();
                let sre = &u * DMatrix::<f64>::from_fn(n, n, |i, j| if i == j { lam[i] } else { 0.0 }) * u.transpose();
                let mut s_na = DMatrix::<T>::from_fn(n, n, |_, _| T::from(0.0));
                for i in 0..n { for j in i..n { let v = mk(&mut rng, 0.5 * (sre[(i, j)] + sre[(j, i)])); s_na[(i, j)] = v; s_na[(j, i)] = v; } }
                let sa = Array2::<T>::from_shape_fn((n, n), |(i, j)| s_na[(i, j)]);
                let etol = 5e-8;
                let (d, v) = jacobi_eigenvalue(sa.clone(), 200);
                let mut e1 = 0.0f64; let mut e2 = 0.0f64;
                for i in 0..n { for k in 0..n {
                    let mut acc = -(v[(i, k)] * d[k]);
                    for j in 0..n { acc = acc + s_na[(i, j)] * v[(j, k)]; }
                    e1 = e1.max(maxabs(&acc));
                    let mut o = if i == k { -T::from(1.0) } else { T::from(0.0) };
                    for j in 0..n { o = o + v[(j, i)] * v[(j, k)]; }
                    e2 = e2.max(maxabs(&o));
                } }
                rep.check(&format!("{key}|jacobi A V = V L|n{n}"), e1, etol, || json!({"n": n}));
                rep.check(&format!("{key}|jacobi V^T V = I|n{n}"), e2, etol, || json!({"n": n}));
                let asc = (1..n).all(|k| d[k - 1].re() <= d[k].re());
                rep.check(&format!("{key}|jacobi ascending|n{n}"), if asc { 0.0 } else { f64::INFINITY }, 1.0, || json!({"lambda": (0..n).map(|k| d[k].re()).collect::<Vec<_>>()}));
                // Hellmann-Feynman: lambda_k' = v_k^T A' v_k (real parts of the eigenvectors)
                let nf = first(&s_na[(0, 0)]).len();
                for k in 0..n { for c in 0..nf {
                    let mut hf = 0.0;
                    for i in 0..n { for j in 0..n { hf += v[(i, k)].re() * first(&s_na[(i, j)])[c] * v[(j, k)].re(); } }
                    rep.check(&format!("{key}|Hellmann-Feynman|n{n}"), (first(&d[k])[c] - hf).abs(), etol, || json!({"k": k}));
                } }
                let (e0, v0) = smallest_ev(sa.clone());
                rep.check(&format!("{key}|smallest_ev|n{n}"), maxabs(&(e0 - d[0])) + (0..n).map(|i| maxabs(&(v0[i] - v[(i, 0)]))).fold(0.0, f64::max), etol, || json!({"n": n}));
                // ---------------- structured symmetric matrices: constant diagonal, tridiagonal coupling of either sign.  The
                //                  rotated pair has EQUAL diagonal entries (theta = +-0: the 45 degree rotation, whose sign comes
                //                  from the sign of a zero); the spectrum c + 2 s cos(k pi / (n + 1)) is simple
                if n >= 2 && n <= 5 {
                    for (ci, (cdiag, coup)) in [(2.0, -1.0), (2.0, 1.0), (-0.5, -0.75), (0.0, 1.5)].iter().enumerate() {
                        let mut t_na = DMatrix::<T>::from_fn(n, n, |_, _| T::from(0.0));
                        for i in 0..n { for j in i..n {
                            let re = if i == j { *cdiag } else if j == i + 1 { *coup } else { 0.0 };
                            let v = mk(&mut rng, re); t_na[(i, j)] = v; t_na[(j, i)] = v;
                        } }
                        let ta = Array2::<T>::from_shape_fn((n, n), |(i, j)| t_na[(i, j)]);
                        let (d, v) = jacobi_eigenvalue(ta.clone(), 200);
                        let mut e1 = 0.0f64; let mut e2 = 0.0f64;
                        for i in 0..n { for k in 0..n {
                            let mut acc = -(v[(i, k)] * d[k]);
                            for j in 0..n { acc = acc + t_na[(i, j)] * v[(j, k)]; }
                            e1 = e1.max(maxabs(&acc));
                            let mut o = if i == k { -T::from(1.0) } else { T::from(0.0) };
                            for j in 0..n { o = o + v[(j, i)] * v[(j, k)]; }
                            e2 = e2.max(maxabs(&o));
                        } }
                        rep.check(&format!("{key}|jacobi constant diagonal A V = V L|n{n}"), e1, etol, || json!({"n": n, "diag": cdiag, "coupling": coup, "family": ci}));
                        rep.check(&format!("{key}|jacobi constant diagonal V^T V = I|n{n}"), e2, etol, || json!({"n": n, "diag": cdiag, "coupling": coup}));
                        let want: Vec<f64> = { let mut w: Vec<f64> = (1..=n).map(|k| cdiag + 2.0 * coup * (k as f64 * std::f64::consts::PI / (n as f64 + 1.0)).cos()).collect(); w.sort_by(|a, b| a.partial_cmp(b).unwrap()); w };
                        let e3 = (0..n).map(|k| (d[k].re() - want[k]).abs()).fold(0.0, f64::max);
                        rep.check(&format!("{key}|jacobi constant diagonal spectrum|n{n}"), e3, 1e-9, || json!({"n": n, "got": (0..n).map(|k| d[k].re()).collect::<Vec<_>>(), "want": want}));
                    }
                }
                // nalgebra's symmetric_eigen over the dual scalar: same identities (unordered spectrum)
                let se = s_na.clone().symmetric_eigen();
                let (mut e3, mut e3re, mut e3first) = (0.0f64, 0.0f64, 0.0f64);
                for i in 0..n { for k in 0..n {
                    let mut acc = -(se.eigenvectors[(i, k)] * se.eigenvalues[k]);
                    for j in 0..n { acc = acc + s_na[(i, j)] * se.eigenvectors[(j, k)]; }
                    e3 = e3.max(maxabs(&acc));
                    e3re = e3re.max(acc.re().abs());
                    e3first = e3first.max(first(&acc).iter().fold(0.0f64, |m, x| m.max(x.abs())));
                } }
                // nalgebra stops its QR iteration when the REAL parts of the off-diagonal have converged; the derivative
                // parts lag behind by one (first order) resp. two (second order) iterations of a quadratically convergent
                // process, so what is left in them is far above rounding: tolerances per order (calibrated on seeds 1-6:
                // worst observed 1.3e-12 / 3e-9 / 2e-5, i.e. a margin of 50 or more; a wrong field operation leaves O(1) residuals)
                rep.check(&format!("{key}|nalgebra symmetric_eigen re|n{n}"), e3re, 1e-10, || json!({"n": n}));
                rep.check(&format!("{key}|nalgebra symmetric_eigen first order|n{n}"), e3first, 1e-6, || json!({"n": n}));
                rep.check(&format!("{key}|nalgebra symmetric_eigen|n{n}"), e3, 1e-3, || json!({"n": n}));
                if rep.samples.len() < 3 && s == 2 {
                    rep.samples.push(json!({"type": key, "n": n, "eigenvalues": (0..n).map(|k| d[k].to_json()).collect::<Vec<_>>()}));
                }
            }
        }
    };
}


la_type!(la_dual, Dual64, "Dual64", |r, re| Dual64::new(re, r.sym()), |x| vec![x.eps], |re, f| Dual64::new(re, f[0]));
la_type!(la_dual2, Dual2_64, "Dual2_64", |r, re| Dual2_64::new(re, r.sym(), r.sym()), |x| vec![x.v1], |re, f| Dual2_64::new(re, f[0], 0.0));
la_type!(la_dualvec, DualSVec64<2>, "DualSVec64<2>",
         |r, re| DualSVec64::<2>::new(re, Derivative::some(nalgebra::SVector::<f64, 2>::new(r.sym(), r.sym()))),
         |x| { let m = x.eps.clone().unwrap_generic(nalgebra::Const::<2>, nalgebra::Const::<1>); vec![m[0], m[1]] },
         |re, f| DualSVec64::<2>::new(re, Derivative::some(nalgebra::SVector::<f64, 2>::new(f[0], f[1]))));

pub fn run(seed: u64, samples: usize) -> Result<Value, String> {
    let mut rep = Rep { checks: 0, per_case: BTreeMap::new(), worst: BTreeMap::new(), violations: vec![], n_viol: 0, samples: vec![] };
    la_dual(seed, samples, &mut rep);
    la_dual2(seed, samples, &mut rep);
    la_dualvec(seed, samples, &mut rep);
    Ok(json!({"checks": rep.checks, "distinct_cases": rep.per_case.len(), "per_case": rep.per_case, "worst_ratio": rep.worst,
              "n_violations": rep.n_viol, "violations": rep.violations, "samples": rep.samples}))
}

/// replay of the LU step machine of LinAlg.tla: every matrix TLC explored (all row orders,
/// hence all pivoting paths and both parities; regular and singular) through the real LU
pub fn lu_replay(path: &str) -> Result<Value, String> {
    let text = std::fs::read_to_string(path).map_err(|e| format!("{path}: {e}"))?;
    let mut rep = Rep { checks: 0, per_case: BTreeMap::new(), worst: BTreeMap::new(), violations: vec![], n_viol: 0, samples: vec![] };
    let q = |v: &Value| v[0].as_f64().unwrap() / v[1].as_f64().unwrap();
    let dual = |v: &Value| Dual64::new(q(&v["re"]), q(&v["eps"]));
    let mut cases = 0u64;
    let mut inexact = 0u64;
    for line in text.lines() {
        let l = line.trim();
        let Some(rest) = l.strip_prefix("<<\"LU\", ") else { continue };
        let Some(inner) = rest.strip_suffix(">>") else { continue };
        let s: String = serde_json::from_str(inner).map_err(|e| e.to_string())?;
        let c: Value = serde_json::from_str(&s).map_err(|e| e.to_string())?;
        cases += 1;
        let rows = c["a"].as_array().ok_or("a")?;
        let n = rows.len();
        let a = Array2::<Dual64>::from_shape_fn((n, n), |(i, j)| dual(&rows[i][j]));
        let b = Array1::<Dual64>::from_shape_fn(n, |i| dual(&c["b"][i]));
        let status = c["status"].as_str().unwrap_or("");
        let swaps = c["swaps"].as_u64().unwrap_or(0);
        let tag = format!("n{n}|{status}|swaps{swaps}");
        // the rational run equals the float run only while every multiplier and entry is dyadic; otherwise a pivot
        // that is exactly zero over the rationals is a rounding residue in floats (and vice versa)
        let dyadic = c["dyadic"].as_bool().unwrap_or(true);
        let r = std::panic::catch_unwind(std::panic::AssertUnwindSafe(|| LU::<Dual64, f64>::new(a.clone())));
        match (status, r) {
            ("fail", Ok(Err(_))) => rep.check(&format!("LU|singular|{tag}"), 0.0, 1.0, || json!({})),
            ("fail", Ok(Ok(_))) if !dyadic => { inexact += 1; }
            ("done", Ok(Err(_))) if !dyadic => { inexact += 1; }
            ("fail", other) => rep.check(&format!("LU|singular|{tag}"), f64::INFINITY, 1.0, || json!({"a": c["a"], "observed": match other { Ok(Ok(_)) => "Ok(factorisation)", Ok(Err(_)) => "Err", Err(_) => "panic" }})),
            ("done", Ok(Ok(lu))) => {
                let det = lu.determinant();
                let wd = dual(&c["det"]);
                let tol = 1e-10 * (1.0 + wd.re.abs() + wd.eps.abs());
                rep.check(&format!("LU|det|{tag}"), (det.re - wd.re).abs().max((det.eps - wd.eps).abs()), tol, || json!({"a": c["a"], "expected": c["det"], "observed": det.to_json()}));
                let x = lu.solve(&b);
                let mut e = 0.0f64; let mut sc = 1.0f64;
                for i in 0..n { let w = dual(&c["x"][i]); e = e.max((x[i].re - w.re).abs()).max((x[i].eps - w.eps).abs()); sc = sc.max(w.re.abs()).max(w.eps.abs()); }
                rep.check(&format!("LU|solve|{tag}"), e, 1e-10 * sc, || json!({"a": c["a"], "expected": c["x"], "observed": (0..n).map(|i| x[i].to_json()).collect::<Vec<_>>()}));
                if let Some(wi) = c["inv"].as_array().filter(|a| a.len() == n) {
                    let inv = lu.inverse();
                    let mut e = 0.0f64; let mut sc = 1.0f64;
                    for i in 0..n { for j in 0..n { let w = dual(&wi[i][j]); e = e.max((inv[(i, j)].re - w.re).abs()).max((inv[(i, j)].eps - w.eps).abs()); sc = sc.max(w.re.abs()).max(w.eps.abs()); } }
                    rep.check(&format!("LU|inverse|{tag}"), e, 1e-10 * sc, || json!({"a": c["a"], "expected": c["inv"]}));
                }
                if rep.samples.len() < 2 && swaps > 0 { rep.samples.push(json!({"a": c["a"], "swaps": swaps, "det": det.to_json()})); }
            }
            ("done", other) => rep.check(&format!("LU|regular|{tag}"), f64::INFINITY, 1.0, || json!({"a": c["a"], "observed": match other { Ok(Err(_)) => "Err (reported singular)", Err(_) => "panic", _ => "?" }})),
            _ => {}
        }
    }
    Ok(json!({"cases": cases, "checks": rep.checks, "distinct_cases": rep.per_case.len(), "per_case": rep.per_case,
              "singularity_undecidable_in_floats": inexact, "n_violations": rep.n_viol, "violations": rep.violations, "samples": rep.samples}))
}

/// replay of the Jacobi step machine of Jacobi.tla (the rational-rotation family): eigenvalues with their
/// derivatives and the eigenvector matrix, part by part
pub fn jacobi_replay(path: &str) -> Result<Value, String> {
    let text = std::fs::read_to_string(path).map_err(|e| format!("{path}: {e}"))?;
    let mut rep = Rep { checks: 0, per_case: BTreeMap::new(), worst: BTreeMap::new(), violations: vec![], n_viol: 0, samples: vec![] };
    let q = |v: &Value| v[0].as_f64().unwrap() / v[1].as_f64().unwrap();
    let dual = |v: &Value| Dual64::new(q(&v["re"]), q(&v["eps"]));
    let mut cases = 0u64;
    for line in text.lines() {
        let l = line.trim();
        let Some(rest) = l.strip_prefix("<<\"JACOBI\", ") else { continue };
        let Some(inner) = rest.strip_suffix(">>") else { continue };
        let s: String = serde_json::from_str(inner).map_err(|e| e.to_string())?;
        let c: Value = serde_json::from_str(&s).map_err(|e| e.to_string())?;
        cases += 1;
        let rows = c["a"].as_array().ok_or("a")?;
        let n = rows.len();
        let a = Array2::<Dual64>::from_shape_fn((n, n), |(i, j)| dual(&rows[i][j]));
        // position of the coupled pair: part of the case name
        let mut pq = String::new();
        for i in 0..n { for j in (i + 1)..n { if a[(i, j)].re != 0.0 { pq = format!("p{i}q{j}"); } } }
        let tag = format!("n{n}|{pq}");
        let r = std::panic::catch_unwind(std::panic::AssertUnwindSafe(|| jacobi_eigenvalue(a.clone(), 200)));
        let Ok((d, v)) = r else {
            rep.check(&format!("jacobi|panic|{tag}"), f64::INFINITY, 1.0, || json!({"a": c["a"]}));
            continue;
        };
        let (mut e, mut sc) = (0.0f64, 1.0f64);
        for j in 0..n { let w = dual(&c["d"][j]); e = e.max((d[j].re - w.re).abs()).max((d[j].eps - w.eps).abs()); sc = sc.max(w.re.abs()).max(w.eps.abs()); }
        rep.check(&format!("jacobi|eigenvalues|{tag}"), e, 1e-11 * sc, || json!({"a": c["a"], "expected": c["d"], "observed": (0..n).map(|j| d[j].to_json()).collect::<Vec<_>>()}));
        let (mut e, mut sc) = (0.0f64, 1.0f64);
        for i in 0..n { for j in 0..n { let w = dual(&c["v"][i][j]); e = e.max((v[(i, j)].re - w.re).abs()).max((v[(i, j)].eps - w.eps).abs()); sc = sc.max(w.re.abs()).max(w.eps.abs()); } }
        rep.check(&format!("jacobi|eigenvectors|{tag}"), e, 1e-11 * sc, || json!({"a": c["a"], "expected": c["v"],
            "observed": (0..n).map(|i| (0..n).map(|j| v[(i, j)].to_json()).collect::<Vec<_>>()).collect::<Vec<_>>()}));
        if rep.samples.len() < 2 { rep.samples.push(json!({"a": c["a"], "d": (0..n).map(|j| d[j].to_json()).collect::<Vec<_>>()})); }
    }
    Ok(json!({"cases": cases, "checks": rep.checks, "distinct_cases": rep.per_case.len(), "per_case": rep.per_case,
              "n_violations": rep.n_viol, "violations": rep.violations, "samples": rep.samples}))
}
